#!/bin/bash
# Runs the repository's own suite (guard OFF) and compares with /root/.vp/BASELINE.json's stable_pass list.
# Used only to validate fix:/hook commits by hand; never called from a registered check
# (some repo tests write into */resources).
cd /repo || exit 2
out=$(CARGO_NET_OFFLINE=true cargo nextest run --workspace --no-fail-fast --offline --test-threads 8 2>&1)
echo "$out" | grep -E "^\s+(PASS|FAIL)" | sed -E 's/^\s+(PASS|FAIL) \[[^]]*\]\s+//' > /dev/null
python3 - "$out" <<'PY'
import json,re,sys
out=sys.argv[1]
base=json.load(open('/root/.vp/BASELINE.json'))['stable_pass']
passed=set()
for m in re.finditer(r'^\s+PASS \[[^\]]*\]\s+(?:\(\s*\d+/\d+\)\s+)?(\S+)\s+(\S+)',out,re.M):
    passed.add((m.group(1)+'::'+m.group(2)))
missing=[b for b in base if b not in passed]
print("passed:",len(passed),"baseline:",len(base),"missing from pass:",missing)
sys.exit(1 if missing else 0)
PY
rc=$?
git -C /repo status --short
exit $rc
