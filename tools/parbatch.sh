#!/bin/bash
# usage: parbatch.sh <lanes> <seed ids...>
# Runs seeded changes through their property's quick check in <lanes> parallel lanes. Each lane works on its own clone of
# /repo and its own copy of /verif under /tmp/par/<k> (the copy's harness and translator point at the clone), so /repo itself
# is never touched and /verif can be edited meanwhile. Results: /tmp/par/results.txt (one line per seed).
LANES=$1; shift
mkdir -p /tmp/par; : > /tmp/par/results.txt
IDS=("$@")
for k in $(seq 1 $LANES); do
  (
    L=/tmp/par/$k
    rm -rf $L; mkdir -p $L
    git clone -q --local /repo $L/repo
    rsync -a --exclude replays --exclude .work /verif/ $L/verif/
    sed -i "s|\"/repo/|\"$L/repo/|" $L/verif/harness/Cargo.toml
    sed -i "s|\"/repo\", os.path.join(LEAN|\"$L/repo\", os.path.join(LEAN|" $L/verif/check
    sed -i "s|/repo/|$L/repo/|g" $L/verif/harness/src/props/gds.rs
    cp $L/repo/Cargo.lock $L/verif/harness/Cargo.lock
    i=0
    for ID in "${IDS[@]}"; do
      i=$((i+1))
      [ $(( (i - 1) % LANES + 1 )) -eq $k ] || continue
      P=${ID%%-*}
      cd $L/repo && git checkout -q -- . && git clean -fdq
      if ! git apply /verif/seeded/$ID/patch.diff; then echo "$ID patch-does-not-apply" >> /tmp/par/results.txt; continue; fi
      cd $L/verif
      ./check $P --tier quick > $L/log-$ID.txt 2>&1; rc=$?
      echo "$ID rc=$rc $(grep -E 'VIOLATION|^OK|ERROR' $L/log-$ID.txt | head -1 | sed "s|$L/verif|.|" | cut -c1-170)" >> /tmp/par/results.txt
      cd $L/repo && git checkout -q -- . && git clean -fdq
    done
  ) &
done
wait
echo PARBATCH-DONE >> /tmp/par/results.txt
