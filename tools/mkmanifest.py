#!/usr/bin/env python3
"""Regenerates MANIFEST.json from props.json (claimed checks) — keeps the manifest valid at all times."""
import json, os
ROOT = os.path.dirname(os.path.dirname(os.path.abspath(__file__)))
props = json.load(open(os.path.join(ROOT, "props.json")))
allp = ["C%02d" % i for i in range(1, 21)]
claimed = [p for p in allp if p in props and props[p].get("claimed", True)]
m = json.load(open(os.path.join(ROOT, "MANIFEST.json")))
m["engines"][0]["serves_properties"] = claimed
m["checks"] = []
for p in claimed:
    c = props[p]
    m["checks"].append({
        "property_id": p,
        "quick_cmd": f"./check {p} --tier quick",
        "thorough_cmd": f"./check {p} --tier thorough",
        "evidence_file": f"/verif/evidence/{p}.json",
        "replay_cmd_template": f"./check {p} --replay {{path}}",
        "engine": "lean4+l21h",
        "level_claimed": {"category": "proof", "text": c["level_text"], "design_ref": c.get("design_ref", "DESIGN.md §6 " + p)},
        "level_note": c["level_note"],
        "technique": c.get("technique", "Lean 4 machine-checked proof over a model tied to the code by differential correspondence"),
    })
m["not_applicable"] = [{"property_id": p, "reason": (props.get(p, {}).get("na_reason") or "check not built yet in this round (planned: DESIGN.md §6, §10); not claimed until its model, theorems and correspondence exist")} for p in allp if p not in claimed]
json.dump(m, open(os.path.join(ROOT, "MANIFEST.json"), "w"), indent=1, ensure_ascii=False)
print("claimed:", claimed)
