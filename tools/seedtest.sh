#!/bin/bash
# usage: seedtest.sh <PROP> <patch.diff> [more check ids...]   — apply a seeded change to /repo, run the check(s), undo.
P=$1; PATCH=$2; shift 2
cd /repo || exit 2
if [ -n "$(git status --porcelain)" ]; then echo "repo not clean"; exit 2; fi
git apply "$PATCH" || { echo "patch does not apply"; exit 2; }
cd /verif
for C in $P "$@"; do
  ./check $C --tier quick > /verif/.work/seed-$C.log 2>&1; rc=$?
  echo "check $C rc=$rc: $(grep -E 'VIOLATION|^OK|ERROR' /verif/.work/seed-$C.log | head -2 | cut -c1-250)"
done
git -C /repo checkout -- . ; git -C /repo clean -fdq
# restore the harness build & evidence to the unchanged tree state
cd /verif && git checkout -- evidence 2>/dev/null
