#!/bin/bash
# variant of confirm_seed.sh for demos that are appended to <file> and run with `cargo test -p <crate> --lib <filter>`
P=$1; K=$2; CRATE=$3; FILE=$4; FILTER=$5; CAUGHT=$6
WT=/tmp/wt/$P; OUT=/tmp/wt/$P.out; DST=/verif/seeded/$P-m$K
cd $WT || exit 2
git checkout -q -- . ; git clean -fdq -e target
git apply $OUT/m$K.patch.diff || { echo "$P m$K: patch does not apply"; exit 1; }
export CARGO_NET_OFFLINE=true
suite=$(cargo test --workspace --no-fail-fast --offline 2>&1 | grep -E "^test .* FAILED" | sort -u | tr '\n' ';')
cat $OUT/m$K.demo.rs >> $FILE
cargo test --offline -p $CRATE --lib $FILTER > /tmp/wt/$P.m$K.with.log 2>&1; with_rc=$?
git checkout -q -- .
cat $OUT/m$K.demo.rs >> $FILE
cargo test --offline -p $CRATE --lib $FILTER > /tmp/wt/$P.m$K.without.log 2>&1; without_rc=$?
git checkout -q -- . ; git clean -fdq -e target
mkdir -p $DST; cp $OUT/m$K.patch.diff $DST/patch.diff; cp $OUT/m$K.demo.rs $DST/demo.rs
python3 - "$OUT/m$K.meta.json" "$DST/meta.json" "$suite" "$with_rc" "$without_rc" "$CRATE" "$FILE" "$FILTER" "$CAUGHT" <<'PY'
import json,sys
src,dst,suite,w,wo,crate,f,flt,caught=sys.argv[1:]
m=json.load(open(src))
m["confirmed_by_me"]={"suite_failures_with_patch":suite,"expected_suite_failures":"test tests::it_has_gds_properties ... FAILED (also fails on the unchanged tree)",
  "demo_cmd":f"cat demo.rs >> {f} && CARGO_NET_OFFLINE=true cargo test --offline -p {crate} --lib {flt}",
  "demo_exit_with_patch":int(w),"demo_exit_without_patch":int(wo)}
m["caught_by_checks"]=caught
json.dump(m,open(dst,"w"),indent=1)
print(dst, "suite:",suite,"with:",w,"without:",wo)
PY
