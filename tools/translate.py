#!/usr/bin/env python3
"""
Translator: /repo sources -> lean/L21/Gen/*.lean  (regenerated on every run of a check that uses it).

Extracts the *tabular* parts of the code as Lean data, so that theorems over them are re-checked
against what the source says now:

  gds21/src/data.rs   enum GdsRecordType (numbering), GdsRecordType::valid(), enum GdsDataType
  gds21/src/write.rs  write_record_header  (record -> rtype, dtype, length rule)
                      write_record_content (record -> payload layout)
  gds21/src/read.rs   read_record_content  ((rtype, dtype, len) -> record, payload layout)

Per construct it reports "extracted" or "unrecognised: why".  When a construct is unrecognised the
generated file is left as it was (last good tables) and the check falls back to correspondence only
for that tie (DESIGN §4).  Output: one JSON line on stdout.
"""
import re, sys, os, json

def strip_comments(s):
    s = re.sub(r"//[^\n]*", "", s)
    s = re.sub(r"/\*.*?\*/", "", s, flags=re.S)
    return s

def find_block(src, header_re):
    """text inside the braces following the first match of header_re"""
    m = re.search(header_re, src)
    if not m:
        return None
    i = src.index("{", m.end() - 1) if src[m.end() - 1] != "{" else m.end() - 1
    depth = 0
    for j in range(i, len(src)):
        if src[j] == "{":
            depth += 1
        elif src[j] == "}":
            depth -= 1
            if depth == 0:
                return src[i + 1:j]
    return None

def split_arms(body):
    """split a `match` body into (pattern, expr) pairs"""
    arms = []
    i = 0
    n = len(body)
    while i < n:
        # pattern: up to '=>' at depth 0
        depth = 0
        j = i
        while j < n:
            c = body[j]
            if c in "([{":
                depth += 1
            elif c in ")]}":
                depth -= 1
            elif c == "=" and body[j:j + 2] == "=>" and depth == 0:
                break
            j += 1
        if j >= n:
            break
        pat = body[i:j].strip()
        k = j + 2
        while k < n and body[k].isspace():
            k += 1
        # expression: a braced block, or up to ',' at depth 0
        if k < n and body[k] == "{":
            depth = 0
            e = k
            while e < n:
                if body[e] == "{":
                    depth += 1
                elif body[e] == "}":
                    depth -= 1
                    if depth == 0:
                        break
                e += 1
            expr = body[k:e + 1]
            i = e + 1
            while i < n and body[i] in ", \n\t\r":
                i += 1
        else:
            depth = 0
            e = k
            while e < n:
                c = body[e]
                if c in "([{":
                    depth += 1
                elif c in ")]}":
                    depth -= 1
                elif c == "," and depth == 0:
                    break
                e += 1
            expr = body[k:e]
            i = e + 1
        if pat:
            arms.append((pat, expr.strip()))
    return arms

class Unrec(Exception):
    pass

def gds_tables(repo):
    rep = {}
    data = strip_comments(open(os.path.join(repo, "gds21/src/data.rs")).read())
    write = strip_comments(open(os.path.join(repo, "gds21/src/write.rs")).read())
    read = strip_comments(open(os.path.join(repo, "gds21/src/read.rs")).read())

    # 1. record type numbering
    blk = find_block(data, r"pub enum GdsRecordType\s*\{")
    if blk is None:
        raise Unrec("enum GdsRecordType not found")
    names = []
    nxt = 0
    nums = {}
    for item in blk.split(","):
        item = item.strip()
        if not item:
            continue
        m = re.fullmatch(r"(\w+)(?:\s*=\s*(0x[0-9a-fA-F]+|\d+))?", item)
        if not m:
            raise Unrec("GdsRecordType variant: " + item)
        if m.group(2):
            nxt = int(m.group(2), 0)
        nums[m.group(1)] = nxt
        names.append((m.group(1), nxt))
        nxt += 1
    rep["GdsRecordType"] = "extracted (%d variants)" % len(names)

    # 2. valid()
    blk = find_block(data, r"pub fn valid\(&self\)\s*->\s*bool\s*\{")
    if blk is None:
        raise Unrec("GdsRecordType::valid not found")
    inner = find_block(blk, r"match self\s*\{")
    arms = split_arms(inner)
    invalid = None
    for pat, expr in arms:
        if expr == "false":
            invalid = [p.strip().replace("Self::", "") for p in pat.split("|")]
        elif expr == "true" and pat == "_":
            pass
        else:
            raise Unrec("valid(): unexpected arm %s => %s" % (pat, expr))
    if invalid is None:
        raise Unrec("valid(): no `=> false` arm")
    for v in invalid:
        if v not in nums:
            raise Unrec("valid(): unknown variant " + v)
    rep["GdsRecordType::valid"] = "extracted (%d invalid)" % len(invalid)

    # 3. data types
    blk = find_block(data, r"pub enum GdsDataType\s*\{")
    dts = {}
    nxt = 0
    for item in blk.split(","):
        item = item.strip()
        if not item:
            continue
        m = re.fullmatch(r"(\w+)(?:\s*=\s*(\d+))?", item)
        if not m:
            raise Unrec("GdsDataType variant: " + item)
        if m.group(2):
            nxt = int(m.group(2))
        dts[m.group(1)] = nxt
        nxt += 1
    rep["GdsDataType"] = "extracted (%d)" % len(dts)

    # 4. write_record_header
    fn = find_block(write, r"fn write_record_header\(&mut self, record: &GdsRecord\)\s*->\s*GdsResult<\(\)>\s*\{")
    if fn is None:
        raise Unrec("write_record_header not found")
    if not re.search(r"let gds_strlen = \|s: &str\| -> usize \{ s\.len\(\) \+ s\.len\(\) % 2 \};", fn):
        raise Unrec("gds_strlen closure changed")
    if not re.search(r"u16::try_from\(len \+ 4\)", fn) or "write_u16::<BigEndian>(val)" not in fn:
        raise Unrec("header length emission changed")
    if not re.search(r"write_u8\(rtype as u8\)\?;\s*self\.dest\.write_u8\(dtype as u8\)\?;", fn):
        raise Unrec("header type bytes emission changed")
    inner = find_block(fn, r"=\s*match record\s*\{")
    wt = {}
    for pat, expr in split_arms(inner):
        m = re.fullmatch(r"GdsRecord::(\w+)(?:\s*\{[^}]*\}|\s*\([^)]*\))?", pat)
        if not m:
            raise Unrec("write header pattern: " + pat)
        var = m.group(1)
        e = re.fullmatch(r"\(GdsRecordType::(\w+),\s*(\w+),\s*(.+)\)", expr, flags=re.S)
        if not e:
            raise Unrec("write header expr: " + expr)
        rt, dt, ln = e.group(1), e.group(2), e.group(3).strip()
        if rt != var:
            raise Unrec("record variant %s written with record type %s" % (var, rt))
        if dt not in dts:
            raise Unrec("unknown data type " + dt)
        if re.fullmatch(r"\d+", ln):
            spec = ".fixed %s" % ln
        elif re.fullmatch(r"gds_strlen\(\w+\)", ln):
            spec = ".strlen"
        elif re.fullmatch(r"4 \* \w+\.len\(\)", ln):
            spec = ".xy"
        else:
            raise Unrec("length rule: " + ln)
        wt[var] = (nums[rt], dts[dt], spec)
    rep["write_record_header"] = "extracted (%d rows)" % len(wt)

    # 5. write_record_content
    fn = find_block(write, r"fn write_record_content\(&mut self, record: &GdsRecord\)\s*->\s*GdsResult<\(\)>\s*\{")
    inner = find_block(fn, r"match record\s*\{")
    wc = {}
    for pat, expr in split_arms(inner):
        vars_ = []
        for p in pat.split("|"):
            m = re.fullmatch(r"GdsRecord::(\w+)(?:\s*\{[^}]*\}|\s*\([^)]*\))?", p.strip())
            if not m:
                raise Unrec("write content pattern: " + p)
            vars_.append(m.group(1))
        e = re.sub(r"\s+", " ", expr)
        if e == "()":
            kind = ".none"
        elif re.fullmatch(r"\{ self\.dest\.write_u8\(\*d0\)\?; self\.dest\.write_u8\(\*d1\)\?; \}", e):
            kind = ".bits"
        elif e == "self.dest.write_i16::<BigEndian>(*d)?":
            kind = ".i16 1"
        elif e == "self.dest.write_i32::<BigEndian>(*d)?":
            kind = ".i32 1"
        elif re.fullmatch(r"\{ self\.dest\.write_u64::<BigEndian>\(GdsFloat64::try_encode\(\*d\)\?\)\? \}", e):
            kind = ".f64 1"
        elif re.fullmatch(r"\{ self\.dest\.write_u64::<BigEndian>\(GdsFloat64::try_encode\(\*d0\)\?\)\?; self\.dest\.write_u64::<BigEndian>\(GdsFloat64::try_encode\(\*d1\)\?\)\?; \}", e):
            kind = ".f64 2"
        elif re.fullmatch(r"\{ self\.dest\.write_i16::<BigEndian>\(\*cols\)\?; self\.dest\.write_i16::<BigEndian>\(\*rows\)\?; \}", e):
            kind = ".i16 2"
        elif re.fullmatch(r"\{ for val in d\.iter\(\) \{ self\.dest\.write_i16::<BigEndian>\(\*val\)\?; \} \}", e):
            kind = "i16-array"
        elif re.fullmatch(r"\{ for val in d\.iter\(\) \{ self\.dest\.write_i32::<BigEndian>\(\*val\)\?; \} \}", e):
            kind = ".i32vec"
        elif "for b in s.as_bytes()" in e and "write_u8(0x00)" in e and "s.len() % 2 != 0" in e:
            kind = ".str"
        else:
            raise Unrec("write content body for %s: %s" % (vars_, e[:120]))
        for v in vars_:
            wc[v] = kind
    if set(wc) != set(wt):
        raise Unrec("header and content tables cover different records: %s" % (set(wc) ^ set(wt)))
    for v in wc:
        if wc[v] == "i16-array":
            m = re.fullmatch(r"\.fixed (\d+)", wt[v][2])
            if not m:
                raise Unrec("i16 array without fixed length: " + v)
            wc[v] = ".i16 %d" % (int(m.group(1)) // 2)
    rep["write_record_content"] = "extracted (%d rows)" % len(wc)

    # 6. read_record_content
    fn = find_block(read, r"fn read_record_content\(&mut self, header: &GdsRecordHeader\)\s*->\s*GdsResult<GdsRecord>\s*\{")
    inner = find_block(fn, r"match \(header\.rtype, header\.dtype, len\)\s*\{")
    rt_rows = []
    for pat, expr in split_arms(inner):
        if pat == "_":
            if "RecordDecode" not in expr:
                raise Unrec("read default arm: " + expr)
            continue
        m = re.fullmatch(r"\(GdsRecordType::(\w+),\s*(\w+),\s*(\d+|_)\)", pat)
        if not m:
            raise Unrec("read pattern: " + pat)
        rt, dt, ln = m.group(1), m.group(2), m.group(3)
        e = re.sub(r"\s+", " ", expr)
        v = re.search(r"GdsRecord::(\w+)", e)
        if not v or v.group(1) != rt:
            raise Unrec("read arm for %s builds %s" % (rt, v.group(1) if v else None))
        L = None if ln == "_" else int(ln)
        if re.fullmatch(r"GdsRecord::\w+", e):
            kind = ".none"
        elif re.fullmatch(r"GdsRecord::\w+(\s*\{ version: |\()self\.read_i16\(len\)\?\[0\](,? \}|\))", e):
            kind = ".i16 1"
        elif re.fullmatch(r"GdsRecord::\w+ \{ dates: self\.read_i16\(24\)\?\.try_into\(\)\.unwrap\(\),? \}", e):
            kind = ".i16 12"
        elif re.fullmatch(r"\{ GdsRecord::TapeCode\(self\.read_i16\(12\)\?\.try_into\(\)\.unwrap\(\)\) \}", e):
            kind = ".i16 6"
        elif re.fullmatch(r"GdsRecord::\w+\(self\.read_str\(len\)\?\)", e):
            kind = ".str"
        elif re.fullmatch(r"GdsRecord::\w+\(self\.read_i32\(len\)\?\[0\]\)", e):
            kind = ".i32 1"
        elif re.fullmatch(r"GdsRecord::Xy\(self\.read_i32\(len\)\?\)", e):
            kind = ".i32vec"
        elif re.fullmatch(r"GdsRecord::\w+\(self\.read_f64\(len\)\?\[0\]\)", e):
            kind = ".f64 1"
        elif re.fullmatch(r"\{ let v = self\.read_f64\(len\)\?; GdsRecord::Units\(v\[0\], v\[1\]\) \}", e):
            kind = ".f64 2"
        elif re.fullmatch(r"\{ let d = self\.read_i16\(len\)\?; GdsRecord::ColRow \{ cols: d\[0\], rows: d\[1\],? \} \}", e):
            kind = ".i16 2"
        elif re.fullmatch(r"\{ let bytes = self\.read_bytes\(len\)\?; GdsRecord::\w+\(bytes\[0\], bytes\[1\]\) \}", e):
            kind = ".bits"
        else:
            raise Unrec("read body for %s: %s" % (rt, e[:140]))
        if dt not in dts:
            raise Unrec("unknown data type " + dt)
        rt_rows.append((nums[rt], dts[dt], L, kind))
    rep["read_record_content"] = "extracted (%d rows)" % len(rt_rows)

    out = []
    out.append("-- GENERATED by /verif/tools/translate.py from /repo/gds21/src/{data,write,read}.rs — do not edit.")
    out.append("import L21.Model.GdsTables")
    out.append("namespace L21.Gen")
    out.append("open L21.Gds")
    out.append("")
    out.append("/-- `enum GdsRecordType`: (variant, number) -/")
    out.append("def gdsRecTypes : List (String × Nat) := [" + ", ".join('("%s", %d)' % (n, k) for n, k in names) + "]")
    out.append("/-- record types for which `GdsRecordType::valid()` is false -/")
    out.append("def gdsInvalid : List Nat := [" + ", ".join(str(nums[v]) for v in invalid) + "]")
    out.append("/-- `enum GdsDataType` -/")
    out.append("def gdsDataTypes : List (String × Nat) := [" + ", ".join('("%s", %d)' % (n, k) for n, k in dts.items()) + "]")
    out.append("/-- `write_record_header` + `write_record_content`: rtype ↦ (dtype, length rule, payload layout) -/")
    rows = sorted((wt[v][0], wt[v][1], wt[v][2], wc[v]) for v in wt)
    out.append("def gdsWriteTable : List (Nat × Nat × LenSpec × PK) := [\n  " + ",\n  ".join("(%d, %d, %s, %s)" % r for r in rows) + "]")
    out.append("/-- `read_record_content`: (rtype, dtype, required payload length or any, payload layout) -/")
    out.append("def gdsReadTable : List (Nat × Nat × Option Nat × PK) := [\n  " + ",\n  ".join("(%d, %d, %s, %s)" % (a, b, ("none" if c is None else "some %d" % c), d) for a, b, c, d in rt_rows) + "]")
    out.append("")
    out.append("end L21.Gen")
    return "\n".join(out) + "\n", rep

def serde_fields(repo, rel):
    """(struct, field, type class, has default, skip rule) for every named field of every struct deriving Serialize in `rel`."""
    src = strip_comments(open(os.path.join(repo, rel)).read())
    rows = []
    for m in re.finditer(r"((?:#\[[^\]]*\]\s*)*)pub struct (\w+)\s*\{", src):
        if "Serialize" not in m.group(1):
            continue
        name = m.group(2)
        # body
        i = m.end() - 1
        depth = 0
        for j in range(i, len(src)):
            if src[j] == "{": depth += 1
            elif src[j] == "}":
                depth -= 1
                if depth == 0: break
        body = src[i + 1:j]
        for fm in re.finditer(r"((?:#\[[^\]]*\]\s*)*)pub (\w+)\s*:\s*([^,\n]+),", body):
            attrs, fname, ty = fm.group(1), fm.group(2), fm.group(3).strip()
            serde = " ".join(re.findall(r"#\[serde\(([^\]]*)\)\]", attrs))
            has_default = bool(re.search(r"\bdefault\b", serde))
            if re.search(r"skip_serializing_if\s*=\s*\"Option::is_none\"", serde): skip = ".ifNone"
            elif re.search(r"skip_serializing_if\s*=\s*\"Vec::is_empty\"", serde): skip = ".ifEmpty"
            elif re.search(r"skip_serializing_if\s*=\s*\"is_false\"", serde): skip = ".ifFalse"
            elif re.search(r"skip_serializing_if", serde): raise Unrec("unknown skip_serializing_if in %s.%s: %s" % (name, fname, serde))
            elif re.search(r"\bskip_serializing\b", serde): skip = ".always"
            elif re.search(r"\bskip\b|\bskip_deserializing\b|\bflatten\b|\bwith\b", serde): raise Unrec("unsupported serde attribute in %s.%s: %s" % (name, fname, serde))
            else: skip = ".never"
            if ty == "Unsupported": tc = ".unit"
            elif ty == "bool": tc = ".bool"
            elif ty.startswith("Option<"): tc = ".opt %s" % ("true" if ty == "Option<Unsupported>" or ty == "Option<()>" else "false")
            elif ty.startswith("Vec<"): tc = ".vec"
            else: tc = ".other"
            rows.append((name, fname, tc, has_default, skip))
    return rows

def lef_enums(repo):
    """every `enumstr!` table of lef21/src/data.rs: (enum name, [(variant, string)])"""
    src = open(os.path.join(repo, "lef21/src/data.rs")).read()
    tables = []
    for m in re.finditer(r"enumstr!\(\s*(?:///[^\n]*\n\s*)*(\w+)\s*\{(.*?)\}\s*\);", src, re.S):
        body = re.sub(r"//[^\n]*", "", m.group(2))
        items = re.findall(r"(\w+)\s*:\s*\"([^\"]*)\"", body)
        # everything in the body must be `Variant: "STRING",` items
        leftover = re.sub(r"(\w+)\s*:\s*\"([^\"]*)\"\s*,?", "", body).strip()
        if leftover:
            raise Unrec("enumstr! %s has unrecognised content: %s" % (m.group(1), leftover[:60]))
        tables.append((m.group(1), items))
    if not tables:
        raise Unrec("no enumstr! tables found")
    return tables


def num_consts(repo):
    """Small numeric tables of the LEF paths, read from the source:
       * the legal DATABASE MICRONS values (`LefDbuPerMicron::try_new`, lef21/src/data.rs),
       * raw units -> LEF database units (`LefExporter::export_units`, layout21raw/src/lef.rs),
       * raw units per micron fixed by the LEF importer (`dist_scale`, layout21raw/src/lef.rs)."""
    def num(t):
        t = t.replace("_", "").strip()
        if not re.fullmatch(r"-?\d+", t):
            raise Unrec("not an integer literal: " + t[:30])
        return int(t)
    src = strip_comments(open(os.path.join(repo, "lef21/src/data.rs")).read())
    body = find_block(src, r"pub\s+fn\s+try_new\s*\(\s*x\s*:\s*LefDecimal\s*\)")
    m = re.search(r"!\s*\[([^\]]*)\]\s*\.\s*contains\s*\(\s*&\s*x\s*\.\s*mantissa\s*\(\s*\)\s*\)", body or "")
    if not m:
        raise Unrec("LefDbuPerMicron::try_new: legal-value list not found")
    legal = [num(t) for t in m.group(1).split(",") if t.strip()]
    src = strip_comments(open(os.path.join(repo, "layout21raw/src/lef.rs")).read())
    body = find_block(src, r"fn\s+export_units\s*\(")
    m = re.search(r"let\s+scale\s*=\s*match\s+units\s*\{(.*?)\}\s*;", body or "", re.S)
    if not m:
        raise Unrec("LefExporter::export_units: scale table not found")
    arms = re.findall(r"Units::(\w+)\s*=>\s*([\d_]+)\s*,?", m.group(1))
    leftover = re.sub(r"Units::(\w+)\s*=>\s*([\d_]+)\s*,?", "", m.group(1)).strip()
    if leftover or not arms:
        raise Unrec("LefExporter::export_units: unrecognised arm: " + leftover[:60])
    scales = [(a, num(b)) for a, b in arms]
    ds = re.findall(r"self\s*\.\s*dist_scale\s*=\s*([\d_]+)\s*;", src)
    if len(ds) != 1:
        raise Unrec("LefImporter: expected exactly one assignment to dist_scale, found %d" % len(ds))
    body = find_block(src, r"fn\s+import_layer\s*\(")
    if body is None:
        raise Unrec("LefImporter::import_layer not found")
    calls = re.findall(r"layers\s*\.\s*(keyname|nextnum|add|keynum|get_or_insert)\s*\(|(Layer::new|Layer::from_num)\s*\(", body)
    shape = [a or b for a, b in calls]
    return legal, scales, num(ds[0]), shape

C20_FILES = ["layout21raw/src/gds.rs", "layout21raw/src/proto.rs", "layout21raw/src/lef.rs",
             "layout21raw/src/data.rs", "layout21tetris/src/conv/raw.rs"]

def hash_iter_sites(repo):
    """Every place in the conversion code where a HashMap/HashSet is ITERATED (lookups are order-free).
    A site is (file, enclosing fn, container name, how). Output order = source order."""
    sites = []
    for f in C20_FILES:
        src = strip_comments(open(os.path.join(repo, f)).read())
        # names declared with a hash type: struct fields, locals, parameters
        names = set(re.findall(r"\b(\w+)\s*:\s*&?(?:'\w+\s+)?(?:mut\s+)?(?:std::collections::)?Hash(?:Map|Set)\s*<", src))
        names |= set(re.findall(r"let\s+(?:mut\s+)?(\w+)\s*(?::[^=;]+)?=\s*(?:std::collections::)?Hash(?:Map|Set)::(?:new|with_capacity)", src))
        # fields of other crates' types known to be hash maps and reachable here
        names |= {"shapes", "blockages"}
        fn = "?"
        for line in src.splitlines():
            m = re.search(r"\bfn\s+(\w+)", line)
            if m:
                fn = m.group(1)
            for n in sorted(names):
                for how, pat in (("for", r"\bin\s+&?(?:mut\s+)?(?:[\w\.\(\)\?]*\.)?" + n + r"\s*\{"),
                                 ("iter", r"\b" + n + r"\s*\.\s*(?:iter|iter_mut|into_iter)\s*\(\)"),
                                 ("values", r"\b" + n + r"\s*\.\s*(?:values|values_mut|keys|drain)\s*\(")):
                    if re.search(pat, line):
                        sites.append("%s:%s:%s:%s" % (f, fn, n, how))
    return sites

def main():
    repo, outdir = sys.argv[1], sys.argv[2]
    os.makedirs(outdir, exist_ok=True)
    report = {"constructs": {}, "fallback": []}
    try:
        text, rep = gds_tables(repo)
        report["constructs"].update(rep)
        path = os.path.join(outdir, "GdsTables.lean")
        old = open(path).read() if os.path.exists(path) else None
        if old != text:
            open(path, "w").write(text)
            report["gds_tables"] = "rewritten"
        else:
            report["gds_tables"] = "unchanged"
    except Unrec as e:
        report["fallback"].append("gds tables: unrecognised: " + str(e))
    except Exception as e:  # source layout changed beyond recognition
        report["fallback"].append("gds tables: translator error: %r" % (e,))
    try:
        out = ["-- GENERATED by /verif/tools/translate.py: serde field attributes of the GDSII and LEF data models — do not edit.",
               "import L21.Model.Serde", "namespace L21.Gen", "open L21.Serde", ""]
        for nm, rel in (("gdsSerdeFields", "gds21/src/data.rs"), ("lefSerdeFields", "lef21/src/data.rs")):
            rows = serde_fields(repo, rel)
            out.append("/-- %s: (struct, field, type class, has `default`, skip rule) -/" % rel)
            out.append("def %s : List (String × String × Ty × Bool × Skip) := [\n  " % nm + ",\n  ".join('("%s", "%s", %s, %s, %s)' % (a, b, c, "true" if d else "false", e) for a, b, c, d, e in rows) + "]")
            report["constructs"][nm] = "extracted (%d fields)" % len(rows)
        out.append("\nend L21.Gen")
        text = "\n".join(out) + "\n"
        path = os.path.join(outdir, "SerdeFields.lean")
        old = open(path).read() if os.path.exists(path) else None
        if old != text:
            open(path, "w").write(text)
    except Unrec as e:
        report["fallback"].append("serde fields: unrecognised: " + str(e))
    except Exception as e:
        report["fallback"].append("serde fields: translator error: %r" % (e,))
    try:
        tables = lef_enums(repo)
        out = ["-- GENERATED by /verif/tools/translate.py: every `enumstr!` table of lef21/src/data.rs — do not edit.",
               "namespace L21.Gen", "", "/-- (enum, [(variant, LEF string)]) -/",
               "def lefEnums : List (String × List (String × String)) := [\n  " +
               ",\n  ".join('("%s", [%s])' % (n, ", ".join('("%s", "%s")' % it for it in items)) for n, items in tables) + "]",
               "", "end L21.Gen"]
        text = "\n".join(out) + "\n"
        path = os.path.join(outdir, "LefEnums.lean")
        old = open(path).read() if os.path.exists(path) else None
        if old != text:
            open(path, "w").write(text)
        report["constructs"]["lef_enums"] = "extracted (%d tables, %d strings)" % (len(tables), sum(len(i) for _, i in tables))
    except Unrec as e:
        report["fallback"].append("lef enums: unrecognised: " + str(e))
    except Exception as e:
        report["fallback"].append("lef enums: translator error: %r" % (e,))
    try:
        sites = hash_iter_sites(repo)
        text = ("-- GENERATED by /verif/tools/translate.py: hash-container iteration sites in the conversion code — do not edit.\n"
                "namespace L21.Gen\n\n/-- (file:function:container:how) for every iteration over a HashMap/HashSet -/\n"
                "def hashIterSites : List String := [\n  " + ",\n  ".join('"%s"' % x for x in sites) + "]\n\nend L21.Gen\n")
        path = os.path.join(outdir, "HashSites.lean")
        old = open(path).read() if os.path.exists(path) else None
        if old != text:
            open(path, "w").write(text)
        report["constructs"]["hash_iter_sites"] = "extracted (%d sites)" % len(sites)
    except Exception as e:
        report["fallback"].append("hash sites: translator error: %r" % (e,))
    try:
        legal, scales, dist, shape = num_consts(repo)
        text = ("-- GENERATED by /verif/tools/translate.py: numeric tables of the LEF paths — do not edit.\n"
                "namespace L21.Gen\n\n/-- `LefDbuPerMicron::try_new`: the legal DATABASE MICRONS values -/\n"
                "def legalDbuSrc : List Int := [" + ", ".join(str(x) for x in legal) + "]\n\n"
                "/-- `LefExporter::export_units`: raw units -> LEF database units per micron -/\n"
                "def lefExportScaleSrc : List (String × Int) := [" + ", ".join('("%s", %d)' % x for x in scales) + "]\n\n"
                "/-- `LefImporter`: raw units per micron (`dist_scale`) -/\n"
                "def lefImportDistScaleSrc : Int := %d\n\n" % dist +
                "/-- `LefImporter::import_layer`: the layer-table calls it makes, in source order -/\n"
                "def lefImportLayerCalls : List String := [" + ", ".join('"%s"' % x for x in shape) + "]\n\nend L21.Gen\n")
        path = os.path.join(outdir, "NumConsts.lean")
        old = open(path).read() if os.path.exists(path) else None
        if old != text:
            open(path, "w").write(text)
        report["constructs"]["num_consts"] = "extracted (%d legal dbu values, %d unit scales, dist_scale)" % (len(legal), len(scales))
    except Unrec as e:
        report["fallback"].append("numeric tables: unrecognised: " + str(e))
    except Exception as e:
        report["fallback"].append("numeric tables: translator error: %r" % (e,))
    print(json.dumps(report))
    return 0

if __name__ == "__main__":
    sys.exit(main())
