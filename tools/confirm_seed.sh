#!/bin/bash
# usage: confirm_seed.sh <PROP> <k> <crate> <testname> "<checks that caught it>"
# Confirms a seeded change in its scratch worktree: applies, suite passes, demo fails with / passes without; stores it under /verif/seeded.
P=$1; K=$2; CRATE=$3; T=$4; CAUGHT=$5
WT=/tmp/wt/$P; OUT=/tmp/wt/$P.out; DST=/verif/seeded/$P-m$K
cd $WT || exit 2
git checkout -q -- . ; git clean -fdq -e target
git apply $OUT/m$K.patch.diff || { echo "$P m$K: patch does not apply"; exit 1; }
export CARGO_NET_OFFLINE=true
suite=$(cargo test --workspace --no-fail-fast --offline 2>&1 | grep -E "^test .* FAILED|^error(\[|:)" | sort -u | tr '\n' ';')
mkdir -p $CRATE/tests; cp $OUT/m$K.demo.rs $CRATE/tests/$T.rs
cargo test --offline -p $CRATE --test $T > /tmp/wt/$P.m$K.with.log 2>&1; with_rc=$?
git checkout -q -- . ; rm -f $CRATE/tests/$T.rs
cp $OUT/m$K.demo.rs $CRATE/tests/$T.rs
cargo test --offline -p $CRATE --test $T > /tmp/wt/$P.m$K.without.log 2>&1; without_rc=$?
rm -f $CRATE/tests/$T.rs; git checkout -q -- . ; git clean -fdq -e target
mkdir -p $DST; cp $OUT/m$K.patch.diff $DST/patch.diff; cp $OUT/m$K.demo.rs $DST/demo.rs
python3 - "$OUT/m$K.meta.json" "$DST/meta.json" "$suite" "$with_rc" "$without_rc" "$CRATE" "$T" "$CAUGHT" <<'PY'
import json,sys
src,dst,suite,w,wo,crate,t,caught=sys.argv[1:]
m=json.load(open(src))
m["confirmed_by_me"]={"suite_failures_with_patch":suite,"expected_suite_failures":"test tests::it_has_gds_properties ... FAILED (also fails on the unchanged tree)",
  "demo_cmd":f"cp demo.rs {crate}/tests/{t}.rs && CARGO_NET_OFFLINE=true cargo test --offline -p {crate} --test {t}",
  "demo_exit_with_patch":int(w),"demo_exit_without_patch":int(wo)}
m["caught_by_checks"]=caught
json.dump(m,open(dst,"w"),indent=1)
print(dst, "suite:",suite,"with:",w,"without:",wo)
PY
