#!/bin/bash
K=$1; CAUGHT=$2
P=C09; WT=/tmp/wt/$P; OUT=/tmp/wt/$P.out; DST=/verif/seeded/$P-m$K
cd $WT || exit 2
git checkout -q -- . ; git clean -fdq -e target
git apply $OUT/m$K.patch.diff || exit 1
export CARGO_NET_OFFLINE=true
suite=$(cargo test --workspace --no-fail-fast --offline 2>&1 | grep -E "^test .* FAILED" | sort -u | tr '\n' ';')
python3 $OUT/insert_demo.py $WT $OUT/m$K.demo.rs
cargo test --offline -p layout21tetris c09_m${K}_ > /tmp/wt/$P.m$K.with.log 2>&1; with_rc=$?
git checkout -q -- .
python3 $OUT/insert_demo.py $WT $OUT/m$K.demo.rs
cargo test --offline -p layout21tetris c09_m${K}_ > /tmp/wt/$P.m$K.without.log 2>&1; without_rc=$?
git checkout -q -- . ; git clean -fdq -e target
mkdir -p $DST; cp $OUT/m$K.patch.diff $DST/patch.diff; cp $OUT/m$K.demo.rs $DST/demo.rs; cp $OUT/insert_demo.py $DST/
python3 - "$OUT/m$K.meta.json" "$DST/meta.json" "$suite" "$with_rc" "$without_rc" "$K" "$CAUGHT" <<'PY'
import json,sys
src,dst,suite,w,wo,k,caught=sys.argv[1:]
m=json.load(open(src))
m["confirmed_by_me"]={"suite_failures_with_patch":suite,"expected_suite_failures":"test tests::it_has_gds_properties ... FAILED (also fails on the unchanged tree)",
  "demo_cmd":f"python3 insert_demo.py <worktree> demo.rs && CARGO_NET_OFFLINE=true cargo test --offline -p layout21tetris c09_m{k}_",
  "demo_exit_with_patch":int(w),"demo_exit_without_patch":int(wo)}
m["caught_by_checks"]=caught
json.dump(m,open(dst,"w"),indent=1)
print(dst,"with:",w,"without:",wo)
PY
