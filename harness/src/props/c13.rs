//! C13: point-in-shape. Op:
//!   geom.contains (rect x0 y0 x1 y1) ((x y) ...)   -> ok (#t #f ...)
//!   geom.contains (poly (x y) ...)   ((x y) ...)
//!   geom.contains (path w (x y) ...) ((x y) ...)   -> ok (..) | panic
use crate::rng::Rng;
use crate::sexp::*;
use layout21raw::{Path, Point, Polygon, Rect, Shape, ShapeTrait};

type P2 = (i64, i64);

pub fn parse_pts(xs: &[Sexp]) -> Option<Vec<P2>> {
    xs.iter()
        .map(|p| {
            let l = p.list()?;
            Some((l.get(0)?.int()?, l.get(1)?.int()?))
        })
        .collect()
}
pub enum Shp {
    Rect(P2, P2),
    Poly(Vec<P2>),
    Path(i64, Vec<P2>),
}
pub fn parse_shape(s: &Sexp) -> Option<Shp> {
    let l = s.list()?;
    match l.get(0)?.atom()? {
        "rect" => Some(Shp::Rect((l[1].int()?, l[2].int()?), (l[3].int()?, l[4].int()?))),
        "poly" => Some(Shp::Poly(parse_pts(&l[1..])?)),
        "path" => Some(Shp::Path(l[1].int()?, parse_pts(&l[2..])?)),
        _ => None,
    }
}
fn pt(p: P2) -> Point {
    Point::new(p.0 as isize, p.1 as isize)
}
pub fn to_shape(s: &Shp) -> Shape {
    match s {
        Shp::Rect(a, b) => Shape::Rect(Rect { p0: pt(*a), p1: pt(*b) }),
        Shp::Poly(v) => Shape::Polygon(Polygon { points: v.iter().map(|p| pt(*p)).collect() }),
        Shp::Path(w, v) => Shape::Path(Path { width: *w as usize, points: v.iter().map(|p| pt(*p)).collect() }),
    }
}
pub fn op_contains(args: &[Sexp]) -> String {
    let shp = match args.get(0).and_then(parse_shape) {
        Some(s) => s,
        None => return "bad-op".into(),
    };
    let qs = match args.get(1).and_then(|q| q.list()).and_then(parse_pts) {
        Some(q) => q,
        None => return "bad-op".into(),
    };
    let shape = to_shape(&shp);
    let res: Vec<Sexp> = qs.iter().map(|q| of_bool(shape.contains(&pt(*q)))).collect();
    format!("ok {}", l(res))
}

// ------------------------------------------------------------ exact reference geometry (oracle)

fn cross(a: P2, b: P2, p: P2) -> i128 {
    (b.0 - a.0) as i128 * (p.1 - a.1) as i128 - (b.1 - a.1) as i128 * (p.0 - a.0) as i128
}
fn on_seg(a: P2, b: P2, p: P2) -> bool {
    cross(a, b, p) == 0 && a.0.min(b.0) <= p.0 && p.0 <= a.0.max(b.0) && a.1.min(b.1) <= p.1 && p.1 <= a.1.max(b.1)
}
/// closed region of a simple polygon: boundary, or odd number of crossings of the rightward ray
/// (even-odd rule; independent of the winding-number formulation used by the code and the model)
pub fn ref_poly(v: &[P2], p: P2) -> bool {
    let n = v.len();
    if n == 0 {
        return false;
    }
    let mut odd = false;
    for i in 0..n {
        let (a, b) = (v[i], v[(i + 1) % n]);
        if on_seg(a, b, p) {
            return true;
        }
        // edge straddles the horizontal line through p (half-open), crossing strictly right of p
        if (a.1 <= p.1) != (b.1 <= p.1) {
            // x-coordinate of the crossing vs p.x, exactly: (p.y - a.y)*(b.x-a.x) / (b.y-a.y) + a.x > p.x
            let num = (p.1 - a.1) as i128 * (b.0 - a.0) as i128; // crossing.x - a.x = num/den
            let den = (b.1 - a.1) as i128;
            let lhs = num; // compare num/den > p.x - a.x
            let rhs = (p.0 - a.0) as i128 * den;
            let right = if den > 0 { lhs > rhs } else { lhs < rhs };
            if right {
                odd = !odd;
            }
        }
    }
    odd
}
fn segs_intersect(a: P2, b: P2, c: P2, d: P2) -> bool {
    let sgn = |x: i128| x.signum();
    let (d1, d2, d3, d4) = (sgn(cross(c, d, a)), sgn(cross(c, d, b)), sgn(cross(a, b, c)), sgn(cross(a, b, d)));
    if d1 * d2 < 0 && d3 * d4 < 0 {
        return true;
    }
    on_seg(c, d, a) || on_seg(c, d, b) || on_seg(a, b, c) || on_seg(a, b, d)
}
/// the vertex list without consecutive repetitions (cyclically: a closing point equal to the first is one too)
pub fn dedup_cyclic(v: &[P2]) -> Vec<P2> {
    let mut o: Vec<P2> = vec![];
    for p in v { if o.last() != Some(p) { o.push(*p); } }
    while o.len() > 1 && o.first() == o.last() { o.pop(); }
    o
}
pub fn is_simple(v: &[P2]) -> bool {
    let n = v.len();
    if n < 3 {
        return false;
    }
    let mut area2: i128 = 0;
    for i in 0..n {
        let (a, b) = (v[i], v[(i + 1) % n]);
        if a == b {
            return false;
        }
        area2 += a.0 as i128 * b.1 as i128 - b.0 as i128 * a.1 as i128;
    }
    if area2 == 0 {
        return false;
    }
    for i in 0..n {
        let (a, b, c) = (v[i], v[(i + 1) % n], v[(i + 2) % n]);
        // adjacent edges must not fold back onto each other
        if cross(a, b, c) == 0 {
            let dot = (a.0 - b.0) as i128 * (c.0 - b.0) as i128 + (a.1 - b.1) as i128 * (c.1 - b.1) as i128;
            if dot > 0 {
                return false;
            }
        }
        for j in (i + 2)..n {
            if i == 0 && j == n - 1 {
                continue;
            }
            let (c, d) = (v[j], v[(j + 1) % n]);
            if segs_intersect(a, b, c, d) {
                return false;
            }
        }
    }
    true
}
/// path: Some(true) = required inside, Some(false) = required outside, None = unspecified (caps/corners)
pub fn ref_path(w: i64, v: &[P2], p: P2) -> Option<bool> {
    let mut all_far = true;
    for k in 0..v.len().saturating_sub(1) {
        let (a, b) = (v[k], v[k + 1]);
        let (lo_x, hi_x, lo_y, hi_y) = (a.0.min(b.0), a.0.max(b.0), a.1.min(b.1), a.1.max(b.1));
        // a.x == b.x (vertical) or a.y == b.y (horizontal)
        let (lateral, along_in) = if a.0 == b.0 { ((p.0 - a.0).abs(), lo_y <= p.1 && p.1 <= hi_y) } else { ((p.1 - a.1).abs(), lo_x <= p.0 && p.0 <= hi_x) };
        if along_in && 2 * lateral <= w {
            return Some(true);
        }
        // squared distance to the segment
        let dx = if p.0 < lo_x { lo_x - p.0 } else if p.0 > hi_x { p.0 - hi_x } else { 0 };
        let dy = if p.1 < lo_y { lo_y - p.1 } else if p.1 > hi_y { p.1 - hi_y } else { 0 };
        let d2 = (dx as i128) * (dx as i128) + (dy as i128) * (dy as i128);
        if 4 * d2 <= (w as i128) * (w as i128) {
            all_far = false;
        }
    }
    if all_far {
        Some(false)
    } else {
        None
    }
}
pub fn manhattan(v: &[P2]) -> bool {
    v.windows(2).all(|w| w[0].0 == w[1].0 || w[0].1 == w[1].1)
}

pub fn oracle(line: &str) -> String {
    let p = match Sexp::parse_all(line) {
        Some(p) if p.len() == 3 => p,
        _ => return "na".into(),
    };
    if p[0].atom() != Some("geom.contains") {
        return "na".into();
    }
    let shp = match parse_shape(&p[1]) {
        Some(s) => s,
        None => return "na".into(),
    };
    let qs = match p[2].list().and_then(parse_pts) {
        Some(q) => q,
        None => return "na".into(),
    };
    // domain: simple polygons, possibly listed with repeated vertices (consecutive duplicates, closing point = first point)
    match &shp {
        Shp::Poly(v) if !is_simple(&dedup_cyclic(v)) => return "na".into(),
        Shp::Path(_, v) if !manhattan(v) => return "na".into(),
        _ => {}
    }
    let shape = to_shape(&shp);
    for q in qs {
        let got = match std::panic::catch_unwind(std::panic::AssertUnwindSafe(|| shape.contains(&pt(q)))) {
            Ok(b) => b,
            Err(_) => return format!("fail panic at query ({} {})", q.0, q.1),
        };
        let want = match &shp {
            Shp::Rect(a, b) => Some(a.0.min(b.0) <= q.0 && q.0 <= a.0.max(b.0) && a.1.min(b.1) <= q.1 && q.1 <= a.1.max(b.1)),
            Shp::Poly(v) => Some(ref_poly(v, q)),
            Shp::Path(w, v) => ref_path(*w, v, q),
        };
        if let Some(w) = want {
            if w != got {
                return format!("fail query ({} {}) answered {} but exact geometry says {}", q.0, q.1, got, w);
            }
        }
    }
    "pass".into()
}

pub fn tag(line: &str) -> String {
    let p = match Sexp::parse_all(line) {
        Some(p) if p.len() == 3 => p,
        _ => return "-".into(),
    };
    match parse_shape(&p[1]) {
        Some(Shp::Rect(..)) => "rect".into(),
        Some(Shp::Poly(v)) => {
            let simple = is_simple(&v);
            let rectil = v.iter().zip(v.iter().cycle().skip(1)).all(|(a, b)| a.0 == b.0 || a.1 == b.1);
            format!("poly:{}:{}:n{}", if simple { "simple" } else { "nonsimple" }, if rectil { "rectilinear" } else { "general" }, v.len().min(9))
        }
        Some(Shp::Path(_, v)) => format!("path:{}", if v.is_empty() { "empty" } else if manhattan(&v) { "manhattan" } else { "diagonal" }),
        None => "-".into(),
    }
}

// ------------------------------------------------------------ generation

fn fmt_pts(v: &[P2]) -> String {
    v.iter().map(|p| format!("({} {})", p.0, p.1)).collect::<Vec<_>>().join(" ")
}
fn poly_case(v: &[P2], qs: &[P2]) -> String {
    format!("geom.contains (poly {}) ({})", fmt_pts(v), fmt_pts(qs))
}
fn queries_around(v: &[P2], rng: &mut Rng, extra: usize) -> Vec<P2> {
    let mut qs = vec![];
    let n = v.len();
    let (minx, maxx) = (v.iter().map(|p| p.0).min().unwrap(), v.iter().map(|p| p.0).max().unwrap());
    let (miny, maxy) = (v.iter().map(|p| p.1).min().unwrap(), v.iter().map(|p| p.1).max().unwrap());
    for i in 0..n {
        let (a, b) = (v[i], v[(i + 1) % n]);
        qs.push(a);
        for (dx, dy) in [(1, 0), (-1, 0), (0, 1), (0, -1)] {
            qs.push((a.0 + dx, a.1 + dy));
        }
        // along the vertex's height, left and right of everything and in between
        qs.push((minx - 1, a.1));
        qs.push((maxx + 1, a.1));
        qs.push(((minx + maxx) / 2, a.1));
        // edge midpoint (rounded) and its neighbours
        let m = ((a.0 + b.0) / 2, (a.1 + b.1) / 2);
        qs.push(m);
        qs.push((m.0 + 1, m.1));
        qs.push((m.0 - 1, m.1));
        qs.push((m.0, m.1 + 1));
        qs.push((m.0, m.1 - 1));
    }
    for _ in 0..extra {
        qs.push((rng.range(minx - 2, maxx + 2), rng.range(miny - 2, maxy + 2)));
    }
    qs.push((minx - 1000, miny - 1000));
    qs.push(((minx + maxx) / 2, (miny + maxy) / 2));
    qs
}
fn star_polygon(rng: &mut Rng, n: usize, r: i64) -> Vec<P2> {
    // random points sorted by angle around the origin: a simple (star-shaped) polygon
    let mut pts: Vec<P2> = vec![];
    while pts.len() < n {
        let p = (rng.range(-r, r), rng.range(-r, r));
        if p != (0, 0) && !pts.iter().any(|q| cross((0, 0), *q, p) == 0 && (q.0 * p.0 + q.1 * p.1) > 0) {
            pts.push(p);
        }
    }
    pts.sort_by(|a, b| {
        let ha = if a.1 > 0 || (a.1 == 0 && a.0 > 0) { 0 } else { 1 };
        let hb = if b.1 > 0 || (b.1 == 0 && b.0 > 0) { 0 } else { 1 };
        ha.cmp(&hb).then_with(|| cross((0, 0), *b, *a).cmp(&0))
    });
    pts
}
fn polyomino_outline(rng: &mut Rng, cells: usize, scale: i64) -> Vec<P2> {
    // grow a column-convex polyomino as a stack of rows [lo,hi) that overlap, then trace the outline
    let rows = 1 + rng.below(cells as u64) as usize;
    let mut spans: Vec<(i64, i64)> = vec![];
    let mut lo = rng.range(-3, 3);
    let mut hi = lo + 1 + rng.range(0, 4);
    for _ in 0..rows {
        spans.push((lo, hi));
        // next row overlaps the current one
        let nlo = rng.range(lo - 2, hi - 1);
        let nhi = rng.range(nlo.max(lo) + 1, hi + 2).max(nlo + 1);
        lo = nlo;
        hi = nhi;
    }
    // outline: up the right side, down the left side
    let mut right: Vec<P2> = vec![];
    let mut left: Vec<P2> = vec![];
    for (r, (lo, hi)) in spans.iter().enumerate() {
        let y0 = r as i64;
        right.push((*hi, y0));
        right.push((*hi, y0 + 1));
        left.push((*lo, y0));
        left.push((*lo, y0 + 1));
    }
    left.reverse();
    let mut v: Vec<P2> = right;
    v.extend(left);
    // drop consecutive duplicates
    let mut out: Vec<P2> = vec![];
    for p in v {
        if out.last() != Some(&p) {
            out.push(p);
        }
    }
    if out.first() == out.last() && out.len() > 1 {
        out.pop();
    }
    out.iter().map(|p| (p.0 * scale, p.1 * scale)).collect()
}
fn variants(v: &[P2], rng: &mut Rng) -> Vec<Vec<P2>> {
    // same region: rotated start, reversed orientation, duplicated vertex, collinear vertex inserted
    let n = v.len();
    let mut out = vec![];
    let k = rng.below(n as u64) as usize;
    let mut rot = v[k..].to_vec();
    rot.extend_from_slice(&v[..k]);
    out.push(rot);
    let mut rev = v.to_vec();
    rev.reverse();
    out.push(rev);
    let i = rng.below(n as u64) as usize;
    let (a, b) = (v[i], v[(i + 1) % n]);
    if (a.0 + b.0) % 2 == 0 && (a.1 + b.1) % 2 == 0 {
        let mut col = v.to_vec();
        col.insert(i + 1, ((a.0 + b.0) / 2, (a.1 + b.1) / 2));
        out.push(col);
    }
    // a vertex listed twice (or three times), and the first point repeated at the end
    let j = rng.below(n as u64) as usize;
    let mut dup = v.to_vec();
    dup.insert(j, v[j]);
    if rng.chance(1, 4) { dup.insert(j, v[j]); }
    out.push(dup);
    if rng.coin() { let mut cl = v.to_vec(); cl.push(v[0]); out.push(cl); }
    out
}

pub fn gen(thorough: bool, rng: &mut Rng, out: &mut Vec<String>) {
    // (1) exhaustive small family: vertex sequences of length 3..5 on the 4x4 grid {0,2,4,6}^2 that form
    //     simple polygons (every start vertex and both orientations occur as separate sequences),
    //     queried at every point of the 9x9 grid -1..7 (grid points, half-offset points, outside ring)
    let grid: Vec<P2> = (0..4).flat_map(|x| (0..4).map(move |y| (2 * x, 2 * y))).collect();
    let qgrid: Vec<P2> = (-1..=7).flat_map(|x| (-1..=7).map(move |y| (x, y))).collect();
    let mut idx = vec![0usize; 5];
    for len in 3..=5usize {
        let total = 16u64.pow(len as u32);
        for code in 0..total {
            let mut c = code;
            for k in 0..len {
                idx[k] = (c % 16) as usize;
                c /= 16;
            }
            // canonical sampling for the bigger sizes in the quick tier
            if len == 5 && !thorough && rng.below(24) != 0 {
                continue;
            }
            if len == 4 && !thorough && rng.below(2) != 0 {
                continue;
            }
            let v: Vec<P2> = idx[..len].iter().map(|i| grid[*i]).collect();
            if !is_simple(&v) {
                continue;
            }
            out.push(poly_case(&v, &qgrid));
            // every triangle also as each of its four-point listings with one vertex repeated / closed
            if len == 3 {
                for k in 0..3 { let mut w = v.clone(); w.insert(k, v[k]); out.push(poly_case(&w, &qgrid)); }
                let mut w = v.clone(); w.push(v[0]); out.push(poly_case(&w, &qgrid));
            }
            if len == 4 && rng.below(8) == 0 { let k = rng.below(4) as usize; let mut w = v.clone(); w.insert(k, v[k]); out.push(poly_case(&w, &qgrid)); }
        }
    }
    // (2) the two historical failures and their neighbourhood
    out.push(poly_case(&[(2, 0), (4, 0), (4, 4), (0, 4), (1, 2)], &qgrid));
    out.push(poly_case(&[(0, 0), (10, 3), (0, 6)], &(-1..=11).flat_map(|x| (-1..=7).map(move |y| (x, y))).collect::<Vec<_>>()));
    // (3) random families
    let reps = if thorough { 40000 } else { 4000 };
    for i in 0..reps {
        let v = match i % 4 {
            0 => { let sc = [1, 2, 10, 1 << 20][rng.below(4) as usize]; polyomino_outline(rng, 6, sc) }
            1 => { let k = 3 + rng.below(9) as usize; let r = [4, 10, 1000, (1 << 30) - 1][rng.below(4) as usize]; star_polygon(rng, k, r) }
            2 => {
                // 45-degree: octagon-like with random radii
                let r = 2 + rng.range(0, 50);
                let c = rng.range(1, r);
                let s = [1, 1 << 10, 1 << 24][rng.below(3) as usize];
                vec![(c, 0), (r, 0), (r + c, c), (r + c, r), (r, r + c), (c, r + c), (0, r), (0, c)].iter().map(|p| (p.0 * s, p.1 * s)).collect()
            }
            _ => {
                // U / L shapes whose bbox centre is outside
                let a = rng.range(3, 40);
                let t = rng.range(1, a / 2 - 0).max(1);
                let s = [1, 2, 1 << 16][rng.below(3) as usize];
                vec![(0, 0), (0, a), (t, a), (t, t), (a - t, t), (a - t, a), (a, a), (a, 0)].iter().map(|p| (p.0 * s, p.1 * s)).collect()
            }
        };
        if !is_simple(&v) {
            continue;
        }
        let qs = queries_around(&v, rng, 6);
        out.push(poly_case(&v, &qs));
        for w in variants(&v, rng) {
            out.push(poly_case(&w, &qs));
        }
    }
    // (4) rectangles in all four corner orders
    for _ in 0..(if thorough { 20000 } else { 2000 }) {
        let s = [5i64, 100, (1 << 31) - 1][rng.below(3) as usize];
        let (a, b) = ((rng.range(-s, s), rng.range(-s, s)), (rng.range(-s, s), rng.range(-s, s)));
        let qs = queries_around(&[a, (b.0, a.1), b, (a.0, b.1)], rng, 4);
        out.push(format!("geom.contains (rect {} {} {} {}) ({})", a.0, a.1, b.0, b.1, fmt_pts(&qs)));
        // the same region as a polygon (ground truth for the polygon code), when non-degenerate
        let v = vec![a, (b.0, a.1), b, (a.0, b.1)];
        if is_simple(&v) {
            out.push(poly_case(&v, &qs));
        }
    }
    // (5) Manhattan paths
    for _ in 0..(if thorough { 20000 } else { 2000 }) {
        let n = 1 + rng.below(6) as usize;
        let s = [3i64, 20, 1 << 20][rng.below(3) as usize];
        let mut v = vec![(rng.range(-s, s), rng.range(-s, s))];
        let mut horiz = rng.coin();
        for _ in 0..n {
            let last = *v.last().unwrap();
            let d = rng.range(-s, s);
            v.push(if horiz { (last.0 + d, last.1) } else { (last.0, last.1 + d) });
            horiz = !horiz;
        }
        let w = [0, 1, 2, 3, 4, 7, 10][rng.below(7) as usize];
        let mut qs = queries_around(&v, rng, 6);
        for p in v.clone() {
            for d in [w / 2, w / 2 + 1, (w + 1) / 2] {
                qs.push((p.0 + d, p.1));
                qs.push((p.0 - d, p.1));
                qs.push((p.0, p.1 + d));
                qs.push((p.0, p.1 - d));
                qs.push((p.0 + d, p.1 + d));
            }
        }
        out.push(format!("geom.contains (path {} {}) ({})", w, fmt_pts(&v), fmt_pts(&qs)));
    }
    // (6) outside the property's domain, for the model/code tie only: diagonal and empty paths, non-simple polygons
    out.push("geom.contains (path 2) ((0 0))".into());
    out.push("geom.contains (path 2 (0 0)) ((0 0))".into());
    out.push("geom.contains (path 2 (0 0) (3 3)) ((0 0) (5 5))".into());
    out.push("geom.contains (path 2 (0 0) (4 0) (6 3)) ((1 0) (5 1))".into());
    out.push("geom.contains (poly) ((0 0))".into());
    out.push("geom.contains (poly (1 1)) ((1 1) (0 0))".into());
    out.push("geom.contains (poly (0 0) (4 4)) ((2 2) (1 2))".into());
    for _ in 0..(if thorough { 5000 } else { 500 }) {
        let n = 3 + rng.below(5) as usize;
        let v: Vec<P2> = (0..n).map(|_| (rng.range(0, 6), rng.range(0, 6))).collect();
        out.push(poly_case(&v, &qgrid));
    }
}
