//! C06 (GDS -> raw import) and C07 (raw -> GDS export and back).
//! Ops: `rawgds.export <glib>` -> ok <gds lib> ; `gdsraw.import <gds lib>` -> ok <glib>
//! glib := (glib name units (layers (ln labelpurpose|#f)...) (cell name (insts (i name cell x y refl angle|#f)...) (elems (e net|#f ln pn shape)...) (annots (a str x y)...))...)
use crate::gdsio::{lib_s, p_lib};
use crate::rng::Rng;
use crate::sexp::*;
use gds21::*;
use layout21raw as raw;
use layout21raw::utils::Ptr;
use layout21raw::ShapeTrait;
use std::collections::HashMap;

fn bytes_s(s: &str) -> Sexp {
    of_bytes(s.as_bytes())
}
fn p_str(s: &Sexp) -> Option<String> {
    String::from_utf8(s.bytes()?).ok()
}
fn p_pts(v: &[Sexp]) -> Option<Vec<raw::Point>> {
    v.iter().map(|p| { let q = p.list()?; Some(raw::Point::new(q[0].int()? as isize, q[1].int()? as isize)) }).collect()
}
fn p_shape(s: &Sexp) -> Option<raw::Shape> {
    let v = s.list()?;
    Some(match v[0].atom()? {
        "rect" => raw::Shape::Rect(raw::Rect { p0: raw::Point::new(v[1].int()? as isize, v[2].int()? as isize), p1: raw::Point::new(v[3].int()? as isize, v[4].int()? as isize) }),
        "polygon" => raw::Shape::Polygon(raw::Polygon { points: p_pts(&v[1..])? }),
        "path" => raw::Shape::Path(raw::Path { width: v[1].int()? as usize, points: p_pts(&v[2..])? }),
        _ => return None,
    })
}
fn shape_s(s: &raw::Shape) -> String {
    let pts = |v: &Vec<raw::Point>| v.iter().map(|q| format!("({} {})", q.x, q.y)).collect::<Vec<_>>().join(" ");
    match s {
        raw::Shape::Rect(r) => format!("(rect {} {} {} {})", r.p0.x, r.p0.y, r.p1.x, r.p1.y),
        raw::Shape::Polygon(p) => format!("(polygon {})", pts(&p.points)).replace(" )", ")"),
        raw::Shape::Path(p) => format!("(path {} {})", p.width, pts(&p.points)).replace(" )", ")"),
    }
}
pub fn p_glib(s: &Sexp) -> Option<raw::Library> {
    let v = s.list()?;
    if v[0].atom()? != "glib" {
        return None;
    }
    let units = match v[2].int()? { 0 => raw::Units::Micro, 1 => raw::Units::Nano, 2 => raw::Units::Angstrom, _ => raw::Units::Pico };
    let mut lib = raw::Library::new(p_str(&v[1])?, units);
    let mut keys: HashMap<i64, raw::LayerKey> = HashMap::new();
    // `(ln lp split)`: a SECOND layer object with the same number (as met1 / via share 68 in the crate's sample
    // technology) holds the purposes >= split; both objects carry the same label purpose
    let mut keys2: HashMap<i64, (i64, raw::LayerKey)> = HashMap::new();
    {
        let mut layers = lib.layers.write().unwrap();
        for row in &v[3].list()?[1..] {
            let r = row.list()?;
            let mk = || -> Option<raw::Layer> {
                let mut layer = raw::Layer::from_num(r[0].int()? as i16);
                if let Some(lp) = r[1].int() { layer.add_purpose(lp as i16, raw::LayerPurpose::Label).ok()?; }
                Some(layer)
            };
            keys.insert(r[0].int()?, layers.add(mk()?));
            if let Some(split) = r.get(2).and_then(|x| x.int()) { keys2.insert(r[0].int()?, (split, layers.add(mk()?))); }
        }
    }
    let cells = &v[4..];
    let mut ptrs: Vec<Ptr<raw::Cell>> = vec![];
    let mut names: HashMap<String, usize> = HashMap::new();
    for (i, c) in cells.iter().enumerate() {
        let cv = c.list()?;
        let name = p_str(&cv[1])?;
        let mut lay = raw::Layout::default();
        lay.name = name.clone();
        for e in &cv[3].list()?[1..] {
            let ev = e.list()?;
            let net = if ev[1].atom() == Some("#f") { None } else { Some(p_str(&ev[1])?) };
            let (ln, pn) = (ev[2].int()?, ev[3].int()?);
            let key = match keys2.get(&ln) { Some((split, k2)) if pn >= *split => *k2, _ => *keys.get(&ln)? };
            let purpose = {
                let mut layers = lib.layers.write().unwrap();
                let layer = layers.slots.get_mut(key)?;
                match layer.purpose(pn as i16) {
                    Some(p) => p.clone(),
                    None => { let p = raw::LayerPurpose::Other(pn as i16); layer.add_purpose(pn as i16, p.clone()).ok()?; p }
                }
            };
            lay.elems.push(raw::Element { net, layer: key, purpose, inner: p_shape(&ev[4])? });
        }
        for an in &cv[4].list()?[1..] {
            let av = an.list()?;
            lay.annotations.push(raw::TextElement { string: p_str(&av[1])?, loc: raw::Point::new(av[2].int()? as isize, av[3].int()? as isize) });
        }
        names.insert(name, i);
        ptrs.push(Ptr::new(raw::Cell::from(lay)));
    }
    for (i, c) in cells.iter().enumerate() {
        let cv = c.list()?;
        let mut insts = vec![];
        for ins in &cv[2].list()?[1..] {
            let iv = ins.list()?;
            let target = *names.get(&p_str(&iv[2])?)?;
            insts.push(raw::Instance {
                inst_name: p_str(&iv[1])?,
                cell: ptrs[target].clone(),
                loc: raw::Point::new(iv[3].int()? as isize, iv[4].int()? as isize),
                reflect_vert: iv[5].boolean()?,
                angle: if iv[6].atom() == Some("#f") { None } else { Some(f64::from_bits(iv[6].f64bits()?)) },
            });
        }
        ptrs[i].write().unwrap().layout.as_mut()?.insts = insts;
    }
    for p in ptrs {
        lib.cells.push(p);
    }
    Some(lib)
}
pub fn glib_s(lib: &raw::Library) -> String {
    let layers = lib.layers.read().unwrap();
    let mut cells = vec![];
    for c in lib.cells.iter() {
        let c = c.read().unwrap();
        let ly = match &c.layout { Some(l) => l, None => continue };
        let insts: Vec<String> = ly.insts.iter().map(|i| {
            let target = i.cell.read().unwrap().name.clone();
            format!("(i {} {} {} {} {} {})", bytes_s(&i.inst_name), bytes_s(&target), i.loc.x, i.loc.y, of_bool(i.reflect_vert), match i.angle { None => "#f".to_string(), Some(a) => of_f64(a.to_bits()).to_string() })
        }).collect();
        let elems: Vec<String> = ly.elems.iter().map(|e| {
            let layer = layers.get(e.layer);
            let ln = layer.map(|x| x.layernum as i64).unwrap_or(-99999);
            let pn = layer.and_then(|x| x.num(&e.purpose)).map(|x| x as i64).unwrap_or(-99999);
            format!("(e {} {} {} {})", e.net.as_ref().map(|n| bytes_s(n).to_string()).unwrap_or("#f".into()), ln, pn, shape_s(&e.inner))
        }).collect();
        let ann: Vec<String> = ly.annotations.iter().map(|t| format!("(a {} {} {})", bytes_s(&t.string), t.loc.x, t.loc.y)).collect();
        cells.push(format!("(cell {} (insts {}) (elems {}) (annots {}))", bytes_s(&c.name), insts.join(" "), elems.join(" "), ann.join(" ")).replace(" )", ")"));
    }
    format!("(glib {} {} {})", bytes_s(&lib.name), match lib.units { raw::Units::Micro => 0, raw::Units::Nano => 1, raw::Units::Angstrom => 2, raw::Units::Pico => 3 }, cells.join(" ")).replace(" )", ")")
}
fn break_cycles(lib: &raw::Library) {
    for c in lib.cells.iter() {
        if let Ok(mut c) = c.write() {
            if let Some(l) = c.layout.as_mut() {
                l.insts.clear();
            }
        }
    }
}
fn zero_dates(g: &mut GdsLibrary) {
    let z = GdsDateTime { year: 0, month: 0, day: 0, hour: 0, minute: 0, second: 0 };
    g.set_all_dates(z);
}
pub fn op_export(args: &[Sexp]) -> String {
    let lib = match args.get(0).and_then(p_glib) { Some(x) => x, None => return "bad-op".into() };
    let r = lib.to_gds();
    break_cycles(&lib);
    match r {
        Ok(mut g) => { zero_dates(&mut g); format!("ok {}", lib_s(&g)) }
        Err(_) => "err".into(),
    }
}
pub fn op_import(args: &[Sexp]) -> String {
    let g = match args.get(0).and_then(p_lib) { Some(x) => x, None => return "bad-op".into() };
    match raw::Library::from_gds(&g, None) {
        Ok(lib) => { let s = format!("ok {}", glib_s(&lib)); break_cycles(&lib); s }
        Err(_) => "err".into(),
    }
}

/// `gdsraw.flat`: import, then `Layout::flatten` of the cell of every structure, in structure order
pub fn op_flat(args: &[Sexp]) -> String {
    let g = match args.get(0).and_then(p_lib) { Some(x) => x, None => return "bad-op".into() };
    let lib = match raw::Library::from_gds(&g, None) { Ok(l) => l, Err(_) => return "err".into() };
    let mut rows = vec![];
    let mut unsupported = false;
    {
        let layers = lib.layers.read().unwrap();
        for st in &g.structs {
            let cell = match lib.cells.iter().find(|c| c.read().unwrap().name == st.name) { Some(c) => c.clone(), None => { unsupported = true; break; } };
            let c = cell.read().unwrap();
            // general angles are outside the exact model
            let right = |l: &raw::Layout| l.insts.iter().all(|i| i.angle.map(|a| a == 0.0 || a == 90.0 || a == 180.0 || a == 270.0).unwrap_or(true));
            if !lib.cells.iter().all(|c| c.read().unwrap().layout.as_ref().map(|l| right(l)).unwrap_or(true)) { unsupported = true; break; }
            let elems = match c.layout.as_ref().map(|l| l.flatten()) { Some(Ok(e)) => e, _ => { unsupported = true; break; } };
            let items: Vec<String> = elems.iter().map(|e| {
                let layer = layers.get(e.layer).unwrap();
                format!("({} {} {})", layer.layernum, layer.num(&e.purpose).unwrap_or(-1), shape_s(&e.inner))
            }).collect();
            rows.push(format!("(flat {} {})", of_bytes(st.name.as_bytes()), items.join(" ")).replace(" )", ")"));
        }
    }
    break_cycles(&lib);
    if unsupported { "unsupported".into() } else { format!("ok ({})", rows.join(" ")) }
}

/// every instance of an imported library refers to one of the library's OWN cells (the same shared object, not an
/// equal-looking copy): editing a cell through `Library::cells` must be seen by its instances
fn instances_point_into_library(lib: &raw::Library) -> bool {
    for c in lib.cells.iter() {
        let c = c.read().unwrap();
        if let Some(ly) = &c.layout {
            for i in &ly.insts {
                if !lib.cells.iter().any(|k| *k == i.cell) { return false; }
            }
        }
    }
    true
}

// ------------------------------------------------------------------ oracles
type P2 = (i64, i64);
/// canonical polygon form of a shape region: rect -> its 4 corners; rotated to start at the smallest vertex, orientation kept
fn canon_points(mut v: Vec<P2>) -> Vec<P2> {
    if v.is_empty() { return v; }
    let k = (0..v.len()).min_by_key(|i| v[*i]).unwrap();
    v.rotate_left(k);
    v
}
fn shape_key(s: &raw::Shape) -> String {
    match s {
        raw::Shape::Rect(r) => {
            let (x0, y0, x1, y1) = (r.p0.x as i64, r.p0.y as i64, r.p1.x as i64, r.p1.y as i64);
            // as the 4-gon the exporter writes
            format!("poly {:?}", canon_points(vec![(x0, y0), (x1, y0), (x1, y1), (x0, y1)]))
        }
        raw::Shape::Polygon(p) => {
            let pts: Vec<P2> = p.points.iter().map(|q| (q.x as i64, q.y as i64)).collect();
            format!("poly {:?}", canon_points(pts))
        }
        raw::Shape::Path(p) => format!("path {} {:?}", p.width, p.points.iter().map(|q| (q.x as i64, q.y as i64)).collect::<Vec<_>>()),
    }
}
fn norm_raw(lib: &raw::Library) -> Vec<String> {
    let layers = lib.layers.read().unwrap();
    let mut cells = vec![];
    for c in lib.cells.iter() {
        let c = c.read().unwrap();
        let ly = match &c.layout { Some(l) => l, None => continue };
        let mut insts: Vec<String> = ly.insts.iter().map(|i| format!("{} {} {} {} {:?}", i.cell.read().unwrap().name, i.loc.x, i.loc.y, i.reflect_vert, i.angle.map(|a| a.to_bits()))).collect();
        insts.sort();
        let mut elems: Vec<String> = ly.elems.iter().map(|e| {
            let layer = layers.get(e.layer);
            let ln = layer.map(|x| x.layernum as i64).unwrap_or(-99999);
            let pn = layer.and_then(|x| x.num(&e.purpose)).map(|x| x as i64).unwrap_or(-99999);
            format!("{:?} {} {} {}", e.net.as_ref().map(|n| n.to_lowercase()), ln, pn, shape_key(&e.inner))
        }).collect();
        elems.sort();
        cells.push(format!("cell {} | {} | {}", c.name, insts.join(";"), elems.join(";")));
    }
    cells.sort();
    let mut out = vec![format!("{:?}", lib.units)];
    out.extend(cells);
    out
}
/// no OTHER shape on the same layer contains a named shape's label point unless it carries the same net,
/// and no unnamed shape's … (the price of GDSII's free-floating labels)
fn label_separated(lib: &raw::Library) -> bool {
    // GDSII knows layer NUMBERS: two layer objects that share a number are one layer there
    let layers = lib.layers.read().unwrap();
    let same_number = |a: raw::LayerKey, b: raw::LayerKey| a == b || (layers.get(a).map(|l| l.layernum) == layers.get(b).map(|l| l.layernum));
    for c in lib.cells.iter() {
        let c = c.read().unwrap();
        let ly = match &c.layout { Some(l) => l, None => continue };
        for (i, e) in ly.elems.iter().enumerate() {
            if let Some(net) = &e.net {
                let loc = match label_loc(&e.inner) { Some(l) => l, None => return false };
                for (j, f) in ly.elems.iter().enumerate() {
                    if i != j && same_number(f.layer, e.layer) && f.inner.contains(&loc) && f.net.as_ref().map(|n| n.to_lowercase()) != Some(net.to_lowercase()) {
                        return false;
                    }
                }
            }
        }
    }
    true
}
/// the point the exporter labels (re-derived through the public API: export a one-element library)
fn label_loc(s: &raw::Shape) -> Option<raw::Point> {
    let mut lib = raw::Library::new("t", raw::Units::Nano);
    let key = lib.layers.write().unwrap().add(raw::Layer::from_pairs(1, &[(0, raw::LayerPurpose::Drawing), (9, raw::LayerPurpose::Label)]).ok()?);
    let mut lay = raw::Layout::default();
    lay.name = "c".into();
    lay.elems.push(raw::Element { net: Some("n".into()), layer: key, purpose: raw::LayerPurpose::Drawing, inner: s.clone() });
    lib.cells.push(Ptr::new(raw::Cell::from(lay)));
    let g = lib.to_gds().ok()?;
    for e in &g.structs[0].elems {
        if let GdsElement::GdsTextElem(t) = e {
            return Some(raw::Point::new(t.xy.x as isize, t.xy.y as isize));
        }
    }
    None
}
pub fn oracle_c07(line: &str) -> String {
    if line.starts_with("layers.ops ") { return crate::props::layers::oracle(line); }
    let p = match Sexp::parse_all(line) { Some(p) if p.len() == 2 && p[0].atom() == Some("rawgds.export") => p, _ => return "na".into() };
    let lib = match p_glib(&p[1]) { Some(x) => x, None => return "na".into() };
    let out = (|| -> String {
        if !label_separated(&lib) { return "na".into(); }
        let g = match std::panic::catch_unwind(std::panic::AssertUnwindSafe(|| lib.to_gds())) { Err(_) => return "fail export panicked".into(), Ok(Err(_)) => return "pass-err".into(), Ok(Ok(g)) => g };
        // labels lie inside their shapes; open paths stay open
        for c in lib.cells.iter() {
            let c = c.read().unwrap();
            for e in &c.layout.as_ref().unwrap().elems {
                if e.net.is_some() {
                    // containment is judged independently of the code's own `contains` (exact even-odd test)
                    let inside = |l: &raw::Point| -> bool {
                        match &e.inner {
                            raw::Shape::Rect(r) => r.p0.x.min(r.p1.x) <= l.x && l.x <= r.p0.x.max(r.p1.x) && r.p0.y.min(r.p1.y) <= l.y && l.y <= r.p0.y.max(r.p1.y),
                            raw::Shape::Polygon(pg) => crate::props::c13::ref_poly(&pg.points.iter().map(|q| (q.x as i64, q.y as i64)).collect::<Vec<_>>(), (l.x as i64, l.y as i64)),
                            other => other.contains(l),
                        }
                    };
                    match label_loc(&e.inner) { Some(l) if inside(&l) => {}, _ => return format!("fail label of {} not inside its shape", shape_s(&e.inner)) }
                }
            }
        }
        for (s, c) in g.structs.iter().zip(lib.cells.iter()) {
            let c = c.read().unwrap();
            let paths_out: Vec<&GdsPath> = s.elems.iter().filter_map(|e| if let GdsElement::GdsPath(p) = e { Some(p) } else { None }).collect();
            let paths_in: Vec<&raw::Path> = c.layout.as_ref().unwrap().elems.iter().filter_map(|e| if let raw::Shape::Path(p) = &e.inner { Some(p) } else { None }).collect();
            for (o, i) in paths_out.iter().zip(paths_in.iter()) {
                if o.xy.len() != i.points.len() { return "fail exported path has a different number of points (closed?)".into(); }
            }
        }
        let back = match std::panic::catch_unwind(std::panic::AssertUnwindSafe(|| raw::Library::from_gds(&g, Some(lib.layers.clone())))) { Err(_) => return "fail import of exported library panicked".into(), Ok(Err(_)) => return "fail import of exported library failed".into(), Ok(Ok(b)) => b };
        if !instances_point_into_library(&back) { break_cycles(&back); return "fail an instance of the re-imported library refers to a cell that is not in the library (a detached copy)".into(); }
        let (a, b) = (norm_raw(&lib), norm_raw(&back));
        break_cycles(&back);
        if a == b {
            if let Some(m) = c07_history(&p[1], &g, &a) { return m; }
        }
        if a == b { "pass".into() } else {
            let k = a.iter().zip(b.iter()).position(|(x, y)| x != y).unwrap_or(0);
            format!("fail raw→GDS→raw changed the library: {} vs {}", a.get(k).cloned().unwrap_or_default().chars().take(200).collect::<String>(), b.get(k).cloned().unwrap_or_default().chars().take(200).collect::<String>())
        }
    })();
    break_cycles(&lib);
    if out == "pass-err" {
        // errors are acceptable only outside the GDSII-representable subset (missing label purpose, no label point)
        return if exportable(&p[1]) { "fail export of a representable library failed".into() } else { "pass".into() };
    }
    out
}
/// A HISTORY on one layer table: the exported GDSII is imported into a FRESH table (every datatype / text type comes in
/// as an anonymous `Other(n)` purpose), the user then repairs the table the way the export error message asks for —
/// registers the label number as `Label` and one shape number as `Drawing`, re-using numbers the import already took —
/// and exports the imported library again.  That export must succeed and import back to the original library.
fn c07_history(glib: &Sexp, g: &GdsLibrary, want: &Vec<String>) -> Option<String> {
    let v = glib.list()?;
    // (layer number, label purpose number); tables with two objects per number are left to the plain round trip
    let mut rows: Vec<(i16, Option<i16>)> = vec![];
    for r in &v[3].list()?[1..] {
        let r = r.list()?;
        if r.get(2).and_then(|x| x.int()).is_some() { return None; }
        rows.push((r[0].int()? as i16, r[1].int().map(|x| x as i16)));
    }
    if !exportable(glib) { return None; }
    let back2 = match std::panic::catch_unwind(|| raw::Library::from_gds(g, None)) { Ok(Ok(b)) => b, _ => return Some("fail import of the exported library into a fresh layer table failed".into()) };
    let out = (|| -> Option<String> {
        {
            let mut layers = back2.layers.write().unwrap();
            let keys: Vec<raw::LayerKey> = layers.slots.keys().collect();
            for k in keys {
                let layer = layers.slots.get_mut(k)?;
                let ln = layer.layernum;
                if let Some((_, Some(lp))) = rows.iter().find(|r| r.0 == ln) {
                    if layer.add_purpose(*lp, raw::LayerPurpose::Label).is_err() { return Some("fail registering the label purpose on an imported layer failed".into()); }
                }
                // one number the import took as Other(n), now named Drawing (never the label number)
                let lp = rows.iter().find(|r| r.0 == ln).and_then(|r| r.1);
                let taken: Option<i16> = (0..4i16).find(|n| Some(*n) != lp && matches!(layer.purpose(*n), Some(raw::LayerPurpose::Other(_))));
                if let Some(n) = taken {
                    if layer.num(&raw::LayerPurpose::Drawing).is_none() && layer.add_purpose(n, raw::LayerPurpose::Drawing).is_err() { return Some("fail registering a drawing purpose on an imported layer failed".into()); }
                }
            }
        }
        let g2 = match std::panic::catch_unwind(std::panic::AssertUnwindSafe(|| back2.to_gds())) {
            Err(_) => return Some("fail export of an imported library panicked after its layer table was completed".into()),
            Ok(Err(e)) => return Some(format!("fail an imported library cannot be exported again after its layer table was completed: {}", format!("{:?}", e).chars().take(100).collect::<String>())),
            Ok(Ok(g2)) => g2,
        };
        let back3 = match std::panic::catch_unwind(std::panic::AssertUnwindSafe(|| raw::Library::from_gds(&g2, Some(back2.layers.clone())))) { Ok(Ok(b)) => b, _ => return Some("fail second import (after the table repair) failed".into()) };
        let got = norm_raw(&back3);
        break_cycles(&back3);
        if &got != want {
            let k = want.iter().zip(got.iter()).position(|(x, y)| x != y).unwrap_or(0);
            return Some(format!("fail import – repair the layer table – export – import changed the library: {} vs {}", want.get(k).cloned().unwrap_or_default().chars().take(160).collect::<String>(), got.get(k).cloned().unwrap_or_default().chars().take(160).collect::<String>()));
        }
        None
    })();
    break_cycles(&back2);
    out
}
fn exportable(s: &Sexp) -> bool {
    // every named element's layer has a label purpose; polygons are simple enough to have a label point (checked by trying)
    let v = s.list().unwrap();
    let rows: Vec<(i64, bool)> = v[3].list().unwrap()[1..].iter().map(|r| { let r = r.list().unwrap(); (r[0].int().unwrap(), r[1].int().is_some()) }).collect();
    for c in &v[4..] {
        for e in &c.list().unwrap()[3].list().unwrap()[1..] {
            let ev = e.list().unwrap();
            if ev[1].atom() != Some("#f") {
                if !rows.iter().any(|r| r.0 == ev[2].int().unwrap() && r.1) { return false; }
                if let Some(sh) = p_shape(&ev[4]) { if label_loc(&sh).is_none() { return false; } }
            }
        }
    }
    true
}

// ---- C06: flatten the GDS itself under GDSII semantics (right angles, unit magnification) and compare
#[derive(Clone, Copy)]
struct Tf { a: i64, b: i64, c: i64, d: i64, tx: i64, ty: i64 }
impl Tf {
    fn id() -> Tf { Tf { a: 1, b: 0, c: 0, d: 1, tx: 0, ty: 0 } }
    fn apply(&self, p: P2) -> P2 { (self.a * p.0 + self.b * p.1 + self.tx, self.c * p.0 + self.d * p.1 + self.ty) }
    fn then_child(&self, ch: &Tf) -> Tf { // self ∘ ch
        Tf { a: self.a * ch.a + self.b * ch.c, b: self.a * ch.b + self.b * ch.d, c: self.c * ch.a + self.d * ch.c, d: self.c * ch.b + self.d * ch.d, tx: self.a * ch.tx + self.b * ch.ty + self.tx, ty: self.c * ch.tx + self.d * ch.ty + self.ty }
    }
    fn place(loc: P2, refl: bool, quarter: i64) -> Tf {
        let (cs, sn) = match quarter.rem_euclid(4) { 0 => (1, 0), 1 => (0, 1), 2 => (-1, 0), _ => (0, -1) };
        if refl { Tf { a: cs, b: sn, c: sn, d: -cs, tx: loc.0, ty: loc.1 } } else { Tf { a: cs, b: -sn, c: sn, d: cs, tx: loc.0, ty: loc.1 } }
    }
}
fn quarter_of(st: &Option<GdsStrans>) -> Option<(bool, i64)> {
    match st {
        None => Some((false, 0)),
        Some(s) => {
            if s.abs_mag || s.abs_angle { return None; }
            let a = s.angle.unwrap_or(0.0);
            if a.fract() != 0.0 || (a as i64) % 90 != 0 { return None; }
            Some((s.reflected, (a as i64) / 90))
        }
    }
}
/// Ok(multiset of "layer dt kind points") or Err(reason: malformed / unsupported)
fn flatten_gds(g: &GdsLibrary, top: &str, tf: Tf, depth: usize, out: &mut Vec<String>) -> Result<(), String> {
    if depth > 40 { return Err("cyclic".into()); }
    let s = g.structs.iter().rev().find(|s| s.name == top).ok_or("dangling")?;
    for e in &s.elems {
        match e {
            GdsElement::GdsBoundary(b) => {
                if b.xy.is_empty() { return Err("empty xy".into()); }
                let mut pts: Vec<P2> = b.xy.iter().map(|p| tf.apply((p.x as i64, p.y as i64))).collect();
                if pts.first() != pts.last() { return Err("open boundary".into()); }
                pts.pop();
                out.push(format!("{} {} poly {:?}", b.layer, b.datatype, canon_points(pts)));
            }
            GdsElement::GdsBox(b) => {
                let (p0, p2) = (tf.apply((b.xy[0].x as i64, b.xy[0].y as i64)), tf.apply((b.xy[2].x as i64, b.xy[2].y as i64)));
                // the rectangle spanned by opposite corners, as a 4-gon (orientation as the importer's Rect would give after transform)
                out.push(format!("{} {} box {:?}", b.layer, b.boxtype, { let mut v = vec![p0, p2]; v.sort(); v }));
            }
            GdsElement::GdsPath(p) => {
                let w = p.width.ok_or("path without width")?;
                if w < 0 { return Err("negative width".into()); }
                out.push(format!("{} {} path {} {:?}", p.layer, p.datatype, w, p.xy.iter().map(|q| tf.apply((q.x as i64, q.y as i64))).collect::<Vec<_>>()));
            }
            GdsElement::GdsStructRef(r) => {
                let (refl, q) = quarter_of(&r.strans).ok_or("unsupported strans")?;
                // a magnified reference scales the referenced geometry: not representable in the raw model, so the
                // required outcome is an error (unit magnification is the identity)
                if r.strans.as_ref().and_then(|s| s.mag).map(|m| m != 1.0).unwrap_or(false) { return Err("unsupported mag".into()); }
                flatten_gds(g, &r.name, tf.then_child(&Tf::place((r.xy.x as i64, r.xy.y as i64), refl, q)), depth + 1, out)?;
            }
            GdsElement::GdsArrayRef(a) => {
                let (refl, q) = quarter_of(&a.strans).ok_or("unsupported strans")?;
                if a.strans.as_ref().and_then(|s| s.mag).map(|m| m != 1.0).unwrap_or(false) { return Err("unsupported mag".into()); }
                if a.strans.as_ref().map(|s| s.mag.is_some()).unwrap_or(false) { return Err("array with MAG record".into()); }
                let (cols, rows) = (a.cols as i64, a.rows as i64);
                if cols <= 0 || rows <= 0 { return Err("zero rows/cols".into()); }
                let p: Vec<P2> = a.xy.iter().map(|q| (q.x as i64, q.y as i64)).collect();
                let (cx, cy, rx, ry) = (p[1].0 - p[0].0, p[1].1 - p[0].1, p[2].0 - p[0].0, p[2].1 - p[0].1);
                if cx % cols != 0 || cy % cols != 0 || rx % rows != 0 || ry % rows != 0 { return Err("non-integer pitch".into()); }
                if !g.structs.iter().any(|s| s.name == a.name) { return Err("dangling".into()); }
                for i in 0..cols { for j in 0..rows {
                    let loc = (p[0].0 + i * (cx / cols) + j * (rx / rows), p[0].1 + i * (cy / cols) + j * (ry / rows));
                    flatten_gds(g, &a.name, tf.then_child(&Tf::place(loc, refl, q)), depth + 1, out)?;
                } }
            }
            _ => {}
        }
    }
    Ok(())
}
fn flatten_raw(lib: &raw::Library, top: &str) -> Option<Vec<String>> {
    let layers = lib.layers.read().unwrap();
    let cell = lib.cells.iter().find(|c| c.read().unwrap().name == top)?.clone();
    let c = cell.read().unwrap();
    let elems = c.layout.as_ref()?.flatten().ok()?;
    let mut out = vec![];
    for e in elems {
        let layer = layers.get(e.layer)?;
        let (ln, pn) = (layer.layernum, layer.num(&e.purpose)?);
        out.push(match &e.inner {
            raw::Shape::Rect(r) => {
                // a Rect is either a rectangle boundary or a box; key it both ways and let the caller match
                format!("{} {} rect {:?}", ln, pn, { let mut v = vec![(r.p0.x as i64, r.p0.y as i64), (r.p1.x as i64, r.p1.y as i64)]; v.sort(); v })
            }
            raw::Shape::Polygon(p) => format!("{} {} poly {:?}", ln, pn, canon_points(p.points.iter().map(|q| (q.x as i64, q.y as i64)).collect())),
            raw::Shape::Path(p) => format!("{} {} path {} {:?}", ln, pn, p.width, p.points.iter().map(|q| (q.x as i64, q.y as i64)).collect::<Vec<_>>()),
        });
    }
    Some(out)
}
/// region key independent of rect/polygon/box representation: axis-aligned rectangles by their two extreme corners
fn region_key(s: &str) -> String {
    // "L D poly [(..)..]" with 4 points forming an axis-aligned rectangle -> "L D R [min,max]"
    let mut it = s.splitn(4, ' ');
    let (l, d, k, rest) = (it.next().unwrap(), it.next().unwrap(), it.next().unwrap(), it.next().unwrap_or(""));
    let nums: Vec<i64> = rest.replace(|c: char| !(c.is_ascii_digit() || c == '-' || c == ' ' || c == ','), " ").split(|c| c == ' ' || c == ',').filter(|x| !x.is_empty()).map(|x| x.parse().unwrap()).collect();
    match k {
        "rect" | "box" => format!("{} {} R {:?}", l, d, (nums[0].min(nums[2]), nums[1].min(nums[3]), nums[0].max(nums[2]), nums[1].max(nums[3]))),
        "poly" if nums.len() == 8 => {
            let xs: Vec<i64> = nums.iter().step_by(2).cloned().collect();
            let ys: Vec<i64> = nums.iter().skip(1).step_by(2).cloned().collect();
            let p: Vec<P2> = xs.iter().cloned().zip(ys.iter().cloned()).collect();
            let rectish = (p[0].0 == p[1].0 && p[1].1 == p[2].1 && p[2].0 == p[3].0 && p[3].1 == p[0].1) || (p[0].1 == p[1].1 && p[1].0 == p[2].0 && p[2].1 == p[3].1 && p[3].0 == p[0].0);
            if rectish { format!("{} {} R {:?}", l, d, (*xs.iter().min().unwrap(), *ys.iter().min().unwrap(), *xs.iter().max().unwrap(), *ys.iter().max().unwrap())) } else { s.to_string() }
        }
        _ => s.to_string(),
    }
}
pub fn oracle_c06(line: &str) -> String {
    let p = match Sexp::parse_all(line) { Some(p) if p.len() == 2 && p[0].atom() == Some("gdsraw.import") => p, _ => return "na".into() };
    let g = match p_lib(&p[1]) { Some(x) => x, None => return "na".into() };
    let first = c06_judge(&g, None);
    if first != "pass" { return first; }
    // the same stream imported into a layer table the CALLER supplies, with a history: (A) two layer objects already share
    // each number (as met1 / via share 68 in the crate's sample technology), one of them knowing one of the datatypes;
    // (B) a first import into a fresh table, then a new layer re-using a number in use, then the import again
    let mut used: Vec<(i16, i16)> = vec![];
    for st in &g.structs { for e in &st.elems { match e {
        GdsElement::GdsBoundary(x) => used.push((x.layer, x.datatype)), GdsElement::GdsPath(x) => used.push((x.layer, x.datatype)),
        GdsElement::GdsBox(x) => used.push((x.layer, x.boxtype)), _ => {} } } }
    used.sort(); used.dedup();
    if used.is_empty() { return first; }
    let variant = line.len() % 3;
    if variant == 1 {
        let mut layers = raw::Layers::default();
        let mut nums: Vec<i16> = used.iter().map(|u| u.0).collect(); nums.dedup();
        for n in nums {
            let dts: Vec<i16> = used.iter().filter(|u| u.0 == n).map(|u| u.1).collect();
            let mut a = raw::Layer::new(n, format!("a{}", n));
            let _ = a.add_purpose(dts[0], raw::LayerPurpose::Drawing);
            layers.add(a);
            let mut b = raw::Layer::new(n, format!("b{}", n));
            let _ = b.add_purpose(*dts.last().unwrap() + 1, raw::LayerPurpose::Drawing);
            layers.add(b);
        }
        let r = c06_judge(&g, Some(Ptr::new(layers)));
        if r != "pass" && r != "na" { return format!("{} [import into a caller-supplied table with two layer objects per number]", r); }
    } else if variant == 2 {
        if let Ok(Ok(lib1)) = std::panic::catch_unwind(std::panic::AssertUnwindSafe(|| raw::Library::from_gds(&g, None))) {
            let tbl = lib1.layers.clone();
            break_cycles(&lib1);
            { let mut l = tbl.write().unwrap(); let n = used[used.len() / 2].0; let mut extra = raw::Layer::new(n, "extra"); let _ = extra.add_purpose(77, raw::LayerPurpose::Drawing); l.add(extra); }
            let r = c06_judge(&g, Some(tbl));
            if r != "pass" && r != "na" { return format!("{} [second import into the first import's table after a layer re-using a number was added]", r); }
        }
    }
    first
}
fn c06_judge(g: &GdsLibrary, tbl: Option<Ptr<raw::Layers>>) -> String {
    let g = g.clone();
    let res = match std::panic::catch_unwind(std::panic::AssertUnwindSafe(|| raw::Library::from_gds(&g, tbl))) { Err(_) => return "fail import panicked".into(), Ok(r) => r };
    // reference flattening of every struct
    let mut refs: Vec<(String, Result<Vec<String>, String>)> = vec![];
    for s in &g.structs {
        let mut out = vec![];
        let r = flatten_gds(&g, &s.name, Tf::id(), 0, &mut out).map(|_| out);
        refs.push((s.name.clone(), r));
    }
    let malformed = refs.iter().find_map(|(_, r)| r.as_ref().err().cloned());
    match res {
        Err(_) => "pass".into(), // "either reports an error or …"
        Ok(lib) => {
            let out = (|| -> String {
                if !instances_point_into_library(&lib) { return "fail an instance of the imported library refers to a cell that is not in the library (a detached copy)".into(); }
                if let Some(m) = malformed {
                    if ["dangling", "cyclic", "zero rows/cols", "empty xy", "unsupported mag"].contains(&m.as_str()) { return format!("fail malformed hierarchy ({}) imported without error", m); }
                    return "na".into(); // unsupported orientation etc.: outside the property's quantifier
                }
                for (name, r) in &refs {
                    let mut want: Vec<String> = r.as_ref().unwrap().iter().map(|s| region_key(s)).collect();
                    let mut got: Vec<String> = match flatten_raw(&lib, name) { Some(v) => v.iter().map(|s| region_key(s)).collect(), None => return format!("fail struct {} missing or not flattenable", name) };
                    want.sort(); got.sort();
                    if want != got {
                        let k = want.iter().zip(got.iter()).position(|(a, b)| a != b).unwrap_or(want.len().min(got.len()));
                        return format!("fail flattened geometry of {} differs ({} vs {} shapes): GDS has {:?}, raw has {:?}", name, want.len(), got.len(), want.get(k), got.get(k));
                    }
                }
                // labels: inside a shape on the same layer -> names it (lower-cased) and is not an annotation; otherwise annotation
                for s in &g.structs {
                    let cell = lib.cells.iter().find(|c| c.read().unwrap().name == s.name).unwrap().clone();
                    let c = cell.read().unwrap();
                    let ly = c.layout.as_ref().unwrap();
                    let layers = lib.layers.read().unwrap();
                    for e in &s.elems {
                        if let GdsElement::GdsTextElem(t) = e {
                            let loc = raw::Point::new(t.xy.x as isize, t.xy.y as isize);
                            // membership is decided by the exact reference predicates of C13, not by the code's own `contains`
                            let q = (t.xy.x as i64, t.xy.y as i64);
                            let inside = |sh: &raw::Shape| -> Option<bool> {
                                match sh {
                                    raw::Shape::Rect(r) => Some(r.p0.x.min(r.p1.x) as i64 <= q.0 && q.0 <= r.p0.x.max(r.p1.x) as i64 && r.p0.y.min(r.p1.y) as i64 <= q.1 && q.1 <= r.p0.y.max(r.p1.y) as i64),
                                    raw::Shape::Polygon(pl) => { let v: Vec<(i64, i64)> = pl.points.iter().map(|p| (p.x as i64, p.y as i64)).collect(); if crate::props::c13::is_simple(&v) { Some(crate::props::c13::ref_poly(&v, q)) } else { None } }
                                    raw::Shape::Path(pa) => { let v: Vec<(i64, i64)> = pa.points.iter().map(|p| (p.x as i64, p.y as i64)).collect(); if crate::props::c13::manhattan(&v) { crate::props::c13::ref_path(pa.width as i64, &v, q) } else { None } }
                                }
                            };
                            let same_layer: Vec<&raw::Element> = ly.elems.iter().filter(|el| layers.get(el.layer).map(|l| l.layernum) == Some(t.layer)).collect();
                            if same_layer.iter().any(|el| inside(&el.inner).is_none()) { continue; } // a path cap/corner or a non-simple polygon: unspecified
                            let hits: Vec<&raw::Element> = same_layer.into_iter().filter(|el| inside(&el.inner) == Some(true)).collect();
                            let is_annot = ly.annotations.iter().any(|a| a.string == t.string && a.loc == loc);
                            if hits.is_empty() {
                                if !is_annot { return format!("fail label {:?} outside every shape was dropped", t.string); }
                            } else {
                                if hits.iter().any(|h| h.net.is_none()) { return format!("fail label {:?} inside a shape did not name it", t.string); }
                            }
                        }
                    }
                }
                "pass".into()
            })();
            break_cycles(&lib);
            out
        }
    }
}
pub fn tag(line: &str) -> String {
    if line.starts_with("layers.ops ") { return format!("layers.ops:{}", line.matches('(').count().min(24)); }
    let p = match Sexp::parse_all(line) { Some(p) if p.len() == 2 => p, _ => return "-".into() };
    let op = p[0].atom().unwrap_or("").to_string();
    let r = crate::ops::run_line(line);
    format!("{}:{}", op, if r.starts_with("ok") { "ok" } else { &r[..r.len().min(5)] })
}

// ------------------------------------------------------------------ generation
fn fmt_shape_pts(v: &[P2]) -> String { v.iter().map(|p| format!("({} {})", p.0, p.1)).collect::<Vec<_>>().join(" ") }
fn gen_raw_shape(rng: &mut Rng, ox: i64, oy: i64) -> String {
    let t = |v: Vec<P2>| -> Vec<P2> { v.into_iter().map(|p| (p.0 + ox, p.1 + oy)).collect() };
    match rng.below(8) {
        0 | 1 => { let (a, b) = ((rng.range(0, 8), rng.range(0, 8)), (rng.range(9, 18), rng.range(9, 18))); let (a, b) = if rng.coin() { (a, b) } else { (b, a) }; format!("(rect {} {} {} {})", a.0 + ox, a.1 + oy, b.0 + ox, b.1 + oy) }
        2 => if rng.coin() { let a = rng.range(6, 16); let w = rng.range(1, a / 2 - 1).max(1); format!("(polygon {})", fmt_shape_pts(&t(vec![(0, 0), (0, a), (w, a), (w, w), (a - w, w), (a - w, a), (a, a), (a, 0)]))) } else {
            // U / comb with arms of different heights and an off-centre notch, in all eight orientations,
            // from any start vertex, in both windings: the bounding-box centre often falls in the notch,
            // level with the top of the shorter arm
            let (w, base) = (rng.range(8, 20), rng.range(1, 4));
            let (h1, h2) = (base + rng.range(1, 12), base + rng.range(1, 12));
            let a1 = rng.range(1, w / 2 - 1).max(1);
            let a2 = rng.range(1, w - a1 - 2).max(1);
            let mut q: Vec<P2> = vec![(0, 0), (0, h1), (a1, h1), (a1, base), (w - a2, base), (w - a2, h2), (w, h2), (w, 0)];
            let sym = rng.below(8);
            q = q.into_iter().map(|(x, y)| { let (x, y) = if sym & 1 != 0 { (-x, y) } else { (x, y) }; let (x, y) = if sym & 2 != 0 { (x, -y) } else { (x, y) }; if sym & 4 != 0 { (y, x) } else { (x, y) } }).collect();
            if rng.coin() { q.reverse(); }
            let r = rng.below(q.len() as u64) as usize;
            q.rotate_left(r);
            format!("(polygon {})", fmt_shape_pts(&t(q)))
        }, // U
        3 => { let a = rng.range(4, 16); let w = rng.range(1, a - 1).max(1);
            // every third L lists its first vertex again at the end (an explicitly closed polygon)
            let mut q = vec![(0, 0), (a, 0), (a, w), (w, w), (w, a), (0, a)]; if a % 3 == 0 { q.push((0, 0)); }
            format!("(polygon {})", fmt_shape_pts(&t(q))) } // L
        4 => { let r = rng.range(2, 8); let c = rng.range(1, r); format!("(polygon {})", fmt_shape_pts(&t(vec![(c, 0), (r, 0), (r + c, c), (r + c, r), (r, r + c), (c, r + c), (0, r), (0, c)]))) } // 45°
        5 => if rng.coin() { format!("(polygon {})", fmt_shape_pts(&t(vec![(0, 0), (rng.range(6, 16), rng.range(1, 5)), (rng.range(1, 5), rng.range(8, 16))]))) } else {
            // four-vertex shapes that are NOT rectangles: right trapezoids (three axis-aligned edges) and a
            // general quadrilateral, from every start vertex and in both orientations
            let (w, h, d) = (rng.range(6, 16), rng.range(6, 16), rng.range(2, 5));
            let mut q = match rng.below(3) { 0 => vec![(0, 0), (w, 0), (w, h), (d, h)], 1 => vec![(0, 0), (0, h), (w, h), (w, d)], _ => vec![(0, 0), (w, 1), (w - 1, h), (1, h - 1)] };
            if rng.coin() { q.reverse(); }
            q.rotate_left(rng.below(4) as usize);
            format!("(polygon {})", fmt_shape_pts(&t(q)))
        },
        _ => { // Manhattan path, >= 2 points
            let mut v = vec![(rng.range(0, 4), rng.range(0, 4))];
            let mut horiz = rng.coin();
            for _ in 0..1 + rng.below(3) { let l = *v.last().unwrap(); let d = rng.range(2, 8); v.push(if horiz { (l.0 + d, l.1) } else { (l.0, l.1 + d) }); horiz = !horiz; }
            format!("(path {} {})", [0, 2, 3, 4][rng.below(4) as usize], fmt_shape_pts(&t(v)))
        }
    }
}
const ANGLES: [&str; 6] = ["#f", "f0000000000000000", "f4056800000000000", "f4066800000000000", "f4070e00000000000", "f4056800000000000"];
pub fn gen_glib(rng: &mut Rng) -> String {
    let n = 1 + rng.below(4) as usize;
    let tbl = crate::props::c17::random_graph(rng, n, false);
    let layers: [i64; 3] = [1, 5, 66];
    let rows: Vec<String> = layers.iter().map(|l| {
        let lp = if *l == 66 && rng.chance(1, 5) { "#f".to_string() } else { "250".to_string() };
        // a fifth of the layers are TWO layer objects sharing the number: purposes >= split live on the second
        if rng.chance(1, 5) { format!("({} {} {})", l, lp, 1 + rng.below(2)) } else { format!("({} {})", l, lp) }
    }).collect();
    // list cells dependencies-first or in random order
    let mut order: Vec<usize> = (0..n).collect();
    for i in (1..n).rev() { let j = rng.below(i as u64 + 1) as usize; order.swap(i, j); }
    // a third of the libraries with two or more cells have two cell names that differ ONLY in letter case (c0 / C0)
    let twins = n >= 2 && (n + order[0]) % 3 == 0;
    let cname = |i: usize| -> String { if twins && i == 1 { "C0".to_string() } else { format!("c{}", i) } };
    let mut cells = vec![];
    for &i in &order {
        let insts: Vec<String> = tbl[i].iter().enumerate().map(|(k, d)| format!("(i {} {} {} {} {} {})", of_bytes(format!("i{}", k).as_bytes()), of_bytes(cname(*d).as_bytes()), rng.range(-1000, 1000), rng.range(-1000, 1000), if rng.coin() { "#t" } else { "#f" }, ANGLES[rng.below(6) as usize])).collect();
        let ne = rng.below(6);
        let elems: Vec<String> = (0..ne).map(|k| {
            // separate shapes spatially unless we want overlaps
            let (ox, oy) = if rng.chance(1, 6) { (0, 0) } else { (40 * k as i64, 40 * rng.range(-2, 2)) };
            let net = match rng.below(4) { 0 => "#f".to_string(), 1 => of_bytes(b"vdd").to_string(), 2 => of_bytes(b"NetA").to_string(), _ => of_bytes(format!("n{}", k).as_bytes()).to_string() };
            format!("(e {} {} {} {})", net, rng.pick(&layers), rng.below(3), gen_raw_shape(rng, ox, oy))
        }).collect();
        cells.push(format!("(cell {} (insts {}) (elems {}) (annots))", of_bytes(cname(i).as_bytes()), insts.join(" "), elems.join(" ")).replace(" )", ")"));
    }
    format!("(glib {} {} (layers {}) {})", of_bytes(b"lib"), rng.below(4), rows.join(" "), cells.join(" "))
}
pub fn gen_c07(thorough: bool, rng: &mut Rng, out: &mut Vec<String>) {
    for _ in 0..(if thorough { 40000 } else { 5000 }) {
        out.push(format!("rawgds.export {}", gen_glib(rng)));
    }
    // the layer / purpose tables under a history of operations (model: Model/Layers.lean)
    crate::props::layers::gen(thorough, rng, out);
}
fn gds_units(rng: &mut Rng) -> GdsUnits {
    match rng.below(12) { 0 => GdsUnits(1.0, 1e-6), 1 => GdsUnits(1e-4, 1e-10), 2 => GdsUnits(1e-6, 1e-12), 3 => GdsUnits(1e-3, 1e-3), _ => GdsUnits(1e-3, 1e-9) }
}
fn gen_strans(rng: &mut Rng) -> Option<GdsStrans> {
    match rng.below(10) {
        0 => None,
        1 => Some(GdsStrans { abs_angle: true, ..Default::default() }),
        _ => Some(GdsStrans { reflected: rng.coin(), angle: if rng.chance(1, 5) { None } else if rng.chance(1, 3) { Some(90.0 * (rng.below(14) as i64 - 6) as f64) /* negative right angles and whole turns: -540 … 630 */ } else { Some(90.0 * rng.range(0, 3) as f64) }, mag: match rng.below(12) { 0 => Some(1.0), 1 => Some([2.0, 0.5, 3.0, 1.0000000000000002][rng.below(4) as usize]), _ => None }, ..Default::default() }),
    }
}
pub fn gen_gds_lib(rng: &mut Rng, malform: u64, big: bool) -> GdsLibrary {
    let n = 1 + rng.below(4) as usize;
    let tbl = crate::props::c17::random_graph(rng, n, malform == 1);
    let mut lib = GdsLibrary::new("lib");
    lib.units = gds_units(rng);
    let mut order: Vec<usize> = (0..n).collect();
    for i in (1..n).rev() { let j = rng.below(i as u64 + 1) as usize; order.swap(i, j); }
    // a third of the libraries with two or more structures have two structure names that differ ONLY in letter case
    // (s0 / S0): GDSII names are case-sensitive, the two are different cells
    let twins = n >= 2 && (n + order[0]) % 3 == 0;
    let sname = |i: usize| -> String { if twins && i == 1 { "S0".to_string() } else { format!("s{}", i) } };
    for &i in &order {
        let mut s = GdsStruct::new(sname(i));
        for (k, d) in tbl[i].iter().enumerate() {
            let name = if malform == 2 && k == 0 { "nowhere".to_string() } else { sname(*d) };
            if rng.chance(1, 3) {
                let (cols, rows) = if malform == 3 && k == 0 { if rng.coin() { (0, 3) } else { (2, -1) } } else if big && k == 0 { [(200, 200), (182, 182), (1, 400), (300, 2)][rng.below(4) as usize] } else { (1 + rng.below(5) as i16, 1 + rng.below(5) as i16) };
                let p0 = (rng.range(-500, 500) as i32, rng.range(-500, 500) as i32);
                let (pc, pr) = (rng.range(5, 60) as i32, rng.range(5, 60) as i32);
                // lattice: axis-aligned, transposed (rotated 90°) or skewed
                let (v1, v2) = match rng.below(4) { 0 => ((0, pc), (-pr, 0)), 1 => ((pc, pr), (-pr, pc)), _ => ((pc, 0), (0, pr)) };
                s.elems.push(GdsElement::GdsArrayRef(GdsArrayRef { name, xy: [GdsPoint::new(p0.0, p0.1), GdsPoint::new(p0.0 + cols as i32 * v1.0, p0.1 + cols as i32 * v1.1), GdsPoint::new(p0.0 + rows as i32 * v2.0, p0.1 + rows as i32 * v2.1)], cols, rows, strans: gen_strans(rng), ..Default::default() }));
            } else {
                s.elems.push(GdsElement::GdsStructRef(GdsStructRef { name, xy: GdsPoint::new(rng.range(-500, 500) as i32, rng.range(-500, 500) as i32), strans: gen_strans(rng), ..Default::default() }));
            }
        }
        for k in 0..rng.below(5) {
            let (ox, oy) = (40 * k as i32, 40 * rng.range(-2, 2) as i32);
            let layer = [1i16, 5, 66][rng.below(3) as usize];
            let dt = rng.below(3) as i16;
            let mut label_at: Option<(i32, i32)> = None;
            if rng.chance(1, 8) {
                // two overlapping shapes on one layer and two DIFFERENT labels: the first lies in the first shape only,
                // the second in the overlap — it meets an already-named shape and a nameless one (either element order)
                let (a, b) = (rng.range(6, 12) as i32, rng.range(3, 5) as i32);
                let r1 = vec![(ox, oy), (ox + a, oy), (ox + a, oy + a), (ox, oy + a), (ox, oy)];
                let r2 = vec![(ox + b, oy + b), (ox + a + b, oy + b), (ox + a + b, oy + a + b), (ox + b, oy + a + b), (ox + b, oy + b)];
                let mk = |pts: &Vec<(i32, i32)>| GdsElement::GdsBoundary(GdsBoundary { layer, datatype: dt, xy: pts.iter().map(|p| GdsPoint::new(p.0, p.1)).collect(), ..Default::default() });
                if rng.coin() { s.elems.push(mk(&r1)); s.elems.push(mk(&r2)); } else { s.elems.push(mk(&r2)); s.elems.push(mk(&r1)); }
                let txt = |st: &str, x: i32, y: i32| GdsElement::GdsTextElem(GdsTextElem { string: st.to_string(), layer, texttype: x.rem_euclid(3) as i16, xy: GdsPoint::new(x, y), ..Default::default() });
                s.elems.push(txt("first", ox + 1, oy + 1));
                s.elems.push(txt("second", ox + b + 1, oy + b + 1));
                if rng.coin() { s.elems.push(txt("third", ox + a + b - 1, oy + a + b - 1)); }
                continue;
            }
            match rng.below(6) {
                0 | 1 => { // rectangle, clockwise or counter-clockwise, any start
                    let (x0, y0, x1, y1) = (ox, oy, ox + rng.range(2, 15) as i32, oy + rng.range(2, 15) as i32);
                    let mut pts = vec![(x0, y0), (x1, y0), (x1, y1), (x0, y1)];
                    if rng.coin() { pts.reverse(); }
                    pts.rotate_left(rng.below(4) as usize);
                    pts.push(pts[0]);
                    if malform == 4 && k == 0 { pts.clear(); }
                    s.elems.push(GdsElement::GdsBoundary(GdsBoundary { layer, datatype: dt, xy: pts.iter().map(|p| GdsPoint::new(p.0, p.1)).collect(), ..Default::default() }));
                    label_at = Some(match rng.below(4) { 0 => ((x0 + x1) / 2, (y0 + y1) / 2), 1 => (x0, y0), 2 => (x1, (y0 + y1) / 2), _ => (x1 + 3, y1 + 3) });
                }
                2 if rng.coin() => {
                    // right trapezoid / general quadrilateral: four vertices, not a rectangle, any start vertex and direction
                    let (w, h, d) = (rng.range(6, 16) as i32, rng.range(6, 16) as i32, rng.range(2, 5) as i32);
                    let mut q = match rng.below(3) { 0 => vec![(0, 0), (w, 0), (w, h), (d, h)], 1 => vec![(0, 0), (0, h), (w, h), (w, d)], _ => vec![(0, 0), (w, 1), (w - 1, h), (1, h - 1)] };
                    if rng.coin() { q.reverse(); }
                    q.rotate_left(rng.below(4) as usize);
                    q.push(q[0]);
                    s.elems.push(GdsElement::GdsBoundary(GdsBoundary { layer, datatype: dt, xy: q.iter().map(|p| GdsPoint::new(p.0 + ox, p.1 + oy)).collect(), ..Default::default() }));
                    label_at = Some((ox + w / 2, oy + h / 2));
                }
                2 if rng.coin() => {
                    // L / staircase shapes, any start vertex and direction; the label anywhere on the grid of the bounding box and
                    // one step around it: inside, on an edge, on a vertex, in the notch, and on the continuation of an edge
                    let (w, h) = (rng.range(6, 14) as i32, rng.range(6, 14) as i32);
                    let (dx, dy) = (rng.range(1, w as i64 - 1) as i32, rng.range(1, h as i64 - 1) as i32);
                    let mut q = match rng.below(3) {
                        0 => vec![(0, 0), (w, 0), (w, dy), (dx, dy), (dx, h), (0, h)],
                        1 => vec![(0, 0), (w, 0), (w, h), (dx, h), (dx, dy), (0, dy)],
                        _ => vec![(0, 0), (w, 0), (w, dy), (dx + 1, dy), (dx + 1, h), (dx, h), (dx, dy), (0, dy)],
                    };
                    if rng.coin() { q.reverse(); }
                    let nq = q.len();
                    q.rotate_left(rng.below(nq as u64) as usize);
                    q.push(q[0]);
                    s.elems.push(GdsElement::GdsBoundary(GdsBoundary { layer, datatype: dt, xy: q.iter().map(|p| GdsPoint::new(p.0 + ox, p.1 + oy)).collect(), ..Default::default() }));
                    label_at = Some(match rng.below(4) {
                        0 => (ox + w, oy + rng.range(-1, h as i64 + 1) as i32),
                        1 => (ox + dx, oy + rng.range(-1, h as i64 + 1) as i32),
                        2 => (ox + rng.range(-1, w as i64 + 1) as i32, oy + dy),
                        _ => (ox + rng.range(-1, w as i64 + 1) as i32, oy + rng.range(-1, h as i64 + 1) as i32),
                    });
                }
                2 if rng.coin() => {
                    // monotone staircases (2–3 steps, rising or falling, any start vertex and direction) and star-shaped
                    // general polygons; the label is level with one of the vertices, anywhere from one unit left of the
                    // bounding box to one unit right of it: outside points whose ray passes THROUGH a vertex
                    let mut q: Vec<(i32, i32)> = if rng.coin() {
                        let steps = 2 + rng.below(2) as i32;
                        let (sx, sy) = (rng.range(2, 6) as i32, rng.range(2, 5) as i32);
                        let mut v = vec![(0, 0), (steps * sx, 0)];
                        for k in (0..steps).rev() { v.push(((k + 1) * sx, (steps - k) * sy)); v.push((k * sx, (steps - k) * sy)); }
                        if rng.coin() { v = v.iter().map(|p| (steps * sx - p.0, p.1)).collect(); }
                        if rng.coin() { v = v.iter().map(|p| (p.0, steps * sy - p.1)).collect(); }
                        v
                    } else {
                        let n = 4 + rng.below(4) as usize;
                        (0..n).map(|k| { let a = (k as f64 + 0.1 + 0.8 * (rng.below(100) as f64 / 100.0)) / n as f64 * std::f64::consts::TAU; let r = rng.range(3, 12) as f64; (12 + (r * a.cos()).round() as i32, 12 + (r * a.sin()).round() as i32) }).collect()
                    };
                    q.dedup();
                    if rng.coin() { q.reverse(); }
                    let nq = q.len();
                    q.rotate_left(rng.below(nq as u64) as usize);
                    let v = q[rng.below(nq as u64) as usize];
                    let (minx, maxx) = (q.iter().map(|p| p.0).min().unwrap(), q.iter().map(|p| p.0).max().unwrap());
                    q.push(q[0]);
                    s.elems.push(GdsElement::GdsBoundary(GdsBoundary { layer, datatype: dt, xy: q.iter().map(|p| GdsPoint::new(p.0 + ox, p.1 + oy)).collect(), ..Default::default() }));
                    label_at = Some((ox + rng.range(minx as i64 - 1, maxx as i64 + 1) as i32, oy + v.1));
                }
                2 => { let a = rng.range(6, 16) as i32; let w = 2; let pts = vec![(0, 0), (0, a), (w, a), (w, w), (a - w, w), (a - w, a), (a, a), (a, 0), (0, 0)];
                    s.elems.push(GdsElement::GdsBoundary(GdsBoundary { layer, datatype: dt, xy: pts.iter().map(|p| GdsPoint::new(p.0 + ox, p.1 + oy)).collect(), ..Default::default() }));
                    label_at = Some(if rng.coin() { (ox + 1, oy + 1) } else { (ox + a / 2, oy + a / 2) }); }
                3 => { let x1 = ox + rng.range(3, 12) as i32; let y1 = oy + rng.range(3, 12) as i32;
                    s.elems.push(GdsElement::GdsBox(GdsBox { layer, boxtype: dt, xy: [GdsPoint::new(ox, oy), GdsPoint::new(x1, oy), GdsPoint::new(x1, y1), GdsPoint::new(ox, y1), GdsPoint::new(ox, oy)], ..Default::default() }));
                    label_at = Some((ox + 1, oy + 1)); }
                4 => { let len = rng.range(4, 20) as i32; let pts = if rng.coin() { vec![(ox, oy), (ox + len, oy), (ox + len, oy + len)] } else { vec![(ox, oy), (ox, oy + len)] };
                    s.elems.push(GdsElement::GdsPath(GdsPath { layer, datatype: dt, xy: pts.iter().map(|p| GdsPoint::new(p.0, p.1)).collect(), width: if rng.chance(1, 12) { None } else { Some([0, 2, 4][rng.below(3) as usize]) }, ..Default::default() }));
                    label_at = Some((ox + 1, oy)); }
                _ => { s.elems.push(GdsElement::GdsNode(GdsNode { layer, nodetype: dt, xy: vec![GdsPoint::new(ox, oy)], ..Default::default() })); }
            }
            if let Some(l) = label_at {
                if rng.coin() {
                    s.elems.push(GdsElement::GdsTextElem(GdsTextElem { string: ["VDD", "out", "Net_1"][rng.below(3) as usize].to_string(), layer: if rng.chance(1, 5) { 99 } else { layer }, texttype: (l.0 + l.1).rem_euclid(3) as i16, xy: GdsPoint::new(l.0, l.1), ..Default::default() }));
                }
            }
        }
        lib.structs.push(s);
    }
    lib
}
pub fn gen_c06(thorough: bool, rng: &mut Rng, out: &mut Vec<String>) {
    let n = if thorough { 40000 } else { 5000 };
    for i in 0..n {
        let malform = if i % 6 == 5 { 1 + rng.below(4) } else { 0 };
        let big = i % 400 == 7;
        let mut lib = gen_gds_lib(rng, malform, big);
        let z = GdsDateTime { year: 0, month: 0, day: 0, hour: 0, minute: 0, second: 0 };
        lib.set_all_dates(z);
        out.push(format!("gdsraw.import {}", lib_s(&lib)));
        if i % 2 == 0 { out.push(format!("gdsraw.flat {}", lib_s(&lib))); }
    }
}
