//! C14: raw <-> protobuf. Ops `rawproto.export <rlib>`, `rawproto.import <plib>`; formats in DESIGN appendix / lean Driver/RawProtoIO.lean
use crate::rng::Rng;
use crate::sexp::*;
use layout21protos::raw as proto;
use layout21protos::utils as putils;
use layout21raw as raw;
use layout21raw::utils::Ptr;
use std::collections::HashMap;

fn bytes_s(s: &str) -> Sexp {
    of_bytes(s.as_bytes())
}
fn p_str(s: &Sexp) -> Option<String> {
    String::from_utf8(s.bytes()?).ok()
}
fn pts_s(v: &[(i64, i64)]) -> Vec<Sexp> {
    v.iter().map(|p| l(vec![of_int(p.0), of_int(p.1)])).collect()
}
fn p_pts(v: &[Sexp]) -> Option<Vec<(i64, i64)>> {
    v.iter().map(|p| { let q = p.list()?; Some((q[0].int()?, q[1].int()?)) }).collect()
}
fn p_shape(s: &Sexp) -> Option<raw::Shape> {
    let v = s.list()?;
    let pt = |p: (i64, i64)| raw::Point::new(p.0 as isize, p.1 as isize);
    Some(match v[0].atom()? {
        "rect" => raw::Shape::Rect(raw::Rect { p0: pt((v[1].int()?, v[2].int()?)), p1: pt((v[3].int()?, v[4].int()?)) }),
        "polygon" => raw::Shape::Polygon(raw::Polygon { points: p_pts(&v[1..])?.into_iter().map(pt).collect() }),
        "path" => raw::Shape::Path(raw::Path { width: v[1].int()? as usize, points: p_pts(&v[2..])?.into_iter().map(pt).collect() }),
        _ => return None,
    })
}
fn shape_s(s: &raw::Shape) -> Sexp {
    match s {
        raw::Shape::Rect(r) => l(vec![a("rect"), of_int(r.p0.x as i64), of_int(r.p0.y as i64), of_int(r.p1.x as i64), of_int(r.p1.y as i64)]),
        raw::Shape::Polygon(p) => { let mut v = vec![a("polygon")]; v.extend(pts_s(&p.points.iter().map(|q| (q.x as i64, q.y as i64)).collect::<Vec<_>>())); l(v) }
        raw::Shape::Path(p) => { let mut v = vec![a("path"), of_int(p.width as i64)]; v.extend(pts_s(&p.points.iter().map(|q| (q.x as i64, q.y as i64)).collect::<Vec<_>>())); l(v) }
    }
}

/// build a raw::Library from `(rlib name units (layers (ln pin obs)...) (cell ...)...)`
pub fn p_rlib(s: &Sexp) -> Option<raw::Library> {
    let v = s.list()?;
    if v[0].atom()? != "rlib" { return None; }
    let units = match v[2].int()? { 0 => raw::Units::Micro, 1 => raw::Units::Nano, 2 => raw::Units::Angstrom, _ => raw::Units::Pico };
    let mut lib = raw::Library::new(p_str(&v[1])?, units);
    let mut keys: HashMap<i64, raw::LayerKey> = HashMap::new();
    {
        let mut layers = lib.layers.write().unwrap();
        for row in &v[3].list()?[1..] {
            let r = row.list()?;
            let ln = r[0].int()?;
            let mut layer = raw::Layer::new(ln as i16, format!("L{}", ln));
            if let Some(p) = r[1].int() { layer.add_purpose(p as i16, raw::LayerPurpose::Pin).ok()?; }
            if let Some(o) = r[2].int() { layer.add_purpose(o as i16, raw::LayerPurpose::Obstruction).ok()?; }
            keys.insert(ln, layers.add(layer));
        }
    }
    // first pass: cells without instances
    let mut ptrs: Vec<Ptr<raw::Cell>> = vec![];
    let mut names: HashMap<String, usize> = HashMap::new();
    let cells = &v[4..];
    for (i, c) in cells.iter().enumerate() {
        let cv = c.list()?;
        let name = p_str(&cv[1])?;
        let mut cell = raw::Cell::new(name.clone());
        if cv[2].atom() != Some("#f") {
            let lv = cv[2].list()?;
            let mut lay = raw::Layout::default();
            lay.name = p_str(&lv[1])?;
            for e in &lv[3].list()?[1..] {
                let ev = e.list()?;
                let net = if ev[1].atom() == Some("#f") { None } else { Some(p_str(&ev[1])?) };
                let (ln, pn) = (ev[2].int()?, ev[3].int()?);
                let key = *keys.get(&ln)?;
                let purpose = {
                    let mut layers = lib.layers.write().unwrap();
                    let layer = layers.slots.get_mut(key)?;
                    match layer.purpose(pn as i16) { Some(p) => p.clone(), None => { let p = raw::LayerPurpose::Other(pn as i16); layer.add_purpose(pn as i16, p.clone()).ok()?; p } }
                };
                lay.elems.push(raw::Element { net, layer: key, purpose, inner: p_shape(&ev[4])? });
            }
            for an in &lv[4].list()?[1..] {
                let av = an.list()?;
                lay.annotations.push(raw::TextElement { string: p_str(&av[1])?, loc: raw::Point::new(av[2].int()? as isize, av[3].int()? as isize) });
            }
            cell.layout = Some(lay);
        }
        if cv[3].atom() != Some("#f") {
            let av = cv[3].list()?;
            let outline = raw::Polygon { points: p_pts(&av[2].list()?[1..])?.into_iter().map(|p| raw::Point::new(p.0 as isize, p.1 as isize)).collect() };
            let mut abs = raw::Abstract::new(p_str(&av[1])?, outline);
            for port in &av[3].list()?[1..] {
                let pv = port.list()?;
                let mut ap = raw::AbstractPort::new(p_str(&pv[1])?);
                for m in &pv[2..] {
                    let mv = m.list()?;
                    ap.shapes.insert(*keys.get(&mv[0].int()?)?, mv[1..].iter().map(p_shape).collect::<Option<Vec<_>>>()?);
                }
                abs.ports.push(ap);
            }
            for m in &av[4].list()?[1..] {
                let mv = m.list()?;
                abs.blockages.insert(*keys.get(&mv[0].int()?)?, mv[1..].iter().map(p_shape).collect::<Option<Vec<_>>>()?);
            }
            cell.abs = Some(abs);
        }
        names.insert(name, i);
        ptrs.push(Ptr::new(cell));
    }
    // second pass: instances (may refer to any cell, also later ones)
    for (i, c) in cells.iter().enumerate() {
        let cv = c.list()?;
        if cv[2].atom() == Some("#f") { continue; }
        let lv = cv[2].list()?;
        let mut insts = vec![];
        for ins in &lv[2].list()?[1..] {
            let iv = ins.list()?;
            let target = *names.get(&p_str(&iv[2])?)?;
            insts.push(raw::Instance {
                inst_name: p_str(&iv[1])?,
                cell: ptrs[target].clone(),
                loc: raw::Point::new(iv[3].int()? as isize, iv[4].int()? as isize),
                reflect_vert: iv[5].boolean()?,
                angle: if iv[6].atom() == Some("#f") { None } else { Some(iv[6].int()? as f64) },
            });
        }
        ptrs[i].write().unwrap().layout.as_mut()?.insts = insts;
    }
    for p in ptrs { lib.cells.push(p); }
    Some(lib)
}
fn layer_map_s(m: &HashMap<raw::LayerKey, Vec<raw::Shape>>, layers: &raw::Layers) -> Vec<Sexp> {
    let mut v: Vec<(i64, Sexp)> = m.iter().map(|(k, shapes)| {
        let ln = layers.get(*k).map(|l| l.layernum as i64).unwrap_or(-99999);
        let mut e = vec![of_int(ln)];
        e.extend(shapes.iter().map(shape_s));
        (ln, l(e))
    }).collect();
    v.sort_by_key(|x| x.0);
    v.into_iter().map(|x| x.1).collect()
}
pub fn rlib_s(lib: &raw::Library) -> Sexp {
    let layers = lib.layers.read().unwrap();
    let mut out = vec![a("rlib"), bytes_s(&lib.name), of_int(match lib.units { raw::Units::Micro => 0, raw::Units::Nano => 1, raw::Units::Angstrom => 2, raw::Units::Pico => 3 })];
    for c in lib.cells.iter() {
        let c = c.read().unwrap();
        let lay = match &c.layout {
            None => a("#f"),
            Some(ly) => {
                let mut insts = vec![a("insts")];
                for i in &ly.insts {
                    let target = i.cell.read().unwrap().name.clone();
                    let ang = match i.angle { None => a("#f"), Some(x) => of_int(x as i64) };
                    insts.push(l(vec![a("i"), bytes_s(&i.inst_name), bytes_s(&target), of_int(i.loc.x as i64), of_int(i.loc.y as i64), of_bool(i.reflect_vert), ang]));
                }
                let mut elems = vec![a("elems")];
                for e in &ly.elems {
                    let layer = layers.get(e.layer);
                    let ln = layer.map(|x| x.layernum as i64).unwrap_or(-99999);
                    let pn = layer.and_then(|x| x.num(&e.purpose)).map(|x| x as i64).unwrap_or(-99999);
                    elems.push(l(vec![a("e"), e.net.as_ref().map(|n| bytes_s(n)).unwrap_or(a("#f")), of_int(ln), of_int(pn), shape_s(&e.inner)]));
                }
                let mut ann = vec![a("annots")];
                for t in &ly.annotations { ann.push(l(vec![a("a"), bytes_s(&t.string), of_int(t.loc.x as i64), of_int(t.loc.y as i64)])); }
                l(vec![a("layout"), bytes_s(&ly.name), l(insts), l(elems), l(ann)])
            }
        };
        let abs = match &c.abs {
            None => a("#f"),
            Some(ab) => {
                let mut outline = vec![a("outline")];
                outline.extend(pts_s(&ab.outline.points.iter().map(|q| (q.x as i64, q.y as i64)).collect::<Vec<_>>()));
                let mut ports = vec![a("ports")];
                for p in &ab.ports { let mut pv = vec![a("port"), bytes_s(&p.net)]; pv.extend(layer_map_s(&p.shapes, &layers)); ports.push(l(pv)); }
                let mut blk = vec![a("blockages")];
                blk.extend(layer_map_s(&ab.blockages, &layers));
                l(vec![a("abs"), bytes_s(&ab.name), l(outline), l(ports), l(blk)])
            }
        };
        out.push(l(vec![a("cell"), bytes_s(&c.name), lay, abs]));
    }
    l(out)
}
// ---- proto <-> sexp
fn ppt(p: &Option<proto::Point>) -> Sexp { match p { None => a("#f"), Some(p) => l(vec![of_int(p.x), of_int(p.y)]) } }
fn p_ppt(s: &Sexp) -> Option<Option<proto::Point>> { if s.atom() == Some("#f") { Some(None) } else { let v = s.list()?; Some(Some(proto::Point::new(v[0].int()?, v[1].int()?))) } }
fn ls_s(ls: &proto::LayerShapes) -> Sexp {
    let layer = match &ls.layer { None => a("#f"), Some(ly) => l(vec![of_int(ly.number), of_int(ly.purpose)]) };
    let mut rects = vec![a("rects")];
    for r in &ls.rectangles { rects.push(l(vec![a("pr"), bytes_s(&r.net), ppt(&r.lower_left), of_int(r.width), of_int(r.height)])); }
    let mut polys = vec![a("polys")];
    for p in &ls.polygons { let mut v = vec![a("pp"), bytes_s(&p.net)]; v.extend(pts_s(&p.vertices.iter().map(|q| (q.x, q.y)).collect::<Vec<_>>())); polys.push(l(v)); }
    let mut paths = vec![a("paths")];
    for p in &ls.paths { let mut v = vec![a("ppa"), bytes_s(&p.net), of_int(p.width)]; v.extend(pts_s(&p.points.iter().map(|q| (q.x, q.y)).collect::<Vec<_>>())); paths.push(l(v)); }
    l(vec![a("ls"), layer, l(rects), l(polys), l(paths)])
}
fn p_ls(s: &Sexp) -> Option<proto::LayerShapes> {
    let v = s.list()?;
    let mut ls = proto::LayerShapes::default();
    if v[1].atom() != Some("#f") { let ly = v[1].list()?; ls.layer = Some(proto::Layer { number: ly[0].int()?, purpose: ly[1].int()? }); }
    for r in &v[2].list()?[1..] { let rv = r.list()?; ls.rectangles.push(proto::Rectangle { net: p_str(&rv[1])?, lower_left: p_ppt(&rv[2])?, width: rv[3].int()?, height: rv[4].int()? }); }
    for p in &v[3].list()?[1..] { let pv = p.list()?; ls.polygons.push(proto::Polygon { net: p_str(&pv[1])?, vertices: p_pts(&pv[2..])?.into_iter().map(|q| proto::Point::new(q.0, q.1)).collect() }); }
    for p in &v[4].list()?[1..] { let pv = p.list()?; ls.paths.push(proto::Path { net: p_str(&pv[1])?, width: pv[2].int()?, points: p_pts(&pv[3..])?.into_iter().map(|q| proto::Point::new(q.0, q.1)).collect() }); }
    Some(ls)
}
pub fn plib_s(p: &proto::Library) -> Sexp {
    let mut out = vec![a("plib"), bytes_s(&p.domain), of_int(p.units as i64)];
    for c in &p.cells {
        let lay = match &c.layout {
            None => a("#f"),
            Some(ly) => {
                let mut insts = vec![a("insts")];
                for i in &ly.instances {
                    let r = match &i.cell { None => a("#f"), Some(r) => match &r.to { None => a("#f"), Some(putils::reference::To::Local(n)) => l(vec![a("local"), bytes_s(n)]), Some(putils::reference::To::External(_)) => a("external") } };
                    insts.push(l(vec![a("pi"), bytes_s(&i.name), r, ppt(&i.origin_location), of_bool(i.reflect_vert), of_int(i.rotation_clockwise_degrees as i64)]));
                }
                let mut shapes = vec![a("shapes")];
                shapes.extend(ly.shapes.iter().map(ls_s));
                let mut ann = vec![a("annots")];
                for t in &ly.annotations { ann.push(l(vec![a("pa"), bytes_s(&t.string), ppt(&t.loc)])); }
                l(vec![a("playout"), bytes_s(&ly.name), l(insts), l(shapes), l(ann)])
            }
        };
        let abs = match &c.r#abstract {
            None => a("#f"),
            Some(ab) => {
                let outline = match &ab.outline { None => a("#f"), Some(p) => { let mut v = vec![a("pp"), bytes_s(&p.net)]; v.extend(pts_s(&p.vertices.iter().map(|q| (q.x, q.y)).collect::<Vec<_>>())); l(v) } };
                let mut ports = vec![a("ports")];
                for p in &ab.ports { let mut pv = vec![a("pport"), bytes_s(&p.net)]; pv.extend(p.shapes.iter().map(ls_s)); ports.push(l(pv)); }
                let mut blk = vec![a("blockages")];
                blk.extend(ab.blockages.iter().map(ls_s));
                l(vec![a("pabs"), bytes_s(&ab.name), outline, l(ports), l(blk)])
            }
        };
        out.push(l(vec![a("pcell"), bytes_s(&c.name), lay, abs]));
    }
    l(out)
}
pub fn p_plib(s: &Sexp) -> Option<proto::Library> {
    let v = s.list()?;
    if v[0].atom()? != "plib" { return None; }
    let mut lib = proto::Library::default();
    lib.domain = p_str(&v[1])?;
    lib.units = v[2].int()? as i32;
    for c in &v[3..] {
        let cv = c.list()?;
        let mut cell = proto::Cell::default();
        cell.name = p_str(&cv[1])?;
        if cv[2].atom() != Some("#f") {
            let lv = cv[2].list()?;
            let mut ly = proto::Layout::default();
            ly.name = p_str(&lv[1])?;
            for i in &lv[2].list()?[1..] {
                let iv = i.list()?;
                let cellref = if iv[2].atom() == Some("#f") { None } else if iv[2].atom() == Some("external") {
                    Some(putils::Reference { to: Some(putils::reference::To::External(putils::QualifiedName { domain: "d".into(), name: "n".into() })) })
                } else { Some(putils::Reference { to: Some(putils::reference::To::Local(p_str(&iv[2].list()?[1])?)) }) };
                ly.instances.push(proto::Instance { name: p_str(&iv[1])?, cell: cellref, origin_location: p_ppt(&iv[3])?, reflect_vert: iv[4].boolean()?, rotation_clockwise_degrees: iv[5].int()? as i32 });
            }
            for sh in &lv[3].list()?[1..] { ly.shapes.push(p_ls(sh)?); }
            for t in &lv[4].list()?[1..] { let tv = t.list()?; ly.annotations.push(proto::TextElement { string: p_str(&tv[1])?, loc: p_ppt(&tv[2])? }); }
            cell.layout = Some(ly);
        }
        if cv[3].atom() != Some("#f") {
            let av = cv[3].list()?;
            let mut ab = proto::Abstract::default();
            ab.name = p_str(&av[1])?;
            if av[2].atom() != Some("#f") { let ov = av[2].list()?; ab.outline = Some(proto::Polygon { net: p_str(&ov[1])?, vertices: p_pts(&ov[2..])?.into_iter().map(|q| proto::Point::new(q.0, q.1)).collect() }); }
            for p in &av[3].list()?[1..] { let pv = p.list()?; ab.ports.push(proto::AbstractPort { net: p_str(&pv[1])?, shapes: pv[2..].iter().map(p_ls).collect::<Option<Vec<_>>>()? }); }
            for b in &av[4].list()?[1..] { ab.blockages.push(p_ls(b)?); }
            cell.r#abstract = Some(ab);
        }
        lib.cells.push(cell);
    }
    Some(lib)
}
fn break_cycles(lib: &raw::Library) {
    for c in lib.cells.iter() { if let Ok(mut c) = c.write() { if let Some(l) = c.layout.as_mut() { l.insts.clear(); } } }
}
pub fn op_export(args: &[Sexp]) -> String {
    let lib = match args.get(0).and_then(p_rlib) { Some(x) => x, None => return "bad-op".into() };
    let r = lib.to_proto();
    let out = match r { Ok(p) => format!("ok {}", plib_s(&p)), Err(_) => "err".into() };
    break_cycles(&lib);
    out
}
pub fn op_import(args: &[Sexp]) -> String {
    let p = match args.get(0).and_then(p_plib) { Some(x) => x, None => return "bad-op".into() };
    match raw::Library::from_proto(p, None) {
        Ok(lib) => { let s = format!("ok {}", rlib_s(&lib)); break_cycles(&lib); s }
        Err(_) => "err".into(),
    }
}

/// `rawproto.seq <message A> <message B>`: A is imported into a fresh layer set and exported; then B is imported into
/// the SAME layer set; then A's library is exported again. Importing another library must not change (or break) the
/// conversion of the first.
pub fn op_seq(args: &[Sexp]) -> String {
    let (pa, pb) = match (args.get(0).and_then(p_plib), args.get(1).and_then(p_plib)) { (Some(a), Some(b)) => (a, b), _ => return "bad-op".into() };
    let la = match raw::Library::from_proto(pa, None) { Ok(l) => l, Err(_) => return "na first-import".into() };
    let m1 = match la.to_proto() { Ok(m) => m, Err(_) => { break_cycles(&la); return "na first-export".into(); } };
    let lb = raw::Library::from_proto(pb, Some(la.layers.clone()));
    let m2 = la.to_proto();
    if let Ok(b) = &lb { break_cycles(b); }
    break_cycles(&la);
    match m2 {
        Err(_) => "err-second-export".into(),
        Ok(m2) => if norm_plib(&m1) == norm_plib(&m2) { "ok same".into() } else { "ok differs".into() },
    }
}

// ------------------------------------------------------------ oracle
fn norm_elem(e: &Sexp) -> String {
    // (e net ln pn shape) with rectangles normalised to (min,min,max,max)
    let v = e.list().unwrap();
    let sh = v[4].list().unwrap();
    if sh[0].atom() == Some("rect") {
        let c: Vec<i64> = sh[1..].iter().map(|x| x.int().unwrap()).collect();
        format!("(e {} {} {} (rect {} {} {} {}))", v[1], v[2], v[3], c[0].min(c[2]), c[1].min(c[3]), c[0].max(c[2]), c[1].max(c[3]))
    } else { e.to_string() }
}
fn norm_rlib(s: &Sexp) -> Vec<String> {
    // per cell canonical strings, cells sorted by name
    let v = s.list().unwrap();
    let mut cells = vec![];
    let start = if v.get(3).and_then(|x| x.list()).map(|x| x.get(0).and_then(|y| y.atom()) == Some("layers")).unwrap_or(false) { 4 } else { 3 };
    for c in &v[start..] {
        let cv = c.list().unwrap();
        let lay = if cv[2].atom() == Some("#f") { "#f".to_string() } else {
            let lv = cv[2].list().unwrap();
            let insts: Vec<String> = lv[2].list().unwrap()[1..].iter().map(|i| { let iv = i.list().unwrap(); format!("({} {} {} {} {} {})", iv[1], iv[2], iv[3], iv[4], iv[5], if iv[6].atom() == Some("#f") { "0".to_string() } else { iv[6].to_string() }) }).collect();
            let mut elems: Vec<String> = lv[3].list().unwrap()[1..].iter().map(norm_elem).collect();
            elems.sort();
            format!("(layout {} ({}) ({}) {})", lv[1], insts.join(" "), elems.join(" "), lv[4])
        };
        let abs = if cv[3].atom() == Some("#f") { "#f".to_string() } else {
            let av = cv[3].list().unwrap();
            let norm_map = |m: &Sexp| -> String { let mv = m.list().unwrap(); let mut ss: Vec<String> = mv[1..].iter().map(|sh| { let e = l(vec![a("e"), a("#f"), a("0"), a("0"), sh.clone()]); norm_elem(&e) }).collect(); ss.sort(); format!("({} {})", mv[0], ss.join(" ")) };
            let ports: Vec<String> = av[3].list().unwrap()[1..].iter().map(|p| { let pv = p.list().unwrap(); format!("(port {} {})", pv[1], pv[2..].iter().map(norm_map).collect::<Vec<_>>().join(" ")) }).collect();
            let blk: Vec<String> = av[4].list().unwrap()[1..].iter().map(norm_map).collect();
            format!("(abs {} {} ({}) ({}))", av[1], av[2], ports.join(" "), blk.join(" "))
        };
        cells.push(format!("(cell {} {} {})", cv[1], lay, abs));
    }
    cells.sort();
    let mut out = vec![format!("{} {}", v[1], v[2])];
    out.extend(cells);
    out
}
pub fn oracle(line: &str) -> String {
    let p = match Sexp::parse_all(line) { Some(p) if p.len() == 2 || p.len() == 3 => p, _ => return "na".into() };
    match p[0].atom().unwrap_or("") {
        "rawproto.export" => {
            let lib = match p_rlib(&p[1]) { Some(x) => x, None => return "na".into() };
            let res = std::panic::catch_unwind(std::panic::AssertUnwindSafe(|| lib.to_proto()));
            let out = (|| -> String {
                let pl = match res { Err(_) => return "fail export panicked".into(), Ok(Err(_)) => return "pass-err".into(), Ok(Ok(pl)) => pl };
                // exported cells list every cell after the cells it instantiates
                let mut seen: Vec<&str> = vec![];
                for c in &pl.cells {
                    if let Some(ly) = &c.layout { for i in &ly.instances { if let Some(putils::Reference { to: Some(putils::reference::To::Local(n)) }) = &i.cell { if !seen.contains(&n.as_str()) { return format!("fail exported cell {} listed before the cell {} it instantiates", c.name, n); } } } }
                    seen.push(&c.name);
                }
                let back = match std::panic::catch_unwind(std::panic::AssertUnwindSafe(|| raw::Library::from_proto(pl.clone(), None))) { Err(_) => return "fail import of exported message panicked".into(), Ok(Err(_)) => return "fail import of exported message failed".into(), Ok(Ok(b)) => b };
                let (n1, n2) = (norm_rlib(&rlib_s(&lib)), norm_rlib(&rlib_s(&back)));
                if n1 != n2 {
                    let k = n1.iter().zip(n2.iter()).position(|(x, y)| x != y).unwrap_or(0);
                    break_cycles(&back);
                    return format!("fail raw→proto→raw changed the library: {} vs {}", &n1.get(k).cloned().unwrap_or_default().chars().take(160).collect::<String>(), &n2.get(k).cloned().unwrap_or_default().chars().take(160).collect::<String>());
                }
                // conversely: the exported message converts to raw and back to an equal message
                let again = back.to_proto();
                break_cycles(&back);
                match again { Ok(p2) if plib_s(&p2) == plib_s(&pl) => "pass".into(), Ok(_) => "fail proto→raw→proto changed the message".into(), Err(_) => "fail re-export failed".into() }
            })();
            break_cycles(&lib);
            // an error is only acceptable when the library is outside the schema's subset
            if out == "pass-err" {
                let txt = p[1].to_string();
                let unsupported = txt.starts_with("(rlib") && (p[1].list().unwrap()[2].int() == Some(3) || crate::props::c14::has_cycle_or_missing(&p[1]));
                return if unsupported { "pass".into() } else { "fail export of a supported library failed".into() };
            }
            out
        }
        "rawproto.import" => {
            let pl = match p_plib(&p[1]) { Some(x) => x, None => return "na".into() };
            match std::panic::catch_unwind(std::panic::AssertUnwindSafe(|| raw::Library::from_proto(pl.clone(), None))) {
                Err(_) => "fail import panicked".into(),
                Ok(Ok(b)) => {
                    // "a protobuf library whose cells are listed before their users converts to raw and back to an equal
                    // message": equal up to the grouping of shapes by layer (the exporter emits one group per layer pair)
                    let again = std::panic::catch_unwind(std::panic::AssertUnwindSafe(|| b.to_proto()));
                    break_cycles(&b);
                    match again {
                        Err(_) => "fail re-export of an imported message panicked".into(),
                        Ok(Err(e)) => format!("fail an imported message does not convert back: {}", format!("{:?}", e).chars().take(120).collect::<String>()),
                        Ok(Ok(p2)) => {
                            let (n1, n2) = (norm_plib(&pl), norm_plib(&p2));
                            if n1 == n2 { "pass".into() } else {
                                let k = n1.iter().zip(n2.iter()).position(|(x, y)| x != y).unwrap_or(n1.len().min(n2.len()));
                                format!("fail proto→raw→proto changed the message: {} vs {}", n1.get(k).cloned().unwrap_or_default().chars().take(160).collect::<String>(), n2.get(k).cloned().unwrap_or_default().chars().take(160).collect::<String>())
                            }
                        }
                    }
                }
                Ok(Err(_)) => "pass".into(),
            }
        }
        "rawproto.seq" => {
            let res = crate::ops::run_line(line);
            if res == "ok same" || res.starts_with("na") { "pass".into() } else { format!("fail after another library was imported into the same layer set, the first library no longer converts as before ({})", res) }
        }
        _ => "na".into(),
    }
}
/// a message up to the grouping of shapes: per cell the instance and annotation sequences, and per view the sorted
/// multiset of (layer pair, shape) entries
fn norm_plib(p: &proto::Library) -> Vec<String> {
    fn shapes(groups: &[proto::LayerShapes]) -> Vec<String> {
        let mut v = vec![];
        for g in groups {
            let gs = ls_s(g);
            let gv = gs.list().unwrap();
            let layer = gv[1].to_string();
            for part in &gv[2..] { for item in &part.list().unwrap()[1..] { v.push(format!("{} {}", layer, item.to_string())); } }
        }
        v.sort();
        v
    }
    let full = plib_s(p);
    let fv = full.list().unwrap();
    let mut out = vec![format!("lib {} {}", fv[1].to_string(), fv[2].to_string())];
    for (c, cs) in p.cells.iter().zip(fv[3..].iter()) {
        out.push(format!("cell {}", String::from_utf8_lossy(c.name.as_bytes())));
        let cv = cs.list().unwrap();
        if let Some(ly) = &c.layout {
            let lv = cv[2].list().unwrap();
            out.push(format!("layout {} {} {}", lv[1].to_string(), lv[2].to_string(), lv[4].to_string()));
            out.push(format!("shapes {}", shapes(&ly.shapes).join(" ")));
        } else { out.push("no-layout".into()); }
        if let Some(ab) = &c.r#abstract {
            let av = cv[3].list().unwrap();
            out.push(format!("abstract {} {}", av[1].to_string(), av[2].to_string()));
            for pt in &ab.ports { out.push(format!("port {} {}", String::from_utf8_lossy(pt.net.as_bytes()), shapes(&pt.shapes).join(" "))); }
            out.push(format!("blockages {}", shapes(&ab.blockages).join(" ")));
        } else { out.push("no-abstract".into()); }
    }
    out
}
/// cyclic instance graph, or an abstract layer without the purpose export needs
pub fn has_cycle_or_missing(s: &Sexp) -> bool {
    let v = s.list().unwrap();
    let names: Vec<String> = v[4..].iter().map(|c| c.list().unwrap()[1].to_string()).collect();
    let adj: Vec<Vec<usize>> = v[4..].iter().map(|c| { let cv = c.list().unwrap(); if cv[2].atom() == Some("#f") { vec![] } else { cv[2].list().unwrap()[2].list().unwrap()[1..].iter().filter_map(|i| names.iter().position(|n| *n == i.list().unwrap()[2].to_string())).collect() } }).collect();
    let n = adj.len();
    let mut color = vec![0u8; n];
    fn dfs(x: usize, adj: &Vec<Vec<usize>>, color: &mut Vec<u8>) -> bool { color[x] = 1; for d in &adj[x] { if color[*d] == 1 || (color[*d] == 0 && dfs(*d, adj, color)) { return true; } } color[x] = 2; false }
    for i in 0..n { if color[i] == 0 && dfs(i, &adj, &mut color) { return true; } }
    // missing pin/obstruction purpose on a layer used by an abstract
    let rows: Vec<(i64, bool, bool)> = v[3].list().unwrap()[1..].iter().map(|r| { let r = r.list().unwrap(); (r[0].int().unwrap(), r[1].int().is_some(), r[2].int().is_some()) }).collect();
    for c in &v[4..] {
        let cv = c.list().unwrap();
        if cv[3].atom() == Some("#f") { continue; }
        let av = cv[3].list().unwrap();
        for port in &av[3].list().unwrap()[1..] { for m in &port.list().unwrap()[2..] { let ln = m.list().unwrap()[0].int().unwrap(); if !rows.iter().any(|r| r.0 == ln && r.1) { return true; } } }
        for m in &av[4].list().unwrap()[1..] { let ln = m.list().unwrap()[0].int().unwrap(); if !rows.iter().any(|r| r.0 == ln && r.2) { return true; } }
    }
    false
}
pub fn tag(line: &str) -> String {
    let p = match Sexp::parse_all(line) { Some(p) if p.len() == 2 => p, _ => return "-".into() };
    let op = p[0].atom().unwrap_or("").to_string();
    let n = p[1].list().map(|v| v.len().saturating_sub(if op.ends_with("export") { 4 } else { 3 })).unwrap_or(0);
    format!("{}:cells{}", op, n.min(5))
}

// ------------------------------------------------------------ generation
fn gen_shape(rng: &mut Rng) -> String {
    match rng.below(3) {
        0 => format!("(rect {} {} {} {})", rng.range(-50, 50), rng.range(-50, 50), rng.range(-50, 50), rng.range(-50, 50)),
        1 => {
            // vertex lists with repeated vertices too: explicitly closed (last = first), doubled vertex
            let mut v: Vec<String> = (0..3 + rng.below(3)).map(|_| format!("({} {})", rng.range(-50, 50), rng.range(-50, 50))).collect();
            match rng.below(6) { 0 => v.push(v[0].clone()), 1 => { let k = rng.below(v.len() as u64) as usize; v.insert(k, v[k].clone()) } _ => {} }
            format!("(polygon {})", v.join(" "))
        }
        _ => format!("(path {} {})", rng.below(9), (0..2 + rng.below(3)).map(|_| format!("({} {})", rng.range(-50, 50), rng.range(-50, 50))).collect::<Vec<_>>().join(" ")),
    }
}
pub fn gen_rlib(rng: &mut Rng, cyclic: bool) -> String {
    let n = 1 + rng.below(5) as usize;
    let tbl = crate::props::c17::random_graph(rng, n, cyclic);
    let layers: Vec<i64> = vec![1, 2, 7, 30];
    let layer_rows: Vec<String> = layers.iter().map(|l| format!("({} {} {})", l, if *l == 30 && rng.chance(1, 6) { "#f".to_string() } else { "100".to_string() }, "101")).collect();
    let mut order: Vec<usize> = (0..n).collect();
    for i in (1..n).rev() { let j = rng.below(i as u64 + 1) as usize; order.swap(i, j); }
    let mut cells = vec![];
    for &i in &order {
        let has_layout = !tbl[i].is_empty() || rng.chance(4, 5);
        let layout = if has_layout {
            let insts: Vec<String> = tbl[i].iter().enumerate().map(|(k, d)| format!("(i {} {} {} {} {} {})", of_bytes(format!("i{}", k).as_bytes()), of_bytes(format!("c{}", d).as_bytes()), rng.range(-100, 100), rng.range(-100, 100), if rng.coin() { "#t" } else { "#f" }, match rng.below(5) { 0 => "#f".to_string(), 1 => "0".to_string(), q => (90 * (q as i64 - 1)).to_string() })).collect();
            let elems: Vec<String> = (0..rng.below(7)).map(|_| format!("(e {} {} {} {})", if rng.coin() { "#f".to_string() } else { of_bytes(format!("net{}", rng.below(3)).as_bytes()).to_string() }, rng.pick(&layers), rng.below(3), gen_shape(rng))).collect();
            let ann: Vec<String> = (0..rng.below(3)).map(|k| format!("(a {} {} {})", of_bytes(format!("t{}", k).as_bytes()), rng.range(-9, 9), rng.range(-9, 9))).collect();
            // a quarter of the layout views carry a name of their own (the schema has a name on the cell AND on each view)
            let lname = if (i * 7 + n) % 4 == 1 { format!("c{}_layout_v2", i) } else { format!("c{}", i) };
            format!("(layout {} (insts {}) (elems {}) (annots {}))", of_bytes(lname.as_bytes()), insts.join(" "), elems.join(" "), ann.join(" ")).replace(" )", ")")
        } else { "#f".to_string() };
        let abs = if !has_layout || rng.chance(1, 3) {
            let mut used: Vec<i64> = vec![];
            let mut lm = |rng: &mut Rng, used: &mut Vec<i64>| -> String { let mut ls = layers.clone(); ls.retain(|l| !used.contains(l)); if ls.is_empty() { return String::new(); } let ln = *rng.pick(&ls); used.push(ln); format!("({} {})", ln, (0..1 + rng.below(3)).map(|_| gen_shape(rng)).collect::<Vec<_>>().join(" ")) };
            let ports: Vec<String> = (0..rng.below(4)).map(|k| { let mut u = vec![]; let mut ms: Vec<(i64, String)> = (0..1 + rng.below(3)).map(|_| lm(rng, &mut u)).filter(|s| !s.is_empty()).map(|s| (s[1..].split(' ').next().unwrap().parse().unwrap(), s)).collect(); ms.sort(); format!("(port {} {})", of_bytes(format!("p{}", k).as_bytes()), ms.into_iter().map(|x| x.1).collect::<Vec<_>>().join(" ")) }).collect();
            let mut bl: Vec<(i64, String)> = (0..rng.below(4)).map(|_| lm(rng, &mut used)).filter(|s| !s.is_empty()).map(|s| (s[1..].split(' ').next().unwrap().parse().unwrap(), s)).collect();
            bl.sort();
            let aname = if (i * 5 + n) % 4 == 2 { format!("c{}_abstract", i) } else { format!("c{}", i) };
            format!("(abs {} (outline (0 0) (10 0) (10 10) (0 10)) (ports {}) (blockages {}))", of_bytes(aname.as_bytes()), ports.join(" "), bl.into_iter().map(|x| x.1).collect::<Vec<_>>().join(" ")).replace(" )", ")")
        } else { "#f".to_string() };
        cells.push(format!("(cell {} {} {})", of_bytes(format!("c{}", i).as_bytes()), layout, abs));
    }
    format!("(rlib {} {} (layers {}) {})", of_bytes(b"lib"), if rng.chance(1, 12) { 3 } else { rng.below(3) }, layer_rows.join(" "), cells.join(" "))
}
/// pinned: abstracts of one library using two purpose numbers for one role (blockage / port) on one layer
pub const PINNED_PURPOSE_CONFLICTS: &[&str] = &[
    "rawproto.import (plib x6c6962 0 (pcell x6330 #f (pabs x6330 (pp x (0 0) (10 0) (10 10) (0 10)) (ports) (blockages (ls (2 101) (rects (pr x (0 0) 4 4)) (polys) (paths))))) (pcell x6331 #f (pabs x6331 (pp x (0 0) (10 0) (10 10) (0 10)) (ports) (blockages (ls (2 100) (rects (pr x (1 1) 2 2)) (polys) (paths))))))",
    "rawproto.import (plib x6c6962 0 (pcell x6330 #f (pabs x6330 (pp x (0 0) (10 0) (10 10) (0 10)) (ports (pport x70 (ls (2 100) (rects (pr x (0 0) 4 4)) (polys) (paths)))) (blockages))) (pcell x6331 #f (pabs x6331 (pp x (0 0) (10 0) (10 10) (0 10)) (ports (pport x70 (ls (2 7) (rects (pr x (1 1) 2 2)) (polys) (paths)))) (blockages))))",
    // control: port and blockage sharing ONE number on a layer converts back unchanged
    "rawproto.import (plib x6c6962 0 (pcell x6330 #f (pabs x6330 (pp x (0 0) (10 0) (10 10) (0 10)) (ports (pport x70 (ls (2 100) (rects (pr x (0 0) 4 4)) (polys) (paths)))) (blockages (ls (2 100) (rects (pr x (1 1) 2 2)) (polys) (paths))))))",
];
pub fn gen(thorough: bool, rng: &mut Rng, out: &mut Vec<String>) {
    for l in PINNED_PURPOSE_CONFLICTS { out.push(l.to_string()); }
    let n = if thorough { 40000 } else { 4000 };
    let mut prev_msg: Option<proto::Library> = None;
    for i in 0..n {
        let r = gen_rlib(rng, i % 11 == 3);
        out.push(format!("rawproto.export {}", r));
        // the exported message, and each mandatory sub-message removed / corrupted in turn
        if i % 2 == 0 {
            if let Some(lib) = Sexp::parse_all(&r).and_then(|v| p_rlib(&v[0])) {
                if let Ok(pl) = lib.to_proto() {
                    out.push(format!("rawproto.import {}", plib_s(&pl)));
                    // a sequence on one layer set: this message, with some of its layout shapes moved to the numbers abstracts
                    // use for pins and blockages, is imported first; the previous message (abstracts included) second
                    if i % 6 == 0 {
                        let mut pa = pl.clone();
                        for c in pa.cells.iter_mut() { if let Some(ly) = c.layout.as_mut() { for g in ly.shapes.iter_mut() { if let Some(l) = g.layer.as_mut() { if rng.coin() { l.purpose = [100, 101, 16][rng.below(3) as usize]; } } } } }
                        if let Some(prev) = &prev_msg { out.push(format!("rawproto.seq {} {}", plib_s(&pa), plib_s(prev))); }
                    }
                    prev_msg = Some(pl.clone());
                    let mut variants: Vec<proto::Library> = vec![];
                    let mut variants2: Vec<proto::Library> = vec![];
                    let mut p2 = pl.clone(); p2.cells.reverse(); variants.push(p2);
                    let mut p3 = pl.clone(); p3.units = [3, -1, 7][rng.below(3) as usize]; variants.push(p3);
                    for ci in 0..pl.cells.len() {
                        if let Some(ly) = &pl.cells[ci].layout {
                            if !ly.instances.is_empty() { let mut q = pl.clone(); let l2 = q.cells[ci].layout.as_mut().unwrap(); match rng.below(4) { 0 => l2.instances[0].cell = None, 1 => l2.instances[0].origin_location = None, 2 => l2.instances[0].cell = Some(putils::Reference { to: None }), _ => l2.instances[0].cell = Some(putils::Reference { to: Some(putils::reference::To::Local("nowhere".into())) }) }; variants.push(q); }
                            if !ly.shapes.is_empty() { let mut q = pl.clone(); let l2 = q.cells[ci].layout.as_mut().unwrap(); match rng.below(4) { 0 => l2.shapes[0].layer = None, 1 => l2.shapes[0].layer = Some(proto::Layer { number: 40000, purpose: 0 }), 2 => { if let Some(r) = l2.shapes[0].rectangles.get_mut(0) { r.lower_left = None } } _ => { if let Some(pa) = l2.shapes[0].paths.get_mut(0) { pa.width = -1 } } }; variants.push(q); }
                            if !ly.annotations.is_empty() { let mut q = pl.clone(); q.cells[ci].layout.as_mut().unwrap().annotations[0].loc = None; variants.push(q); }
                        }
                        if let Some(ab) = &pl.cells[ci].r#abstract {
                            let mut q = pl.clone(); let a2 = q.cells[ci].r#abstract.as_mut().unwrap();
                            match rng.below(3) { 0 => a2.outline = None, 1 => { if let Some(b) = a2.blockages.get_mut(0) { b.layer = None } } _ => { if let Some(pp) = a2.ports.get_mut(0) { if let Some(s) = pp.shapes.get_mut(0) { s.layer = Some(proto::Layer { number: 1, purpose: 70000 }) } } } }
                            let _ = ab; variants.push(q);
                        }
                    }
                    // purpose numbers shared between views: a layout shape on the (layer, purpose) pair an abstract's port or
                    // blockage uses (in the same cell, an earlier or a later one), ports and blockages on one pair
                    {
                        let pairs: Vec<proto::Layer> = pl.cells.iter().filter_map(|c| c.r#abstract.as_ref()).flat_map(|a| a.ports.iter().flat_map(|p| p.shapes.iter()).chain(a.blockages.iter()).filter_map(|s| s.layer.clone())).collect();
                        if !pairs.is_empty() {
                            let pick = pairs[rng.below(pairs.len() as u64) as usize].clone();
                            let mut q = pl.clone();
                            let mut hit = false;
                            for c in q.cells.iter_mut() { if let Some(ly) = c.layout.as_mut() { for sh in ly.shapes.iter_mut() { if !hit || rng.coin() { if sh.layer.as_ref().map(|l| l.number) == Some(pick.number) || rng.chance(1, 3) { sh.layer = Some(pick.clone()); hit = true; } } } } }
                            if hit { variants2.push(q); }
                            // every blockage of the library on the purpose number the ports use (one number per role and layer
                            // throughout: two numbers for one role on one layer is the pinned known finding c14-abstract-purpose-*)
                            let pp: Option<i64> = pl.cells.iter().filter_map(|c| c.r#abstract.as_ref()).flat_map(|a| a.ports.iter().flat_map(|p| p.shapes.iter())).filter_map(|s| s.layer.as_ref().map(|l| l.purpose)).next();
                            let mut q = pl.clone();
                            let mut hit = false;
                            if let Some(pp) = pp { for c in q.cells.iter_mut() { if let Some(a) = c.r#abstract.as_mut() { for b in a.blockages.iter_mut() { if let Some(l) = b.layer.as_mut() { l.purpose = pp; hit = true; } } } } }
                            if hit { variants2.push(q); }
                        }
                    }
                    for v in variants { out.push(format!("rawproto.import {}", plib_s(&v))); }
                    for v in variants2 { out.push(format!("rawproto.import {}", plib_s(&v))); }
                }
                break_cycles(&lib);
            }
        }
    }
}
