//! C19: gridded-layout libraries survive the trip through their protobuf schema.
//! Ops (model: all three):
//!   tproto.export <tlib>   -> ok <plib> | err        ProtoExporter::export on a real tetris Library
//!   tproto.import <plib>   -> ok <tlib> | err        ProtoLibImporter::import on a real protobuf message
//!   tproto.rt <tlib>       -> ok <tlib> | err | err-import      export, then import
//! Formats: see lean/L21/Driver/TProtoIO.lean. Strings are `x<hex>`; instance targets are indices.
use crate::rng::Rng;
use crate::sexp::*;
use layout21protos::tetris as tp;
use layout21tetris as t;
use layout21utils::Ptr;

// ---------------------------------------------------------------- plain data mirror of the s-expressions
#[derive(Clone, Debug, PartialEq)]
pub struct Inst { pub name: String, pub cell: usize, pub x: i64, pub y: i64, pub rh: bool, pub rv: bool }
#[derive(Clone, Debug, PartialEq)]
pub struct Lay { pub name: String, pub ox: Vec<i64>, pub oy: Vec<i64>, pub metals: usize, pub insts: Vec<Inst>, pub assigns: Vec<(String, [usize; 4])>, pub cuts: Vec<[usize; 4]> }
#[derive(Clone, Debug, PartialEq)]
pub struct Abs { pub name: String, pub ox: Vec<i64>, pub oy: Vec<i64>, pub metals: usize }
#[derive(Clone, Debug, PartialEq)]
pub struct Cell { pub name: String, pub lay: Option<Lay>, pub abs: Option<Abs> }
#[derive(Clone, Debug, PartialEq)]
pub struct TLib { pub name: String, pub cells: Vec<Cell>, pub items: Vec<usize> }

fn s_str(s: &str) -> Sexp { of_bytes(s.as_bytes()) }
fn p_str(s: &Sexp) -> Option<String> { String::from_utf8(s.bytes()?).ok() }
fn ints(v: &[i64]) -> Sexp { l(v.iter().map(|i| of_int(*i)).collect()) }
fn p_ints(s: &Sexp) -> Option<Vec<i64>> { s.list()?.iter().map(|a| a.int()).collect() }
fn tagged<'a>(s: &'a Sexp, tag: &str) -> Option<&'a [Sexp]> {
    let l = s.list()?;
    if l.first()?.atom()? == tag { Some(&l[1..]) } else { None }
}
fn is_f(s: &Sexp) -> bool { s.atom() == Some("#f") }

pub fn tlib_s(lib: &TLib) -> Sexp {
    let cross = |c: &[usize; 4]| c.iter().map(|i| of_int(*i as i64)).collect::<Vec<_>>();
    let cells = lib.cells.iter().map(|c| {
        let lay = match &c.lay {
            None => a("#f"),
            Some(ly) => l(vec![a("lay"), s_str(&ly.name), ints(&ly.ox), ints(&ly.oy), of_int(ly.metals as i64),
                l(std::iter::once(a("insts")).chain(ly.insts.iter().map(|i| l(vec![a("inst"), s_str(&i.name), of_int(i.cell as i64), of_int(i.x), of_int(i.y), of_bool(i.rh), of_bool(i.rv)]))).collect()),
                l(std::iter::once(a("assigns")).chain(ly.assigns.iter().map(|(n, c)| l(std::iter::once(s_str(n)).chain(cross(c)).collect()))).collect()),
                l(std::iter::once(a("cuts")).chain(ly.cuts.iter().map(|c| l(cross(c)))).collect())]),
        };
        let abs = match &c.abs { None => a("#f"), Some(ab) => l(vec![a("abs"), s_str(&ab.name), ints(&ab.ox), ints(&ab.oy), of_int(ab.metals as i64)]) };
        l(vec![a("cell"), s_str(&c.name), lay, abs])
    });
    l(vec![a("tlib"), s_str(&lib.name), l(std::iter::once(a("cells")).chain(cells).collect()), l(std::iter::once(a("items")).chain(lib.items.iter().map(|i| of_int(*i as i64))).collect())])
}
fn p_cross(v: &[Sexp]) -> Option<[usize; 4]> {
    if v.len() != 4 { return None; }
    let mut o = [0usize; 4];
    for (i, s) in v.iter().enumerate() { o[i] = usize::try_from(s.int()?).ok()?; }
    Some(o)
}
pub fn p_tlib(s: &Sexp) -> Option<TLib> {
    let b = tagged(s, "tlib")?;
    let name = p_str(b.get(0)?)?;
    let mut cells = vec![];
    for c in tagged(b.get(1)?, "cells")? {
        let cb = tagged(c, "cell")?;
        let lay = if is_f(cb.get(1)?) { None } else {
            let lb = tagged(cb.get(1)?, "lay")?;
            let mut insts = vec![];
            for i in tagged(lb.get(4)?, "insts")? {
                let ib = tagged(i, "inst")?;
                insts.push(Inst { name: p_str(ib.get(0)?)?, cell: usize::try_from(ib.get(1)?.int()?).ok()?, x: ib.get(2)?.int()?, y: ib.get(3)?.int()?, rh: ib.get(4)?.boolean()?, rv: ib.get(5)?.boolean()? });
            }
            let mut assigns = vec![];
            for x in tagged(lb.get(5)?, "assigns")? { let xl = x.list()?; assigns.push((p_str(xl.get(0)?)?, p_cross(&xl[1..])?)); }
            let mut cuts = vec![];
            for x in tagged(lb.get(6)?, "cuts")? { cuts.push(p_cross(x.list()?)?); }
            Some(Lay { name: p_str(lb.get(0)?)?, ox: p_ints(lb.get(1)?)?, oy: p_ints(lb.get(2)?)?, metals: usize::try_from(lb.get(3)?.int()?).ok()?, insts, assigns, cuts })
        };
        let abs = if is_f(cb.get(2)?) { None } else {
            let ab = tagged(cb.get(2)?, "abs")?;
            Some(Abs { name: p_str(ab.get(0)?)?, ox: p_ints(ab.get(1)?)?, oy: p_ints(ab.get(2)?)?, metals: usize::try_from(ab.get(3)?.int()?).ok()? })
        };
        cells.push(Cell { name: p_str(cb.get(0)?)?, lay, abs });
    }
    let items = tagged(b.get(2)?, "items")?.iter().map(|i| i.int().and_then(|i| usize::try_from(i).ok())).collect::<Option<Vec<_>>>()?;
    Some(TLib { name, cells, items })
}

// ---------------------------------------------------------------- real structures
fn outline(x: &[i64], y: &[i64]) -> Option<t::outline::Outline> {
    let xs: Vec<isize> = x.iter().map(|v| *v as isize).collect();
    let ys: Vec<isize> = y.iter().map(|v| *v as isize).collect();
    t::outline::Outline::new(&xs, &ys).ok()
}
/// build the real library; `None` when the description is not a well-formed tetris library
/// (invalid outline, instance target out of the table)
pub fn build(lib: &TLib) -> Option<(t::library::Library, Vec<Ptr<t::cell::Cell>>)> {
    let mut ptrs: Vec<Ptr<t::cell::Cell>> = vec![];
    for c in &lib.cells {
        let mut cell = t::cell::Cell::new(c.name.clone());
        if let Some(ly) = &c.lay {
            let mut lay = t::layout::Layout::new(ly.name.clone(), ly.metals, outline(&ly.ox, &ly.oy)?);
            for (n, c) in &ly.assigns { lay.assignments.push(t::stack::Assign::new(n.clone(), t::tracks::TrackCross::from_parts(c[0], c[1], c[2], c[3]))); }
            for c in &ly.cuts { lay.cuts.push(t::tracks::TrackCross::from_parts(c[0], c[1], c[2], c[3])); }
            cell.layout = Some(lay);
        }
        if let Some(ab) = &c.abs { cell.abs = Some(t::abs::Abstract::new(ab.name.clone(), ab.metals, outline(&ab.ox, &ab.oy)?)); }
        ptrs.push(Ptr::new(cell));
    }
    for (ci, c) in lib.cells.iter().enumerate() {
        if let Some(ly) = &c.lay {
            let mut w = ptrs[ci].write().ok()?;
            let lay = w.layout.as_mut()?;
            for i in &ly.insts {
                let target = ptrs.get(i.cell)?.clone();
                lay.instances.add(t::instance::Instance { inst_name: i.name.clone(), cell: target, loc: (i.x as isize, i.y as isize).into(), reflect_horiz: i.rh, reflect_vert: i.rv });
            }
        }
    }
    let mut rl = t::library::Library::new(lib.name.clone());
    for i in &lib.items { rl.cells.push(ptrs.get(*i)?.clone()); }
    Some((rl, ptrs))
}
/// break reference cycles so the cells are freed
fn teardown(ptrs: &[Ptr<t::cell::Cell>]) { for p in ptrs { if let Ok(mut w) = p.write() { w.layout = None; } } }

/// real library -> plain mirror; instance targets are positions in `lib.cells` (by pointer identity)
pub fn mirror(lib: &t::library::Library) -> Option<TLib> {
    let mut cells = vec![];
    for p in lib.cells.iter() {
        let c = p.read().ok()?;
        let lay = match &c.layout {
            None => None,
            Some(ly) => {
                let mut insts = vec![];
                for ip in ly.instances.iter() {
                    let i = ip.read().ok()?;
                    let pos = lib.cells.iter().position(|q| *q == i.cell)?;
                    let loc = i.loc.abs().ok()?;
                    insts.push(Inst { name: i.inst_name.clone(), cell: pos, x: loc.x.raw() as i64, y: loc.y.raw() as i64, rh: i.reflect_horiz, rv: i.reflect_vert });
                }
                let cr = |c: &t::tracks::TrackCross| [c.track.layer, c.track.track, c.cross.layer, c.cross.track];
                Some(Lay { name: ly.name.clone(), ox: ly.outline.x.iter().map(|v| v.raw() as i64).collect(), oy: ly.outline.y.iter().map(|v| v.raw() as i64).collect(), metals: ly.metals,
                    insts, assigns: ly.assignments.iter().map(|a| (a.net.clone(), cr(&a.at))).collect(), cuts: ly.cuts.iter().map(cr).collect() })
            }
        };
        let abs = c.abs.as_ref().map(|ab| Abs { name: ab.name.clone(), ox: ab.outline.x.iter().map(|v| v.raw() as i64).collect(), oy: ab.outline.y.iter().map(|v| v.raw() as i64).collect(), metals: ab.metals });
        cells.push(Cell { name: c.name.clone(), lay, abs });
    }
    let n = cells.len();
    Some(TLib { name: lib.name.clone(), cells, items: (0..n).collect() })
}
use t::coords::HasUnits;

// ---------------------------------------------------------------- protobuf <-> s-expression
fn pref_s(r: &Option<tp::TrackRef>) -> Sexp { match r { None => a("#f"), Some(r) => l(vec![of_int(r.layer), of_int(r.track)]) } }
fn pcross_s(c: &Option<tp::TrackCross>) -> Sexp { match c { None => a("#f"), Some(c) => l(vec![a("pc"), pref_s(&c.track), pref_s(&c.cross)]) } }
fn pout_s(o: &Option<tp::Outline>) -> Sexp { match o { None => a("#f"), Some(o) => l(vec![a("po"), ints(&o.x), ints(&o.y), of_int(o.metals)]) } }
pub fn plib_s(p: &tp::Library) -> Sexp {
    use layout21protos::utils::reference::To;
    let mut v = vec![a("plib"), s_str(&p.domain)];
    for c in &p.cells {
        let lay = match &c.layout {
            None => a("#f"),
            Some(ly) => {
                let insts = ly.instances.iter().map(|i| {
                    let cell = match &i.cell { None => a("#f"), Some(r) => match &r.to { None => a("none"), Some(To::Local(n)) => l(vec![a("local"), s_str(n)]), Some(To::External(_)) => a("ext") } };
                    let loc = match &i.loc { None => a("#f"), Some(pl) => match &pl.place { None => a("none"), Some(tp::place::Place::Abs(p)) => l(vec![a("abs"), of_int(p.x), of_int(p.y)]), Some(tp::place::Place::Rel(_)) => a("rel") } };
                    l(vec![a("pinst"), s_str(&i.name), cell, of_bool(i.reflect_horiz), of_bool(i.reflect_vert), loc])
                });
                l(vec![a("play"), s_str(&ly.name), pout_s(&ly.outline),
                    l(std::iter::once(a("pinsts")).chain(insts).collect()),
                    l(std::iter::once(a("passigns")).chain(ly.assignments.iter().map(|x| l(vec![a("pa"), s_str(&x.net), pcross_s(&x.at)]))).collect()),
                    l(std::iter::once(a("pcuts")).chain(ly.cuts.iter().map(|x| pcross_s(&Some(x.clone())))).collect())])
            }
        };
        let abs = match &c.r#abstract { None => a("#f"), Some(ab) => l(vec![a("pabs"), s_str(&ab.name), pout_s(&ab.outline)]) };
        v.push(l(vec![a("pcell"), s_str(&c.name), lay, abs]));
    }
    l(v)
}
fn p_pref(s: &Sexp) -> Option<Option<tp::TrackRef>> { if is_f(s) { return Some(None); } let v = s.list()?; Some(Some(tp::TrackRef { layer: v.get(0)?.int()?, track: v.get(1)?.int()? })) }
fn p_pcross(s: &Sexp) -> Option<Option<tp::TrackCross>> { if is_f(s) { return Some(None); } let b = tagged(s, "pc")?; Some(Some(tp::TrackCross { track: p_pref(b.get(0)?)?, cross: p_pref(b.get(1)?)? })) }
fn p_pout(s: &Sexp) -> Option<Option<tp::Outline>> { if is_f(s) { return Some(None); } let b = tagged(s, "po")?; Some(Some(tp::Outline { x: p_ints(b.get(0)?)?, y: p_ints(b.get(1)?)?, metals: b.get(2)?.int()? })) }
pub fn p_plib(s: &Sexp) -> Option<tp::Library> {
    use layout21protos::utils::{reference::To, Reference};
    let b = tagged(s, "plib")?;
    let mut lib = tp::Library::default();
    lib.domain = p_str(b.get(0)?)?;
    for c in &b[1..] {
        let cb = tagged(c, "pcell")?;
        let mut cell = tp::Cell::default();
        cell.name = p_str(cb.get(0)?)?;
        if !is_f(cb.get(1)?) {
            let lb = tagged(cb.get(1)?, "play")?;
            let mut lay = tp::Layout::default();
            lay.name = p_str(lb.get(0)?)?;
            lay.outline = p_pout(lb.get(1)?)?;
            for i in tagged(lb.get(2)?, "pinsts")? {
                let ib = tagged(i, "pinst")?;
                let cellref = match ib.get(1)? {
                    s if is_f(s) => None,
                    s if s.atom() == Some("none") => Some(Reference { to: None }),
                    s if s.atom() == Some("ext") => Some(Reference { to: Some(To::External(Default::default())) }),
                    s => Some(Reference { to: Some(To::Local(p_str(tagged(s, "local")?.get(0)?)?)) }),
                };
                let loc = match ib.get(4)? {
                    s if is_f(s) => None,
                    s if s.atom() == Some("none") => Some(tp::Place { place: None }),
                    s if s.atom() == Some("rel") => Some(tp::Place { place: Some(tp::place::Place::Rel(Default::default())) }),
                    s => { let pb = tagged(s, "abs")?; Some(tp::Place { place: Some(tp::place::Place::Abs(layout21protos::raw::Point::new(pb.get(0)?.int()?, pb.get(1)?.int()?))) }) }
                };
                lay.instances.push(tp::Instance { name: p_str(ib.get(0)?)?, cell: cellref, loc, reflect_horiz: ib.get(2)?.boolean()?, reflect_vert: ib.get(3)?.boolean()? });
            }
            for x in tagged(lb.get(3)?, "passigns")? { let xb = tagged(x, "pa")?; lay.assignments.push(tp::Assign { net: p_str(xb.get(0)?)?, at: p_pcross(xb.get(1)?)? }); }
            for x in tagged(lb.get(4)?, "pcuts")? { lay.cuts.push(p_pcross(x)??); }
            cell.layout = Some(lay);
        }
        if !is_f(cb.get(2)?) {
            let ab = tagged(cb.get(2)?, "pabs")?;
            let mut abs = tp::Abstract::default();
            abs.name = p_str(ab.get(0)?)?;
            abs.outline = p_pout(ab.get(1)?)?;
            cell.r#abstract = Some(abs);
        }
        lib.cells.push(cell);
    }
    Some(lib)
}

// ---------------------------------------------------------------- ops
fn export_real(lib: &TLib) -> Result<tp::Library, String> {
    let (rl, ptrs) = build(lib).ok_or_else(|| "bad-op".to_string())?;
    let r = t::conv::proto::ProtoExporter::export(&rl).map_err(|_| "err".to_string());
    teardown(&ptrs);
    r
}
fn import_real(p: &tp::Library) -> Result<TLib, String> {
    let lib = t::conv::proto::ProtoLibImporter::import(p).map_err(|_| "err".to_string())?;
    let m = mirror(&lib).ok_or_else(|| "err-mirror".to_string());
    let ptrs: Vec<_> = lib.cells.iter().cloned().collect();
    teardown(&ptrs);
    m
}
/// history variant `tproto.export <tlib> <earlier tlib>`: the real library is first built with the EARLIER instance lists
/// and exported (also ordered / placed: everything that might remember something), then the SAME cells get the final
/// instance lists in place — the library's cell list is untouched — and the library is exported again
fn export_after_edit(lib: &TLib, earlier: &TLib) -> Result<tp::Library, String> {
    if earlier.cells.len() != lib.cells.len() || earlier.items != lib.items { return Err("bad-op".into()); }
    let (rl, ptrs) = build(earlier).ok_or_else(|| "bad-op".to_string())?;
    let _ = t::conv::proto::ProtoExporter::export(&rl);
    let _ = rl.dep_order();
    for (ci, c) in lib.cells.iter().enumerate() {
        let mut w = ptrs[ci].write().map_err(|_| "bad-op".to_string())?;
        match (&c.lay, w.layout.as_mut()) {
            (Some(ly), Some(lay)) => {
                lay.instances = Default::default();
                for i in &ly.insts {
                    let target = ptrs.get(i.cell).ok_or_else(|| "bad-op".to_string())?.clone();
                    lay.instances.add(t::instance::Instance { inst_name: i.name.clone(), cell: target, loc: (i.x as isize, i.y as isize).into(), reflect_horiz: i.rh, reflect_vert: i.rv });
                }
            }
            (None, None) => {}
            _ => return Err("bad-op".into()),
        }
    }
    let r = t::conv::proto::ProtoExporter::export(&rl).map_err(|_| "err".to_string());
    teardown(&ptrs);
    r
}
pub fn op_export(args: &[Sexp]) -> String {
    let lib = match args.get(0).and_then(p_tlib) { Some(l) => l, None => return "bad-op".into() };
    if let Some(e) = args.get(1) {
        let earlier = match p_tlib(e) { Some(l) => l, None => return "bad-op".into() };
        return match export_after_edit(&lib, &earlier) { Ok(p) => format!("ok {}", plib_s(&p)), Err(e) => e };
    }
    match export_real(&lib) { Ok(p) => format!("ok {}", plib_s(&p)), Err(e) => e }
}
pub fn op_import(args: &[Sexp]) -> String {
    let p = match args.get(0).and_then(p_plib) { Some(p) => p, None => return "bad-op".into() };
    match import_real(&p) { Ok(l) => format!("ok {}", tlib_s(&l)), Err(e) => e }
}
pub fn op_rt(args: &[Sexp]) -> String {
    let lib = match args.get(0).and_then(p_tlib) { Some(l) => l, None => return "bad-op".into() };
    let p = match export_real(&lib) { Ok(p) => p, Err(e) => return e };
    match import_real(&p) { Ok(l) => format!("ok {}", tlib_s(&l)), Err(_) => "err-import".into() }
}

// ---------------------------------------------------------------- oracle
/// what the property says must survive, with instance targets by NAME
fn view(lib: &TLib, ci: usize) -> String {
    let c = &lib.cells[ci];
    let lay = c.lay.as_ref().map(|ly| {
        let insts: Vec<String> = ly.insts.iter().map(|i| format!("{}->{}@{},{}:{}{}", i.name, lib.cells.get(i.cell).map(|c| c.name.clone()).unwrap_or_default(), i.x, i.y, i.rh, i.rv)).collect();
        format!("{:?} {:?} {} {:?} {:?} {:?}", ly.ox, ly.oy, ly.metals, insts, ly.assigns, ly.cuts)
    });
    format!("{} {:?}", c.name, lay)
}
fn reachable(lib: &TLib) -> Vec<usize> {
    let mut seen = vec![false; lib.cells.len()];
    let mut stack: Vec<usize> = lib.items.clone();
    while let Some(i) = stack.pop() {
        if i >= seen.len() || seen[i] { continue; }
        seen[i] = true;
        if let Some(ly) = &lib.cells[i].lay { for x in &ly.insts { stack.push(x.cell); } }
    }
    (0..seen.len()).filter(|i| seen[*i]).collect()
}
fn has_cycle(lib: &TLib) -> bool {
    // colour DFS
    fn go(lib: &TLib, i: usize, col: &mut Vec<u8>) -> bool {
        if col[i] == 1 { return true; }
        if col[i] == 2 { return false; }
        col[i] = 1;
        if let Some(ly) = &lib.cells[i].lay { for x in &ly.insts { if go(lib, x.cell, col) { return true; } } }
        col[i] = 2;
        false
    }
    let mut col = vec![0u8; lib.cells.len()];
    lib.items.iter().any(|i| go(lib, *i, &mut col))
}
pub fn oracle(line: &str) -> String {
    let p = match Sexp::parse_all(line) { Some(p) if p.len() >= 2 => p, _ => return "na".into() };
    let res = crate::ops::run_line(line);
    if res == "panic" { return "fail the conversion panicked instead of reporting an error".into(); }
    match p[0].atom().unwrap_or("") {
        "tproto.rt" => {
            let lib = match p_tlib(&p[1]) { Some(l) => l, None => return "na".into() };
            if build(&lib).map(|(_, ptrs)| teardown(&ptrs)).is_none() { return "na".into(); }
            let reach = reachable(&lib);
            let mut names: Vec<&String> = reach.iter().map(|i| &lib.cells[*i].name).collect();
            names.sort();
            let distinct = names.windows(2).all(|w| w[0] != w[1]);
            if has_cycle(&lib) { return if res == "err" { "pass".into() } else { format!("fail a cyclic library was exported: {}", &res[..res.len().min(80)]) }; }
            if !distinct { return "na".into(); } // cell names are the protobuf's only cell identity
            let l2 = match res.strip_prefix("ok ").and_then(|s| Sexp::parse_all(s)).and_then(|v| v.get(0).and_then(p_tlib)) { Some(l) => l, None => return format!("fail a placed library did not survive: {}", &res[..res.len().min(80)]) };
            if l2.name != lib.name { return "fail library name changed".into(); }
            let mut want: Vec<String> = reach.iter().map(|i| view(&lib, *i)).collect();
            let mut got: Vec<String> = (0..l2.cells.len()).map(|i| view(&l2, i)).collect();
            // dependencies first
            for (ci, c) in l2.cells.iter().enumerate() { if let Some(ly) = &c.lay { for i in &ly.insts { if i.cell >= ci { return format!("fail cell {} is imported before the cell it instantiates", c.name); } } } }
            want.sort(); got.sort();
            if want != got {
                let d = want.iter().zip(got.iter()).find(|(a, b)| a != b).map(|(a, b)| format!("want {} got {}", a, b)).unwrap_or_else(|| format!("{} cells wanted, {} got", want.len(), got.len()));
                return format!("fail cell content changed: {}", &d[..d.len().min(400)]);
            }
            "pass".into()
        }
        "tproto.import" => {
            // mandatory sub-message missing / undefined cell / relative or external reference / invalid
            // outline / negative index => an error, never a crash; anything else is imported
            let pl = match p_plib(&p[1]) { Some(x) => x, None => return "na".into() };
            let want_ok = expect_import_ok(&pl);
            match (want_ok, res.starts_with("ok "), res == "err") {
                (true, true, _) | (false, _, true) => "pass".into(),
                (true, _, _) => format!("fail a well-formed protobuf library was rejected: {}", res),
                (false, _, _) => format!("fail a malformed protobuf library was accepted: {}", &res[..res.len().min(120)]),
            }
        }
        "tproto.export" => if res.starts_with("ok ") || res == "err" { "pass".into() } else { format!("fail {}", res) },
        _ => "na".into(),
    }
}
fn outline_ok(o: &Option<tp::Outline>) -> bool {
    match o {
        None => false,
        Some(o) => o.metals >= 0 && !o.x.is_empty() && o.x.len() == o.y.len() && o.x.iter().all(|v| *v >= 0) && o.y.iter().all(|v| *v >= 0)
            && o.x.windows(2).all(|w| w[1] <= w[0]) && o.y.windows(2).all(|w| w[1] >= w[0]),
    }
}
fn expect_import_ok(p: &tp::Library) -> bool {
    use layout21protos::utils::reference::To;
    let mut defined: std::collections::HashSet<&str> = Default::default();
    let cross_ok = |c: &Option<tp::TrackCross>| match c { Some(c) => matches!((&c.track, &c.cross), (Some(a), Some(b)) if a.layer >= 0 && a.track >= 0 && b.layer >= 0 && b.track >= 0), None => false };
    for c in &p.cells {
        if let Some(ly) = &c.layout {
            if !outline_ok(&ly.outline) { return false; }
            for i in &ly.instances {
                match i.cell.as_ref().and_then(|r| r.to.as_ref()) { Some(To::Local(n)) if defined.contains(n.as_str()) => {} _ => return false }
                match i.loc.as_ref().and_then(|l| l.place.as_ref()) { Some(tp::place::Place::Abs(_)) => {} _ => return false }
            }
            if !ly.assignments.iter().all(|a| cross_ok(&a.at)) { return false; }
            if !ly.cuts.iter().all(|c| cross_ok(&Some(c.clone()))) { return false; }
        }
        if let Some(ab) = &c.r#abstract { if !outline_ok(&ab.outline) { return false; } }
        defined.insert(c.name.as_str());
    }
    true
}
pub fn tag(line: &str) -> String {
    let op = line.split(' ').next().unwrap_or("-");
    let r = crate::ops::run_line(line);
    let cls = r.split(' ').next().unwrap_or("-").to_string();
    let feats = [("(inst ", "insts"), ("(pinst ", "insts"), ("(abs ", "abs"), ("(pabs ", "abs"), (" #f (pinsts", "no-outline"), (" rel)", "rel"), (" none", "none"), (" ext ", "ext")].iter().filter(|(k, _)| line.contains(k)).map(|(_, t)| *t).collect::<Vec<_>>();
    format!("{}:{}:{}", op, cls, if feats.is_empty() { "plain".to_string() } else { feats.join("+") })
}

// ---------------------------------------------------------------- generator
fn gen_outline(rng: &mut Rng, bad: bool) -> (Vec<i64>, Vec<i64>) {
    let n = 1 + rng.below(4) as usize;
    let mut x: Vec<i64> = (0..n).map(|_| rng.range(0, 12)).collect();
    let mut y: Vec<i64> = (0..n).map(|_| rng.range(0, 12)).collect();
    x.sort(); x.reverse();
    y.sort();
    if bad {
        match rng.below(4) { 0 => { x.push(99); } 1 => { y.insert(0, 50); y.push(1) } 2 => { x[0] = -1; } _ => { y.pop(); } }
    }
    (x, y)
}
fn cell_name(rng: &mut Rng, i: usize) -> String {
    match rng.below(8) { 0 => format!("c{}", i), 1 => format!("cell é {}", i), 2 => format!("{}", i), _ => format!("c{}_{}", i, rng.below(3)) }
}
pub fn gen_tlib(rng: &mut Rng) -> TLib {
    let n = 1 + rng.below(6) as usize;
    // a random permutation gives the topological rank: cell i may instantiate only cells of lower rank
    let mut rank: Vec<usize> = (0..n).collect();
    for i in (1..n).rev() { let j = rng.below(i as u64 + 1) as usize; rank.swap(i, j); }
    let cyclic = rng.chance(1, 12);
    let dup_names = rng.chance(1, 15);
    let mut cells = vec![];
    for i in 0..n {
        let lower: Vec<usize> = (0..n).filter(|j| rank[*j] < rank[i]).collect();
        let lay = if rng.chance(5, 6) {
            let bad = false; // malformed outlines cannot be built as tetris values; they are injected into the protobuf instead
            let (ox, oy) = gen_outline(rng, bad);
            let mut insts = vec![];
            if !lower.is_empty() || cyclic {
                for k in 0..rng.below(4) {
                    let target = if cyclic && rng.chance(1, 3) { rng.below(n as u64) as usize } else if lower.is_empty() { continue } else { *rng.pick(&lower) };
                    insts.push(Inst { name: format!("i{}", k), cell: target, x: rng.range(-5, 20), y: rng.range(-5, 20), rh: rng.coin(), rv: rng.coin() });
                }
            }
            let tc = |rng: &mut Rng| [rng.below(4) as usize, rng.below(30) as usize, rng.below(4) as usize, rng.below(30) as usize];
            Some(Lay { name: if rng.coin() { format!("lay{}", i) } else { String::new() }, ox, oy, metals: rng.below(5) as usize, insts,
                assigns: (0..rng.below(3)).map(|_| (["vdd", "a", "net é", ""][rng.below(4) as usize].to_string(), tc(rng))).collect(), cuts: (0..rng.below(3)).map(|_| tc(rng)).collect() })
        } else { None };
        let abs = if rng.chance(1, 4) { let (ox, oy) = gen_outline(rng, false); Some(Abs { name: format!("abs{}", i), ox, oy, metals: rng.below(4) as usize }) } else { None };
        cells.push(Cell { name: if dup_names && i > 0 && rng.coin() { "dup".to_string() } else { cell_name(rng, i) }, lay, abs });
    }
    // the library lists its cells in any order, possibly leaving some out (they are still exported when instantiated)
    let mut items: Vec<usize> = (0..n).collect();
    for i in (1..n).rev() { let j = rng.below(i as u64 + 1) as usize; items.swap(i, j); }
    if rng.chance(1, 5) { items.truncate(1 + rng.below(n as u64) as usize); }
    TLib { name: ["lib", "", "lib é"][rng.below(3) as usize].to_string(), cells, items }
}
/// every single removal / replacement of a mandatory sub-message, in turn
fn faults(p: &tp::Library) -> Vec<tp::Library> {
    use layout21protos::utils::{reference::To, Reference};
    let mut out = vec![];
    for (ci, c) in p.cells.iter().enumerate() {
        if let Some(ly) = &c.layout {
            let mut m = p.clone(); m.cells[ci].layout.as_mut().unwrap().outline = None; out.push(m);
            let mut m = p.clone(); m.cells[ci].layout.as_mut().unwrap().outline.as_mut().unwrap().metals = -1; out.push(m);
            let mut m = p.clone(); m.cells[ci].layout.as_mut().unwrap().outline.as_mut().unwrap().x.push(99); out.push(m);
            let mut m = p.clone(); m.cells[ci].layout.as_mut().unwrap().outline.as_mut().unwrap().y.insert(0, 77); out.push(m);
            let mut m = p.clone(); m.cells[ci].layout.as_mut().unwrap().outline.as_mut().unwrap().x[0] = -1; out.push(m);
            let mut m = p.clone(); { let o = m.cells[ci].layout.as_mut().unwrap().outline.as_mut().unwrap(); o.x.clear(); o.y.clear(); } out.push(m);
            for ii in 0..ly.instances.len() {
                for f in 0..7 {
                    let mut m = p.clone();
                    let inst = &mut m.cells[ci].layout.as_mut().unwrap().instances[ii];
                    match f {
                        0 => inst.cell = None,
                        1 => inst.cell = Some(Reference { to: None }),
                        2 => inst.cell = Some(Reference { to: Some(To::External(Default::default())) }),
                        3 => inst.cell = Some(Reference { to: Some(To::Local("no such cell".into())) }),
                        4 => inst.loc = None,
                        5 => inst.loc = Some(tp::Place { place: None }),
                        _ => inst.loc = Some(tp::Place { place: Some(tp::place::Place::Rel(Default::default())) }),
                    }
                    out.push(m);
                }
            }
            for ai in 0..ly.assignments.len() {
                let mut m = p.clone(); m.cells[ci].layout.as_mut().unwrap().assignments[ai].at = None; out.push(m);
                let mut m = p.clone(); m.cells[ci].layout.as_mut().unwrap().assignments[ai].at.as_mut().unwrap().track = None; out.push(m);
                let mut m = p.clone(); m.cells[ci].layout.as_mut().unwrap().assignments[ai].at.as_mut().unwrap().cross.as_mut().unwrap().layer = -3; out.push(m);
            }
            for ki in 0..ly.cuts.len() {
                let mut m = p.clone(); m.cells[ci].layout.as_mut().unwrap().cuts[ki].cross = None; out.push(m);
            }
        }
        if c.r#abstract.is_some() { let mut m = p.clone(); m.cells[ci].r#abstract.as_mut().unwrap().outline = None; out.push(m); }
        // the cell listed too late: a forward reference
        if ci + 1 < p.cells.len() { let mut m = p.clone(); m.cells.swap(ci, ci + 1); out.push(m); }
    }
    out
}
pub fn gen(thorough: bool, rng: &mut Rng, out: &mut Vec<String>) {
    let n = if thorough { 20000 } else { 2500 };
    for i in 0..n {
        let lib = gen_tlib(rng);
        out.push(format!("tproto.rt {}", tlib_s(&lib)));
        if i % 3 == 0 { out.push(format!("tproto.export {}", tlib_s(&lib))); }
        if i % 5 == 1 {
            // history: the same cells first without (some of) their instances, exported, then rewired in place, exported again
            let mut earlier = lib.clone();
            let mut changed = false;
            for c in earlier.cells.iter_mut() { if let Some(ly) = c.lay.as_mut() { if !ly.insts.is_empty() && rng.chance(2, 3) { if rng.coin() { ly.insts.clear(); } else { ly.insts.reverse(); ly.insts.truncate(1); } changed = true; } } }
            if changed { out.push(format!("tproto.export {} {}", tlib_s(&lib), tlib_s(&earlier))); }
        }
        if i % 4 == 0 {
            if let Ok(p) = export_real(&lib) {
                out.push(format!("tproto.import {}", plib_s(&p)));
                let fs = faults(&p);
                let take = if thorough { 12 } else { 6 };
                for k in 0..take.min(fs.len()) {
                    let f = &fs[(k * 7 + i) % fs.len()];
                    out.push(format!("tproto.import {}", plib_s(f)));
                }
            }
        }
    }
}
