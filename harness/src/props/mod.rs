pub mod c0607;
pub mod c08;
pub mod c09;
pub mod c12;
pub mod c18;
pub mod c19;
pub mod c20;
pub mod gds;
pub mod lef;
pub mod c13;
pub mod c14;
pub mod c15;
pub mod c16;
pub mod c17;
pub mod layers;

pub fn gen(prop: &str, thorough: bool, seed: u64, out: &mut Vec<String>) {
    let mut rng = crate::rng::Rng::new(seed);
    match prop {
        "C01" | "C02" => gds::gen_c01(thorough, &mut rng, out),
        "C03" => gds::gen_c03(thorough, &mut rng, out),
        "C10" => gds::gen_c10(thorough, &mut rng, out),
        "C04" => lef::gen_c04(thorough, &mut rng, out),
        "C05" => lef::gen_c05(thorough, &mut rng, out),
        "C11" => lef::gen_c11(thorough, &mut rng, out),
        "C06" => c0607::gen_c06(thorough, &mut rng, out),
        "C07" => c0607::gen_c07(thorough, &mut rng, out),
        "C08" => c08::gen(thorough, &mut rng, out),
        "C09" => c09::gen(thorough, &mut rng, out),
        "C12" => c12::gen(thorough, &mut rng, out),
        "C13" => c13::gen(thorough, &mut rng, out),
        "C14" => c14::gen(thorough, &mut rng, out),
        "C15" => c15::gen(thorough, &mut rng, out),
        "C16" => c16::gen(thorough, &mut rng, out),
        "C17" => c17::gen(thorough, &mut rng, out),
        "C18" => c18::gen(thorough, &mut rng, out),
        "C19" => c19::gen(thorough, &mut rng, out),
        "C20" => c20::gen(thorough, &mut rng, out),
        _ => panic!("unknown property {}", prop),
    }
}
pub fn oracle(prop: &str, line: &str) -> String {
    let r = std::panic::catch_unwind(|| match prop {
        "C01" => gds::oracle_c01(line),
        "C02" => gds::oracle_c02(line),
        "C03" => gds::oracle_c03(line),
        "C10" => gds::oracle_c10(line),
        "C04" => lef::oracle_c04(line),
        "C05" => lef::oracle_c05(line),
        "C11" => lef::oracle_c11(line),
        "C06" => c0607::oracle_c06(line),
        "C07" => c0607::oracle_c07(line),
        "C08" => c08::oracle(line),
        "C09" => c09::oracle(line),
        "C12" => c12::oracle(line),
        "C13" => c13::oracle(line),
        "C14" => c14::oracle(line),
        "C15" => c15::oracle(line),
        "C16" => c16::oracle(line),
        "C17" => c17::oracle(line),
        "C18" => c18::oracle(line),
        "C19" => c19::oracle(line),
        "C20" => c20::oracle(line),
        _ => "na".to_string(),
    });
    r.unwrap_or_else(|_| "fail oracle-panic".into())
}
pub fn tag(prop: &str, line: &str) -> String {
    match prop {
        "C01" | "C02" | "C03" | "C10" => gds::tag(line),
        "C04" | "C05" | "C11" => lef::tag(line),
        "C06" | "C07" => c0607::tag(line),
        "C08" => c08::tag(line),
        "C09" => c09::tag(line),
        "C12" => c12::tag(line),
        "C13" => c13::tag(line),
        "C14" => c14::tag(line),
        "C15" => c15::tag(line),
        "C16" => c16::tag(line),
        "C17" => c17::tag(line),
        "C18" => c18::tag(line),
        "C19" => c19::tag(line),
        "C20" => c20::tag(line),
        _ => "-".to_string(),
    }
}
