//! C12: instance transforms. Ops:
//!   tf.apply ((x y refl q) ...) ((x y) ...)   chain of placements, outermost first; q = quarter turns (int) or `none`
//!       -> ok ((x y) ...)     images of the points under the cascaded Transform (Point::transform)
//!   tf.general (x y refl f<angle bits>) ((x y) ...)   single placement at an arbitrary angle (model: unsupported)
//!   raw.flatten ((cell (shape..) ((inst c x y refl q) ..)) ...) top -> ok (shape ...) flattened point lists, in order
use crate::rng::Rng;
use crate::sexp::*;
use layout21raw as raw;
use layout21raw::{Point, Transform, TransformTrait};
use layout21utils::Ptr;

type P2 = (i64, i64);

#[derive(Clone, Debug)]
pub struct Place {
    pub loc: P2,
    pub refl: bool,
    pub q: Option<i64>,
}
fn parse_place(s: &Sexp) -> Option<Place> {
    let l = s.list()?;
    let q = if l.get(3)?.atom()? == "none" { None } else { Some(l[3].int()?) };
    Some(Place { loc: (l[0].int()?, l[1].int()?), refl: l[2].boolean()?, q })
}
fn angle_of(q: Option<i64>) -> Option<f64> {
    q.map(|q| 90.0 * q as f64)
}
fn fmt_pts(v: &[P2]) -> String {
    v.iter().map(|p| format!("({} {})", p.0, p.1)).collect::<Vec<_>>().join(" ")
}
fn cascade_chain(chain: &[Place]) -> Transform {
    let mut t = Transform::identity();
    for pl in chain {
        let it = Transform::from_instance(&Point::new(pl.loc.0 as isize, pl.loc.1 as isize), pl.refl, angle_of(pl.q));
        t = Transform::cascade(&t, &it);
    }
    t
}
pub fn op_apply(args: &[Sexp]) -> String {
    let chain: Vec<Place> = match args.get(0).and_then(|c| c.list()).and_then(|c| c.iter().map(parse_place).collect()) {
        Some(c) => c,
        None => return "bad-op".into(),
    };
    let pts = match args.get(1).and_then(|q| q.list()).and_then(crate::props::c13::parse_pts) {
        Some(p) => p,
        None => return "bad-op".into(),
    };
    let t = cascade_chain(&chain);
    let out: Vec<P2> = pts
        .iter()
        .map(|p| {
            let r = Point::new(p.0 as isize, p.1 as isize).transform(&t);
            (r.x as i64, r.y as i64)
        })
        .collect();
    format!("ok ({})", fmt_pts(&out))
}
pub fn op_general(args: &[Sexp]) -> String {
    let l0 = match args.get(0).and_then(|c| c.list()) {
        Some(l) if l.len() == 4 => l,
        _ => return "bad-op".into(),
    };
    let (x, y, refl, ab) = match (l0[0].int(), l0[1].int(), l0[2].boolean(), l0[3].f64bits()) {
        (Some(x), Some(y), Some(r), Some(a)) => (x, y, r, a),
        _ => return "bad-op".into(),
    };
    let pts = match args.get(1).and_then(|q| q.list()).and_then(crate::props::c13::parse_pts) {
        Some(p) => p,
        None => return "bad-op".into(),
    };
    let t = Transform::from_instance(&Point::new(x as isize, y as isize), refl, Some(f64::from_bits(ab)));
    let out: Vec<P2> = pts
        .iter()
        .map(|p| {
            let r = Point::new(p.0 as isize, p.1 as isize).transform(&t);
            (r.x as i64, r.y as i64)
        })
        .collect();
    format!("ok ({})", fmt_pts(&out))
}

/// `tf.gchain ((x y refl f<angle>) ...) (pts)`: a chain of placements at arbitrary angles, cascaded
/// outermost first with `Transform::cascade`, applied to the points (model: unsupported)
pub fn op_gchain(args: &[Sexp]) -> String {
    let chain = match args.get(0).and_then(|c| c.list()) { Some(c) => c, None => return "bad-op".into() };
    let pts = match args.get(1).and_then(|q| q.list()).and_then(crate::props::c13::parse_pts) { Some(p) => p, None => return "bad-op".into() };
    let mut t = Transform::identity();
    for pl in chain {
        let l0 = match pl.list() { Some(l) if l.len() == 4 => l, _ => return "bad-op".into() };
        let (x, y, refl, ab) = match (l0[0].int(), l0[1].int(), l0[2].boolean(), l0[3].f64bits()) { (Some(x), Some(y), Some(r), Some(a)) => (x, y, r, a), _ => return "bad-op".into() };
        let it = Transform::from_instance(&Point::new(x as isize, y as isize), refl, Some(f64::from_bits(ab)));
        t = Transform::cascade(&t, &it);
    }
    let out: Vec<P2> = pts.iter().map(|p| { let r = Point::new(p.0 as isize, p.1 as isize).transform(&t); (r.x as i64, r.y as i64) }).collect();
    format!("ok ({})", fmt_pts(&out))
}

/// `raw.gflatten ((x y refl f<angle>) ...) (pts)`: the same chain as a HIERARCHY — cell k holds one
/// instance of cell k+1 at placement k, the innermost cell holds the polygon — flattened by
/// `Layout::flatten` from the top (model: unsupported)
pub fn op_gflatten(args: &[Sexp]) -> String {
    let chain = match args.get(0).and_then(|c| c.list()) { Some(c) => c, None => return "bad-op".into() };
    let pts = match args.get(1).and_then(|q| q.list()).and_then(crate::props::c13::parse_pts) { Some(p) => p, None => return "bad-op".into() };
    let mut layers = raw::Layers::default();
    let key = layers.add(raw::Layer::from_pairs(1, &[(0, raw::LayerPurpose::Drawing)]).unwrap());
    let mut leaf = raw::Layout::default();
    leaf.name = "leaf".into();
    leaf.elems.push(raw::Element { net: None, layer: key, purpose: raw::LayerPurpose::Drawing, inner: raw::Shape::Polygon(raw::Polygon { points: pts.iter().map(|p| Point::new(p.0 as isize, p.1 as isize)).collect() }) });
    let mut cur = Ptr::new(raw::Cell::from(leaf));
    for (k, pl) in chain.iter().enumerate().rev() {
        let l0 = match pl.list() { Some(l) if l.len() == 4 => l, _ => return "bad-op".into() };
        let (x, y, refl, ab) = match (l0[0].int(), l0[1].int(), l0[2].boolean(), l0[3].f64bits()) { (Some(x), Some(y), Some(r), Some(a)) => (x, y, r, a), _ => return "bad-op".into() };
        let mut lay = raw::Layout::default();
        lay.name = format!("c{}", k);
        lay.insts.push(raw::Instance { inst_name: "i".into(), cell: cur.clone(), loc: Point::new(x as isize, y as isize), reflect_vert: refl, angle: Some(f64::from_bits(ab)) });
        cur = Ptr::new(raw::Cell::from(lay));
    }
    let res = { let cell = cur.read().unwrap(); cell.layout.as_ref().unwrap().flatten() };
    match res {
        Ok(elems) if elems.len() == 1 => match &elems[0].inner {
            raw::Shape::Polygon(p) => format!("ok ({})", fmt_pts(&p.points.iter().map(|q| (q.x as i64, q.y as i64)).collect::<Vec<_>>())),
            _ => "ok other".into(),
        },
        Ok(elems) => format!("ok count {}", elems.len()),
        Err(_) => "err".into(),
    }
}

struct CellSpec {
    shapes: Vec<Vec<P2>>,
    insts: Vec<(usize, Place)>,
}
fn parse_cells(s: &Sexp) -> Option<Vec<CellSpec>> {
    let mut out = vec![];
    for c in s.list()? {
        let l = c.list()?;
        let shapes: Vec<Vec<P2>> = l.get(1)?.list()?.iter().map(|sh| crate::props::c13::parse_pts(sh.list()?)).collect::<Option<_>>()?;
        let mut insts = vec![];
        for i in l.get(2)?.list()? {
            let il = i.list()?;
            let ci = il.get(1)?.int()? as usize;
            let q = if il.get(5)?.atom()? == "none" { None } else { Some(il[5].int()?) };
            insts.push((ci, Place { loc: (il[2].int()?, il[3].int()?), refl: il[4].boolean()?, q }));
        }
        out.push(CellSpec { shapes, insts });
    }
    Some(out)
}
pub fn op_flatten(args: &[Sexp]) -> String {
    let cells = match args.get(0).and_then(parse_cells) {
        Some(c) => c,
        None => return "bad-op".into(),
    };
    let top = match args.get(1).and_then(|t| t.int()) {
        Some(t) => t as usize,
        None => return "bad-op".into(),
    };
    let mut layers = raw::Layers::default();
    let key = layers.add(raw::Layer::from_pairs(1, &[(0, raw::LayerPurpose::Drawing)]).unwrap());
    let ptrs: Vec<Ptr<raw::Cell>> = cells
        .iter()
        .enumerate()
        .map(|(i, c)| {
            let mut lay = raw::Layout::default();
            lay.name = format!("c{}", i);
            for sh in &c.shapes {
                let pts: Vec<Point> = sh.iter().map(|p| Point::new(p.0 as isize, p.1 as isize)).collect();
                let inner = if pts.len() == 2 {
                    raw::Shape::Rect(raw::Rect { p0: pts[0], p1: pts[1] })
                } else {
                    raw::Shape::Polygon(raw::Polygon { points: pts })
                };
                lay.elems.push(raw::Element { net: None, layer: key, purpose: raw::LayerPurpose::Drawing, inner });
            }
            Ptr::new(raw::Cell::from(lay))
        })
        .collect();
    for (i, c) in cells.iter().enumerate() {
        let mut cell = ptrs[i].write().unwrap();
        let lay = cell.layout.as_mut().unwrap();
        for (k, (ci, pl)) in c.insts.iter().enumerate() {
            if *ci >= ptrs.len() {
                return "bad-op".into();
            }
            lay.insts.push(raw::Instance {
                inst_name: format!("i{}", k),
                cell: ptrs[*ci].clone(),
                loc: Point::new(pl.loc.0 as isize, pl.loc.1 as isize),
                reflect_vert: pl.refl,
                angle: angle_of(pl.q),
            });
        }
    }
    let res = {
        let cell = ptrs[top].read().unwrap();
        cell.layout.as_ref().unwrap().flatten()
    };
    match res {
        Ok(elems) => {
            let shapes: Vec<String> = elems
                .iter()
                .map(|e| match &e.inner {
                    raw::Shape::Rect(r) => format!("({})", fmt_pts(&[(r.p0.x as i64, r.p0.y as i64), (r.p1.x as i64, r.p1.y as i64)])),
                    raw::Shape::Polygon(p) => format!("({})", fmt_pts(&p.points.iter().map(|q| (q.x as i64, q.y as i64)).collect::<Vec<_>>())),
                    raw::Shape::Path(p) => format!("({})", fmt_pts(&p.points.iter().map(|q| (q.x as i64, q.y as i64)).collect::<Vec<_>>())),
                })
                .collect();
            format!("ok ({})", shapes.join(" "))
        }
        Err(_) => "err".into(),
    }
}

// ------------------------------------------------ oracle: independent integer reference

fn ref_place(pl: &Place, p: P2) -> P2 {
    // reflect about the x-axis, rotate counter-clockwise by quarter turns, translate
    let (mut x, mut y) = p;
    if pl.refl {
        y = -y;
    }
    let q = pl.q.unwrap_or(0).rem_euclid(4);
    for _ in 0..q {
        let (nx, ny) = (-y, x);
        x = nx;
        y = ny;
    }
    (x + pl.loc.0, y + pl.loc.1)
}
fn ref_chain(chain: &[Place], p: P2) -> P2 {
    let mut r = p;
    for pl in chain.iter().rev() {
        r = ref_place(pl, r);
    }
    r
}
pub fn oracle(line: &str) -> String {
    let p = match Sexp::parse_all(line) {
        Some(p) if !p.is_empty() => p,
        _ => return "na".into(),
    };
    let res = crate::ops::run_line(line);
    match p[0].atom().unwrap_or("") {
        "tf.apply" => {
            let chain: Vec<Place> = match p[1].list().and_then(|c| c.iter().map(parse_place).collect()) {
                Some(c) => c,
                None => return "na".into(),
            };
            let pts = crate::props::c13::parse_pts(p[2].list().unwrap_or(&[])).unwrap_or_default();
            let want: Vec<P2> = pts.iter().map(|q| ref_chain(&chain, *q)).collect();
            let want_s = format!("ok ({})", fmt_pts(&want));
            if res != want_s {
                return format!("fail chain image differs from reflect→rotate→translate composition: got {} want {}", &res[..res.len().min(120)], &want_s[..want_s.len().min(120)]);
            }
            // the elementary-transform identity, entrywise
            for pl in &chain {
                let loc = Point::new(pl.loc.0 as isize, pl.loc.1 as isize);
                let a = Transform::from_instance(&loc, pl.refl, angle_of(pl.q));
                let r = Transform::rotate(angle_of(pl.q).unwrap_or(0.0));
                let f = if pl.refl { Transform::reflect_vert() } else { Transform::identity() };
                let b = Transform::cascade(&Transform::translate(loc.x as f64, loc.y as f64), &Transform::cascade(&r, &f));
                for i in 0..2 {
                    for j in 0..2 {
                        if (a.a[i][j] - b.a[i][j]).abs() > 1e-12 {
                            return format!("fail from_instance matrix differs from translate∘rotate∘reflect at [{}][{}]", i, j);
                        }
                    }
                    if (a.b[i] - b.b[i]).abs() > 1e-9 {
                        return "fail from_instance translation differs".into();
                    }
                }
            }
            "pass".into()
        }
        "tf.general" => {
            let l0 = p[1].list().unwrap();
            let (x, y, refl, ab) = (l0[0].int().unwrap(), l0[1].int().unwrap(), l0[2].boolean().unwrap(), l0[3].f64bits().unwrap());
            let ang = f64::from_bits(ab);
            let pts = crate::props::c13::parse_pts(p[2].list().unwrap_or(&[])).unwrap_or_default();
            let got = match Sexp::parse_all(&res).and_then(|r| r.get(1).and_then(|l| l.list().and_then(crate::props::c13::parse_pts))) {
                Some(g) => g,
                None => return format!("fail {}", res),
            };
            let (s, c) = ang.to_radians().sin_cos();
            for (q, g) in pts.iter().zip(got.iter()) {
                let (px, py) = (q.0 as f64, if refl { -(q.1 as f64) } else { q.1 as f64 });
                let ex = c * px - s * py + x as f64;
                let ey = s * px + c * py + y as f64;
                if (g.0 as f64 - ex).abs() > 0.5 + 1e-6 || (g.1 as f64 - ey).abs() > 0.5 + 1e-6 {
                    return format!("fail general angle: point ({} {}) mapped to ({} {}) but exact image is ({:.4} {:.4})", q.0, q.1, g.0, g.1, ex, ey);
                }
            }
            "pass".into()
        }
        "tf.gchain" | "raw.gflatten" => {
            // exact real-valued composition, innermost placement applied first; one final rounding
            let chain = p[1].list().unwrap_or(&[]);
            let pts = crate::props::c13::parse_pts(p[2].list().unwrap_or(&[])).unwrap_or_default();
            let got = match Sexp::parse_all(&res).and_then(|r| r.get(1).and_then(|l| l.list().and_then(crate::props::c13::parse_pts))) {
                Some(g) => g,
                None => return format!("fail {}", res),
            };
            for (q, g) in pts.iter().zip(got.iter()) {
                let (mut ex, mut ey) = (q.0 as f64, q.1 as f64);
                for pl in chain.iter().rev() {
                    let l0 = pl.list().unwrap();
                    let (x, y, refl, ab) = (l0[0].int().unwrap(), l0[1].int().unwrap(), l0[2].boolean().unwrap(), l0[3].f64bits().unwrap());
                    let (sn, cs) = f64::from_bits(ab).to_radians().sin_cos();
                    let py = if refl { -ey } else { ey };
                    let nx = cs * ex - sn * py + x as f64;
                    let ny = sn * ex + cs * py + y as f64;
                    ex = nx; ey = ny;
                }
                if (g.0 as f64 - ex).abs() > 0.5 + 1e-4 || (g.1 as f64 - ey).abs() > 0.5 + 1e-4 {
                    return format!("fail nested general angles: point ({} {}) mapped to ({} {}) but the composition sends it to ({:.4} {:.4})", q.0, q.1, g.0, g.1, ex, ey);
                }
            }
            "pass".into()
        }
        "raw.flatten" => {
            // reference: recursive flatten with the integer placement semantics
            let cells = match parse_cells(&p[1]) {
                Some(c) => c,
                None => return "na".into(),
            };
            let top = p[2].int().unwrap_or(0) as usize;
            fn go(cells: &[CellSpec], ci: usize, path: &mut Vec<Place>, out: &mut Vec<Vec<P2>>, depth: usize) {
                if depth > 64 {
                    return;
                }
                for sh in &cells[ci].shapes {
                    out.push(sh.iter().map(|q| ref_chain(path, *q)).collect());
                }
                for (c, pl) in &cells[ci].insts {
                    path.push(pl.clone());
                    go(cells, *c, path, out, depth + 1);
                    path.pop();
                }
            }
            let mut out = vec![];
            go(&cells, top, &mut vec![], &mut out, 0);
            let want = format!("ok ({})", out.iter().map(|s| format!("({})", fmt_pts(s))).collect::<Vec<_>>().join(" "));
            if res == want {
                "pass".into()
            } else {
                format!("fail flatten differs: got {} want {}", &res[..res.len().min(150)], &want[..want.len().min(150)])
            }
        }
        _ => "na".into(),
    }
}
pub fn tag(line: &str) -> String {
    let p = match Sexp::parse_all(line) {
        Some(p) if !p.is_empty() => p,
        _ => return "-".into(),
    };
    match p[0].atom().unwrap_or("") {
        "tf.apply" => {
            let chain: Vec<Place> = p[1].list().and_then(|c| c.iter().map(parse_place).collect()).unwrap_or_default();
            let refl = chain.iter().filter(|c| c.refl).count();
            format!("apply:depth{}:refl{}", chain.len(), refl)
        }
        "tf.general" => "general".into(),
        "tf.gchain" => "general-chain".into(),
        "raw.gflatten" => "general-hierarchy".into(),
        "raw.flatten" => {
            let n = p[1].list().map(|l| l.len()).unwrap_or(0);
            format!("flatten:cells{}", n.min(6))
        }
        _ => "-".into(),
    }
}

// ------------------------------------------------ generation
fn fmt_place(pl: &Place) -> String {
    format!("({} {} {} {})", pl.loc.0, pl.loc.1, if pl.refl { "#t" } else { "#f" }, pl.q.map(|q| q.to_string()).unwrap_or("none".into()))
}
pub fn gen(thorough: bool, rng: &mut Rng, out: &mut Vec<String>) {
    let offs: [i64; 7] = [0, 1, -1, 7, -7, (1 << 31) - 1, -((1 << 31) - 1)];
    let grid: Vec<P2> = (-4..=4).flat_map(|x| (-4..=4).map(move |y| (x, y))).collect();
    let big: Vec<P2> = vec![((1 << 31) - 1, 0), (0, -(1 << 31) + 1), ((1 << 30), -(1 << 30)), (123456789, -987654321)];
    // exhaustive over orientation chains of depth 1..3 (4 thorough): 8 orientations per level
    let maxd = if thorough { 4 } else { 3 };
    for depth in 1..=maxd {
        let total = 8u64.pow(depth as u32);
        for code in 0..total {
            let reps = if depth == 1 { 7 } else { 1 };
            for rep in 0..reps {
                let mut c = code;
                let mut chain = vec![];
                for lvl in 0..depth {
                    let o = c % 8;
                    c /= 8;
                    // offsets: small at depth>1 so that sums stay inside the 32-bit range; extremes at depth 1
                    let (ox, oy) = if depth == 1 {
                        (offs[rep as usize], offs[(rep as usize * 3 + 1) % 7])
                    } else {
                        (offs[rng.below(5) as usize] * (lvl as i64 + 1), offs[rng.below(5) as usize])
                    };
                    // angle spelled as None for 0 sometimes, and with extra full turns / negative sometimes
                    let qbase = (o % 4) as i64;
                    let q = if qbase == 0 && rng.coin() { None } else { Some(qbase + 4 * rng.range(-1, 1)) };
                    chain.push(Place { loc: (ox, oy), refl: o >= 4, q });
                }
                let pts = if depth == 1 && rep >= 5 { &big } else { &grid };
                let pts: Vec<P2> = if depth == 1 && rep >= 5 { vec![(0, 0), (1, 0), (0, 1), (5, -3)] } else { pts.clone() };
                out.push(format!("tf.apply ({}) ({})", chain.iter().map(fmt_place).collect::<Vec<_>>().join(" "), fmt_pts(&pts)));
            }
        }
    }
    // random deeper chains with larger offsets / points
    for _ in 0..(if thorough { 20000 } else { 2000 }) {
        let depth = 1 + rng.below(6) as usize;
        let chain: Vec<Place> = (0..depth)
            .map(|_| Place { loc: (rng.range(-1 << 26, 1 << 26), rng.range(-1 << 26, 1 << 26)), refl: rng.coin(), q: if rng.chance(1, 5) { None } else { Some(rng.range(-4, 7)) } })
            .collect();
        let pts: Vec<P2> = (0..6).map(|_| (rng.range(-1 << 26, 1 << 26), rng.range(-1 << 26, 1 << 26))).collect();
        out.push(format!("tf.apply ({}) ({})", chain.iter().map(fmt_place).collect::<Vec<_>>().join(" "), fmt_pts(&pts)));
    }
    // general angles, single level
    for _ in 0..(if thorough { 20000 } else { 2000 }) {
        let ang: f64 = match rng.below(4) {
            0 => rng.range(-720, 720) as f64,
            1 => rng.range(-7200, 7200) as f64 / 10.0,
            2 => [30.0, 45.0, 60.0, 135.0, 225.0, 315.0, 0.5, 89.99, 90.01][rng.below(9) as usize],
            _ => (rng.next() as f64 / u64::MAX as f64) * 360.0,
        };
        let s = [10i64, 1000, 1 << 20][rng.below(3) as usize];
        let pts: Vec<P2> = (0..6).map(|_| (rng.range(-s, s), rng.range(-s, s))).collect();
        out.push(format!("tf.general ({} {} {} {}) ({})", rng.range(-s, s), rng.range(-s, s), if rng.coin() { "#t" } else { "#f" }, of_f64(ang.to_bits()), fmt_pts(&pts)));
    }
    // general angles, nested 2–4 levels deep (small offsets and points, so that an intermediate
    // rounding of the accumulated origin shows against the half-unit tolerance)
    for _ in 0..(if thorough { 20000 } else { 2000 }) {
        let depth = 2 + rng.below(3) as usize;
        let s = [3i64, 10, 1000][rng.below(3) as usize];
        let chain: Vec<String> = (0..depth).map(|_| {
            let ang: f64 = match rng.below(4) {
                0 => [30.0, 45.0, 60.0, 135.0, 225.0, 315.0, 0.5, 89.99, 90.01][rng.below(9) as usize],
                1 => rng.range(-7200, 7200) as f64 / 10.0,
                2 => [0.0, 90.0, 180.0, 270.0][rng.below(4) as usize],
                _ => (rng.next() as f64 / u64::MAX as f64) * 360.0,
            };
            format!("({} {} {} {})", rng.range(-s, s), rng.range(-s, s), if rng.coin() { "#t" } else { "#f" }, of_f64(ang.to_bits()))
        }).collect();
        let pts: Vec<P2> = (0..6).map(|_| (rng.range(-s, s), rng.range(-s, s))).collect();
        out.push(format!("tf.gchain ({}) ({})", chain.join(" "), fmt_pts(&pts)));
        out.push(format!("raw.gflatten ({}) ({})", chain.join(" "), fmt_pts(&pts)));
    }
    // hierarchies: acyclic cell DAGs (cell i instantiates only cells > i), flatten cell 0
    for _ in 0..(if thorough { 20000 } else { 2000 }) {
        let n = 1 + rng.below(5) as usize;
        let mut cells = vec![];
        for i in 0..n {
            let ns = rng.below(3) as usize + if i == n - 1 { 1 } else { 0 };
            let shapes: Vec<String> = (0..ns)
                .map(|_| {
                    let k = [2, 3, 4, 5][rng.below(4) as usize];
                    let pts: Vec<P2> = (0..k).map(|_| (rng.range(-20, 20), rng.range(-20, 20))).collect();
                    format!("({})", fmt_pts(&pts))
                })
                .collect();
            let ni = if i + 1 < n { rng.below(3) as usize + if rng.coin() { 1 } else { 0 } } else { 0 };
            let insts: Vec<String> = (0..ni)
                .map(|_| {
                    let c = i + 1 + rng.below((n - i - 1) as u64) as usize;
                    format!("(inst {} {} {} {} {})", c, rng.range(-100, 100), rng.range(-100, 100), if rng.coin() { "#t" } else { "#f" }, if rng.chance(1, 5) { "none".to_string() } else { rng.range(0, 3).to_string() })
                })
                .collect();
            cells.push(format!("(cell ({}) ({}))", shapes.join(" "), insts.join(" ")));
        }
        out.push(format!("raw.flatten ({}) 0", cells.join(" ")));
    }
}
