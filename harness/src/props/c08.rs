//! C08: compiled gridded layouts realise exactly their tracks, cuts, vias and nets.
//! Op (model: yes):
//!   tetris.compile <stack> <cell>  -> ok (<elem>…) | err        Library::to_raw on a real stack and library
//! Format: see lean/L21/Driver/TetrisIO.lean.
//! The oracle recomputes, from the stack description alone, where every track of every period is
//! (flipped periods mirrored geometrically), where every crossing is, which spans are cut or
//! blocked, and checks the emitted rectangles against that: exact tiling, exact positions/widths,
//! one centred via per assignment, nets exactly on the pieces covering an assigned crossing.
use crate::rng::Rng;
use crate::sexp::*;
use layout21raw as raw;
use layout21tetris as t;
use layout21utils::Ptr;

#[derive(Clone, Debug, PartialEq)]
pub enum Tt { Gap, Sig, Pwr, Gnd }
#[derive(Clone, Debug)]
pub struct EntryD { pub tt: Tt, pub w: i64 }
#[derive(Clone, Debug)]
pub enum SpecD { One(EntryD), Rep(Vec<EntryD>, usize) }
#[derive(Clone, Debug)]
pub struct MetalD { pub horiz: bool, pub cutsize: i64, pub offset: i64, pub overlap: i64, pub flip: bool, pub shared: bool, pub specs: Vec<SpecD> }
#[derive(Clone, Debug)]
pub struct ViaD { pub bot: Option<usize>, pub sx: i64, pub sy: i64 }
#[derive(Clone, Debug)]
pub struct StackD { pub px: i64, pub py: i64, pub metals: Vec<MetalD>, pub vias: Vec<ViaD> }
#[derive(Clone, Debug)]
pub struct InstD { pub x: i64, pub y: i64, pub rh: bool, pub rv: bool, pub w: i64, pub h: i64, pub metals: usize }
#[derive(Clone, Debug)]
pub struct CellD { pub ox: i64, pub oy: i64, pub metals: usize, pub insts: Vec<InstD>, pub cuts: Vec<[usize; 4]>, pub assigns: Vec<(String, [usize; 4])> }
#[derive(Clone, Debug, PartialEq, Eq, PartialOrd, Ord)]
pub struct ElemD { pub via: bool, pub layer: usize, pub net: Option<String>, pub r: [i64; 4] }

impl MetalD {
    pub fn entries(&self) -> Vec<EntryD> {
        let mut v = vec![];
        for s in &self.specs { match s { SpecD::One(e) => v.push(e.clone()), SpecD::Rep(es, n) => for _ in 0..*n { v.extend(es.iter().cloned()) } } }
        v
    }
    pub fn total(&self) -> i64 { self.entries().iter().map(|e| e.w).sum() }
    pub fn pitch(&self) -> i64 { self.total() - self.overlap }
    pub fn nsig(&self) -> usize { self.entries().iter().filter(|e| e.tt == Tt::Sig).count() }
    /// tracks of period p, geometrically: (type, start, width)
    pub fn period_tracks(&self, p: usize) -> Vec<(Tt, i64, i64)> {
        let mut es = self.entries();
        if self.flip && p % 2 == 1 { es.reverse(); }
        let mut cur = self.offset + self.pitch() * p as i64;
        let mut out = vec![];
        for e in es { if e.tt != Tt::Gap { out.push((e.tt.clone(), cur, e.w)); } cur += e.w; }
        out
    }
    pub fn center(&self, idx: usize) -> Option<i64> {
        let n = self.nsig();
        if n == 0 { return None; }
        let sigs: Vec<_> = self.period_tracks(idx / n).into_iter().filter(|t| t.0 == Tt::Sig).collect();
        let (_, s, w) = sigs[idx % n].clone();
        Some(s + w / 2)
    }
}

// ------------------------------------------------------------------ s-expressions
fn entry_s(e: &EntryD) -> Sexp { l(vec![a(match e.tt { Tt::Gap => "g", Tt::Sig => "s", Tt::Pwr => "p", Tt::Gnd => "n" }), of_int(e.w)]) }
pub fn stack_s(s: &StackD) -> Sexp {
    let metals = s.metals.iter().map(|m| l(vec![a("m"), a(if m.horiz { "h" } else { "v" }), of_int(m.cutsize), of_int(m.offset), of_int(m.overlap), of_bool(m.flip), of_bool(m.shared),
        l(std::iter::once(a("entries")).chain(m.specs.iter().map(|sp| match sp { SpecD::One(e) => entry_s(e), SpecD::Rep(es, n) => l(vec![a("rep"), of_int(*n as i64)].into_iter().chain(es.iter().map(entry_s)).collect()) })).collect())]));
    let vias = s.vias.iter().map(|v| l(vec![a("via"), match v.bot { Some(b) => of_int(b as i64), None => a("#f") }, of_int(v.sx), of_int(v.sy)]));
    l(vec![a("stack"), l(vec![a("prim"), of_int(s.px), of_int(s.py)]), l(std::iter::once(a("metals")).chain(metals).collect()), l(std::iter::once(a("vias")).chain(vias).collect())])
}
pub fn cell_s(c: &CellD) -> Sexp {
    let cr = |x: &[usize; 4]| x.iter().map(|i| of_int(*i as i64)).collect::<Vec<_>>();
    l(vec![a("cell"), of_int(c.ox), of_int(c.oy), of_int(c.metals as i64),
        l(std::iter::once(a("insts")).chain(c.insts.iter().map(|i| l(vec![a("inst"), of_int(i.x), of_int(i.y), of_bool(i.rh), of_bool(i.rv), of_int(i.w), of_int(i.h), of_int(i.metals as i64)]))).collect()),
        l(std::iter::once(a("cuts")).chain(c.cuts.iter().map(|x| l(cr(x)))).collect()),
        l(std::iter::once(a("assigns")).chain(c.assigns.iter().map(|(n, x)| l(std::iter::once(of_bytes(n.as_bytes())).chain(cr(x)).collect()))).collect())])
}
fn tagged<'a>(s: &'a Sexp, tag: &str) -> Option<&'a [Sexp]> { let v = s.list()?; if v.first()?.atom()? == tag { Some(&v[1..]) } else { None } }
fn p_entry(s: &Sexp) -> Option<EntryD> {
    let v = s.list()?;
    let tt = match v.get(0)?.atom()? { "g" => Tt::Gap, "s" => Tt::Sig, "p" => Tt::Pwr, "n" => Tt::Gnd, _ => return None };
    Some(EntryD { tt, w: v.get(1)?.int()? })
}
pub fn p_stack(s: &Sexp) -> Option<StackD> {
    let b = tagged(s, "stack")?;
    let pr = tagged(b.get(0)?, "prim")?;
    let mut metals = vec![];
    for m in tagged(b.get(1)?, "metals")? {
        let mb = tagged(m, "m")?;
        let mut specs = vec![];
        for e in tagged(mb.get(6)?, "entries")? {
            if let Some(rb) = tagged(e, "rep") { specs.push(SpecD::Rep(rb[1..].iter().map(p_entry).collect::<Option<Vec<_>>>()?, usize::try_from(rb.get(0)?.int()?).ok()?)); } else { specs.push(SpecD::One(p_entry(e)?)); }
        }
        metals.push(MetalD { horiz: mb.get(0)?.atom()? == "h", cutsize: mb.get(1)?.int()?, offset: mb.get(2)?.int()?, overlap: mb.get(3)?.int()?, flip: mb.get(4)?.boolean()?, shared: mb.get(5)?.boolean()?, specs });
    }
    let mut vias = vec![];
    for v in tagged(b.get(2)?, "vias")? { let vb = tagged(v, "via")?; vias.push(ViaD { bot: if vb.get(0)?.atom() == Some("#f") { None } else { Some(usize::try_from(vb.get(0)?.int()?).ok()?) }, sx: vb.get(1)?.int()?, sy: vb.get(2)?.int()? }); }
    Some(StackD { px: pr.get(0)?.int()?, py: pr.get(1)?.int()?, metals, vias })
}
fn p_cross(v: &[Sexp]) -> Option<[usize; 4]> { if v.len() != 4 { return None; } let mut o = [0usize; 4]; for (i, s) in v.iter().enumerate() { o[i] = usize::try_from(s.int()?).ok()?; } Some(o) }
pub fn p_cell(s: &Sexp) -> Option<CellD> {
    let b = tagged(s, "cell")?;
    let mut insts = vec![];
    for i in tagged(b.get(3)?, "insts")? { let ib = tagged(i, "inst")?; insts.push(InstD { x: ib.get(0)?.int()?, y: ib.get(1)?.int()?, rh: ib.get(2)?.boolean()?, rv: ib.get(3)?.boolean()?, w: ib.get(4)?.int()?, h: ib.get(5)?.int()?, metals: usize::try_from(ib.get(6)?.int()?).ok()? }); }
    let mut cuts = vec![];
    for c in tagged(b.get(4)?, "cuts")? { cuts.push(p_cross(c.list()?)?); }
    let mut assigns = vec![];
    for x in tagged(b.get(5)?, "assigns")? { let xl = x.list()?; assigns.push((String::from_utf8(xl.get(0)?.bytes()?).ok()?, p_cross(&xl[1..])?)); }
    Some(CellD { ox: b.get(0)?.int()?, oy: b.get(1)?.int()?, metals: usize::try_from(b.get(2)?.int()?).ok()?, insts, cuts, assigns })
}
fn elem_s(e: &ElemD) -> Sexp {
    l(vec![a(if e.via { "v" } else { "m" }), of_int(e.layer as i64), match &e.net { Some(n) => of_bytes(n.as_bytes()), None => a("#f") }, of_int(e.r[0]), of_int(e.r[1]), of_int(e.r[2]), of_int(e.r[3])])
}
fn p_elems(s: &Sexp) -> Option<Vec<ElemD>> {
    let mut out = vec![];
    for e in s.list()? {
        let v = e.list()?;
        out.push(ElemD { via: v.get(0)?.atom()? == "v", layer: usize::try_from(v.get(1)?.int()?).ok()?, net: if v.get(2)?.atom() == Some("#f") { None } else { Some(String::from_utf8(v.get(2)?.bytes()?).ok()?) }, r: [v.get(3)?.int()?, v.get(4)?.int()?, v.get(5)?.int()?, v.get(6)?.int()?] });
    }
    Some(out)
}

// ------------------------------------------------------------------ the real thing
fn real_compile(sd: &StackD, cd: &CellD) -> Result<Vec<ElemD>, String> {
    use t::stack::*;
    use t::tracks::*;
    let mut rawlayers = raw::Layers::default();
    let purps = [(0i16, raw::LayerPurpose::Drawing)];
    let boundary = rawlayers.add(raw::Layer::from_pairs(200, &[(0, raw::LayerPurpose::Outline)]).map_err(|_| "bad-op")?);
    let mut metal_keys = vec![];
    let mut metals = vec![];
    for (i, m) in sd.metals.iter().enumerate() {
        let key = rawlayers.add(raw::Layer::from_pairs(10 + i as i16, &purps).map_err(|_| "bad-op")?);
        metal_keys.push(key);
        let ent = |e: &EntryD| TrackEntry { ttype: match e.tt { Tt::Gap => TrackType::Gap, Tt::Sig => TrackType::Signal, Tt::Pwr => TrackType::Rail(RailKind::Pwr), Tt::Gnd => TrackType::Rail(RailKind::Gnd) }, width: (e.w as isize).into() };
        metals.push(MetalLayer {
            name: format!("met{}", i), dir: if m.horiz { raw::Dir::Horiz } else { raw::Dir::Vert }, cutsize: (m.cutsize as isize).into(),
            entries: m.specs.iter().map(|s| match s { SpecD::One(e) => TrackSpec::Entry(ent(e)), SpecD::Rep(es, n) => TrackSpec::Repeat(Repeat::new(es.iter().map(ent).collect::<Vec<_>>(), *n)) }).collect(),
            offset: (m.offset as isize).into(), overlap: (m.overlap as isize).into(), flip: if m.flip { FlipMode::EveryOther } else { FlipMode::None },
            prim: if m.shared { PrimitiveMode::Split } else { PrimitiveMode::Stack }, raw: Some(key),
        });
    }
    let mut via_keys = vec![];
    let mut vias = vec![];
    for (i, v) in sd.vias.iter().enumerate() {
        let key = rawlayers.add(raw::Layer::from_pairs(100 + i as i16, &purps).map_err(|_| "bad-op")?);
        via_keys.push(key);
        vias.push(ViaLayer { name: format!("via{}", i), top: match v.bot { Some(b) => ViaTarget::Metal(b + 1), None => ViaTarget::Metal(0) }, bot: match v.bot { Some(b) => ViaTarget::Metal(b), None => ViaTarget::Primitive }, size: (v.sx as isize, v.sy as isize).into(), raw: Some(key) });
    }
    let stack = Stack { units: raw::Units::Nano, boundary_layer: Some(boundary), prim: PrimitiveLayer::new((sd.px as isize, sd.py as isize).into()), metals, vias, rawlayers: Some(Ptr::new(rawlayers)) };
    let vstack = stack.validate().map_err(|_| "err".to_string())?;
    // library: one child cell (abstract only) per instance, then the top cell
    let mut lib = t::library::Library::new("lib");
    let outline = |w: i64, h: i64| t::outline::Outline::rect(w as isize, h as isize).map_err(|_| "bad-op".to_string());
    let mut lay = t::layout::Layout::new("top", cd.metals, outline(cd.ox, cd.oy)?);
    for (k, i) in cd.insts.iter().enumerate() {
        let name = format!("child{}", k);
        let mut c = t::cell::Cell::new(name.clone());
        c.abs = Some(t::abs::Abstract::new(name, i.metals, outline(i.w, i.h)?));
        let cp = lib.cells.add(c);
        lay.instances.add(t::instance::Instance { inst_name: format!("i{}", k), cell: cp, loc: (i.x as isize, i.y as isize).into(), reflect_horiz: i.rh, reflect_vert: i.rv });
    }
    for c in &cd.cuts { lay.cuts.push(TrackCross::from_parts(c[0], c[1], c[2], c[3])); }
    for (n, c) in &cd.assigns { lay.assignments.push(Assign::new(n.clone(), TrackCross::from_parts(c[0], c[1], c[2], c[3]))); }
    let mut top = t::cell::Cell::new("top");
    top.layout = Some(lay);
    // a third of the cells are NOT registered in the library: `top` is reachable only through an instance of a registered
    // wrapper twice its size (as the crate's ring-oscillator examples build their unit cells); it is compiled all the same
    if (cd.cuts.len() + cd.assigns.len() + cd.insts.len()) % 3 == 1 {
        let tp = Ptr::new(top);
        let mut outer = t::layout::Layout::new("outer", cd.metals, outline(2 * cd.ox, 2 * cd.oy)?);
        outer.instances.add(t::instance::Instance { inst_name: "itop".into(), cell: tp, loc: (0isize, 0isize).into(), reflect_horiz: false, reflect_vert: false });
        let mut oc = t::cell::Cell::new("outer");
        oc.layout = Some(outer);
        lib.cells.add(oc);
    } else {
        lib.cells.add(top);
    }
    let rawlib = lib.to_raw(vstack).map_err(|_| "err".to_string())?;
    let rl = rawlib.read().map_err(|_| "err")?;
    let mut out = vec![];
    for cp in rl.cells.iter() {
        let c = cp.read().map_err(|_| "err")?;
        if c.name != "top" { continue; }
        let ly = c.layout.as_ref().ok_or("err")?;
        for e in &ly.elems {
            let r = match &e.inner { raw::Shape::Rect(r) => [r.p0.x as i64, r.p0.y as i64, r.p1.x as i64, r.p1.y as i64], _ => return Err("err-shape".into()) };
            let (via, layer) = if let Some(i) = metal_keys.iter().position(|k| *k == e.layer) { (false, i) } else if let Some(i) = via_keys.iter().position(|k| *k == e.layer) { (true, i) } else { return Err("err-layer".into()) };
            out.push(ElemD { via, layer, net: e.net.clone(), r });
        }
    }
    Ok(out)
}
pub fn op_compile(args: &[Sexp]) -> String {
    let (sd, cd) = match (args.get(0).and_then(p_stack), args.get(1).and_then(p_cell)) { (Some(s), Some(c)) => (s, c), _ => return "bad-op".into() };
    match real_compile(&sd, &cd) { Ok(es) => format!("ok {}", l(es.iter().map(elem_s).collect())), Err(e) => e }
}

// ------------------------------------------------------------------ oracle
fn stack_valid(s: &StackD) -> bool {
    s.px > 0 && s.py > 0 && s.metals.iter().all(|m| m.entries().iter().all(|e| e.w > 0) && m.pitch() > 0 && (!m.shared || m.pitch() % (if m.horiz { s.py } else { s.px }) == 0))
}
/// Some(reason) when the case is outside the property's quantifier
fn out_of_domain(s: &StackD, c: &CellD) -> Option<&'static str> {
    if !stack_valid(s) { return Some("invalid stack"); }
    if c.metals > s.metals.len() { return Some("cell uses more metals than the stack has"); }
    // even widths / sizes so that centres are exact
    if s.metals.iter().any(|m| m.entries().iter().any(|e| e.w % 2 != 0) || m.cutsize % 2 != 0 || m.cutsize < 0) || s.vias.iter().any(|v| v.sx % 2 != 0 || v.sy % 2 != 0) { return Some("odd width or size"); }
    let check = |x: &[usize; 4]| -> bool {
        x[0] < c.metals && x[2] < c.metals && s.metals[x[0]].horiz != s.metals[x[2]].horiz && s.metals[x[0]].nsig() > 0 && s.metals[x[2]].nsig() > 0
    };
    if !c.cuts.iter().all(check) { return Some("cut outside the cell's layers / same direction / no signal tracks"); }
    if !c.assigns.iter().all(|(n, x)| check(x) && !n.is_empty() && (x[0] + 1 == x[2] || x[2] + 1 == x[0])) { return Some("assignment not on adjacent in-range layers"); }
    if c.insts.iter().any(|i| i.metals > s.metals.len()) { return Some("instance of a cell with more metals than the stack"); }
    None
}
fn crossing(s: &StackD, x: &[usize; 4]) -> Option<(i64, i64)> {
    let (mt, mc) = (&s.metals[x[0]], &s.metals[x[2]]);
    let (ct, cc) = (mt.center(x[1])?, mc.center(x[3])?);
    // a horizontal track's centre is a y coordinate
    Some(if mt.horiz { (cc, ct) } else { (ct, cc) })
}
pub fn judge(s: &StackD, c: &CellD, elems: &[ElemD]) -> Result<(), String> {
    // expected vias
    let mut want_vias: Vec<ElemD> = vec![];
    for (net, x) in &c.assigns {
        let bot = x[0].min(x[2]);
        let (cx, cy) = crossing(s, x).ok_or("no crossing")?;
        let vi = s.vias.iter().position(|v| v.bot == Some(bot)).ok_or_else(|| format!("an assignment on metal {} was compiled although the stack has no via from it", bot))?;
        let v = &s.vias[vi];
        want_vias.push(ElemD { via: true, layer: vi, net: Some(net.clone()), r: [cx - v.sx / 2, cy - v.sy / 2, cx + v.sx / 2, cy + v.sy / 2] });
    }
    let mut got_vias: Vec<ElemD> = elems.iter().filter(|e| e.via).cloned().collect();
    want_vias.sort(); got_vias.sort();
    if want_vias != got_vias {
        let d = want_vias.iter().find(|w| !got_vias.contains(w)).map(|w| format!("missing {:?}", w)).or_else(|| got_vias.iter().find(|g| !want_vias.contains(g)).map(|g| format!("unexpected {:?}", g))).unwrap_or_else(|| "multiplicity differs".into());
        return Err(format!("vias are not one per assignment, of the stack's size, centred on the crossing: {}", d));
    }
    for e in elems.iter().filter(|e| !e.via) {
        if e.layer >= c.metals { return Err(format!("wire on metal {} which the cell does not use", e.layer)); }
    }
    for layer in 0..c.metals {
        let m = &s.metals[layer];
        let (span, breadth) = if m.horiz { (c.ox * s.px, c.oy * s.py) } else { (c.oy * s.py, c.ox * s.px) };
        if breadth % m.pitch() != 0 { return Err(format!("compiled although the outline is not a whole number of metal-{} periods", layer)); }
        let nper = (breadth / m.pitch()) as usize;
        let nsig = m.nsig();
        // (perp start, perp width) -> list of (type, blocked spans, cut spans, global signal index)
        let mut tracks: std::collections::BTreeMap<(i64, i64), Vec<(Tt, Vec<(i64, i64)>, Option<usize>)>> = Default::default();
        for p in 0..nper {
            // instances intersecting this period (perpendicular extent), and their extent along the track
            let mut blocked: Vec<(i64, i64)> = vec![];
            for i in c.insts.iter().filter(|i| i.metals > layer) {
                let (ploc, psize, prefl, ppitch) = if m.horiz { (i.y, i.h, i.rv, s.py) } else { (i.x, i.w, i.rh, s.px) };
                let (lo, hi) = if prefl { ((ploc - psize) * ppitch, ploc * ppitch) } else { (ploc * ppitch, (ploc + psize) * ppitch) };
                if hi > m.pitch() * p as i64 && lo < m.pitch() * (p as i64 + 1) {
                    let (aloc, asize, arefl, apitch) = if m.horiz { (i.x, i.w, i.rh, s.px) } else { (i.y, i.h, i.rv, s.py) };
                    blocked.push(if arefl { ((aloc - asize) * apitch, aloc * apitch) } else { (aloc * apitch, (aloc + asize) * apitch) });
                }
            }
            let mut k = 0usize;
            for (tt, st, w) in m.period_tracks(p) {
                let gi = if tt == Tt::Sig { k += 1; Some(p * nsig + k - 1) } else { None };
                let mut gaps = blocked.clone();
                if let Some(gi) = gi {
                    for x in c.cuts.iter().filter(|x| x[0] == layer && x[1] == gi) {
                        let (cx, cy) = crossing(s, x).ok_or("no crossing")?;
                        let d = if m.horiz { cx } else { cy };
                        gaps.push((d - m.cutsize / 2, d + m.cutsize / 2));
                    }
                }
                tracks.entry((st, w)).or_default().push((tt, gaps, gi));
            }
        }
        // every rectangle of this layer sits exactly on a track
        let rects: Vec<&ElemD> = elems.iter().filter(|e| !e.via && e.layer == layer).collect();
        for e in &rects {
            let (a0, a1, p0, p1) = if m.horiz { (e.r[0], e.r[2], e.r[1], e.r[3]) } else { (e.r[1], e.r[3], e.r[0], e.r[2]) };
            if !tracks.contains_key(&(p0, p1 - p0)) { return Err(format!("rectangle {:?} on metal {} is not at a track position/width of the stack", e.r, layer)); }
            if a1 < a0 { return Err(format!("rectangle {:?} on metal {} has negative length", e.r, layer)); }
            if a0 < 0 || a1 > span { return Err(format!("rectangle {:?} on metal {} leaves the outline (0..{})", e.r, layer, span)); }
        }
        for ((st, w), ts) in &tracks {
            let on: Vec<&&ElemD> = rects.iter().filter(|e| if m.horiz { e.r[1] == *st && e.r[3] == st + w } else { e.r[0] == *st && e.r[2] == st + w }).collect();
            let ext = |e: &ElemD| if m.horiz { (e.r[0], e.r[2]) } else { (e.r[1], e.r[3]) };
            // gaps must lie inside the track and not overlap each other (else the compiler must have reported an error)
            for (_, gaps, _) in ts {
                let mut g = gaps.clone(); g.sort();
                for (lo, hi) in &g { if *lo < 0 || *hi > span || lo > hi { return Err(format!("compiled although a cut/blockage span {}..{} on metal {} leaves the track 0..{}", lo, hi, layer, span)); } }
                for wdw in g.windows(2) { if wdw[1].0 < wdw[0].1 { return Err(format!("compiled although cut/blockage spans {:?} and {:?} on metal {} overlap", wdw[0], wdw[1], layer)); } }
            }
            // coverage: at every elementary interval, (#wire rectangles) = (#tracks here) - (#tracks cut or blocked there)
            let mut bps: Vec<i64> = vec![0, span];
            for e in &on { let (lo, hi) = ext(e); bps.push(lo); bps.push(hi); }
            for (_, gaps, _) in ts { for (lo, hi) in gaps { bps.push(*lo); bps.push(*hi); } }
            bps.sort(); bps.dedup();
            for wdw in bps.windows(2) {
                let (lo, hi) = (wdw[0], wdw[1]);
                if lo < 0 || hi > span { continue; }
                let have = on.iter().filter(|e| { let (x0, x1) = ext(e); x0 <= lo && hi <= x1 }).count();
                let want = ts.iter().filter(|(_, gaps, _)| !gaps.iter().any(|(g0, g1)| *g0 <= lo && hi <= *g1)).count();
                if have != want { return Err(format!("metal {} track at {}+{}: span {}..{} is covered by {} wire rectangle(s), expected {} (wires, cuts and blocked spans must tile the track)", layer, st, w, lo, hi, have, want)); }
            }
            // nets
            for e in &on {
                let (x0, x1) = ext(e);
                if x0 == x1 { continue; }
                let kinds: Vec<&Tt> = ts.iter().map(|t| &t.0).collect();
                if kinds.iter().all(|k| **k == Tt::Pwr) { if e.net.as_deref() != Some("VDD") { return Err(format!("power rail piece {:?} on metal {} carries {:?}", e.r, layer, e.net)); } continue; }
                if kinds.iter().all(|k| **k == Tt::Gnd) { if e.net.as_deref() != Some("VSS") { return Err(format!("ground rail piece {:?} on metal {} carries {:?}", e.r, layer, e.net)); } continue; }
                if kinds.iter().any(|k| **k != Tt::Sig) { continue; } // coincident rails of different kinds: the stack itself is contradictory
                // signal track(s): nets of the assignments whose crossing lies on this piece
                let mut nets: Vec<(&String, bool)> = vec![]; // (net, strictly inside)
                for (net, x) in &c.assigns {
                    for (li, ti) in [(x[0], x[1]), (x[2], x[3])] {
                        if li != layer || !ts.iter().any(|t| t.2 == Some(ti)) { continue; }
                        let (cx, cy) = crossing(s, x).ok_or("no crossing")?;
                        let d = if m.horiz { cx } else { cy };
                        if x0 <= d && d <= x1 { nets.push((net, x0 < d && d < x1)); }
                    }
                }
                let strict: Vec<&String> = { let mut v: Vec<&String> = nets.iter().filter(|n| n.1).map(|n| n.0).collect(); v.sort(); v.dedup(); v };
                let any: Vec<&String> = { let mut v: Vec<&String> = nets.iter().map(|n| n.0).collect(); v.sort(); v.dedup(); v };
                if any.len() > 1 { continue; } // differing nets on one piece: outside the quantifier
                match (&e.net, strict.first(), any.first()) {
                    (None, Some(n), _) => return Err(format!("wire piece {:?} on metal {} covers the crossing assigned to net {} but carries no net", e.r, layer, n)),
                    (Some(g), _, Some(n)) if g != *n => return Err(format!("wire piece {:?} on metal {} carries net {} instead of {}", e.r, layer, g, n)),
                    (Some(g), _, None) => return Err(format!("wire piece {:?} on metal {} carries net {} although no assignment crosses it", e.r, layer, g)),
                    _ => {}
                }
            }
        }
    }
    Ok(())
}
pub fn oracle(line: &str) -> String {
    let p = match Sexp::parse_all(line) { Some(p) if p.len() >= 3 => p, _ => return "na".into() };
    let (sd, cd) = match (p_stack(&p[1]), p_cell(&p[2])) { (Some(s), Some(c)) => (s, c), _ => return "na".into() };
    if out_of_domain(&sd, &cd).is_some() { return "na".into(); }
    let res = crate::ops::run_line(line);
    if res == "err" { return "pass".into(); } // "either reports an error or …"
    if res == "panic" { return "fail the compiler panicked instead of reporting an error".into(); }
    let elems = match res.strip_prefix("ok ").and_then(|s| Sexp::parse_all(s)).and_then(|v| v.get(0).and_then(p_elems)) { Some(e) => e, None => return format!("fail {}", &res[..res.len().min(80)]) };
    match judge(&sd, &cd, &elems) { Ok(()) => "pass".into(), Err(e) => format!("fail {}", e) }
}
pub fn tag(line: &str) -> String {
    let p = match Sexp::parse_all(line) { Some(p) if p.len() >= 3 => p, _ => return "-".into() };
    let (sd, cd) = match (p_stack(&p[1]), p_cell(&p[2])) { (Some(s), Some(c)) => (s, c), _ => return "-".into() };
    let r = crate::ops::run_line(line);
    let mut f = vec![];
    if sd.metals.iter().any(|m| m.flip) { f.push("flip"); }
    if sd.metals.iter().any(|m| m.overlap != 0) { f.push("overlap"); }
    if !cd.insts.is_empty() { f.push("insts"); }
    if cd.insts.iter().any(|i| i.rh || i.rv) { f.push("reflected"); }
    if !cd.cuts.is_empty() { f.push("cuts"); }
    if !cd.assigns.is_empty() { f.push("assigns"); }
    format!("{}:{}m:{}{}", r.split(' ').next().unwrap_or("-"), cd.metals, if f.is_empty() { "plain".to_string() } else { f.join("+") }, if out_of_domain(&sd, &cd).is_some() { ":out-of-domain" } else { "" })
}

// ------------------------------------------------------------------ generator
fn gcd(a: i64, b: i64) -> i64 { if b == 0 { a.abs() } else { gcd(b, a % b) } }
fn lcm(a: i64, b: i64) -> i64 { a / gcd(a, b) * b }
fn gen_metal(rng: &mut Rng, horiz: bool) -> MetalD {
    let pitch = *rng.pick(&[240i64, 360, 480, 720]);
    let e = |tt: Tt, w: i64| EntryD { tt, w };
    let kind = rng.below(11);
    let (mut specs, offset, overlap, flip): (Vec<SpecD>, i64, i64, bool) = match kind {
        1 | 2 | 6 => { // asymmetric: positions change when the period is flipped
            let (g1, w1, g2, w2) = (20 + 2 * rng.range(0, 10), 20 + 2 * rng.range(0, 10), 10 + 2 * rng.range(0, 10), 30 + 2 * rng.range(0, 15));
            let rest = pitch - g1 - w1 - g2 - w2;
            (vec![SpecD::One(e(Tt::Gap, g1)), SpecD::One(e(Tt::Sig, w1)), SpecD::One(e(Tt::Gap, g2)), SpecD::One(e(Tt::Sig, w2)), SpecD::One(e(Tt::Gap, rest))], [0, -20, 6][rng.below(3) as usize], 0, rng.coin())
        }
        3 | 7 => { // shared rails at both ends, overlapping the neighbouring period (the sample PDK pattern)
            let r = [40i64, 60][rng.below(2) as usize];
            let n = 1 + rng.below(3) as i64;
            let w = 20;
            let g = (pitch - r - n * w) / (n + 1);
            let g = g - g % 2;
            let last = pitch + r - 2 * r - n * (g + w);
            (vec![SpecD::One(e(Tt::Gnd, r)), SpecD::Rep(vec![e(Tt::Gap, g), e(Tt::Sig, w)], n as usize), SpecD::One(e(Tt::Gap, last)), SpecD::One(e(Tt::Pwr, r))], -r / 2, r, true)
        }
        9 | 10 => { // rails only: a power-grid layer with no signal track at all
            let r = [40i64, 60, 90][rng.below(3) as usize];
            let g = 2 * rng.range(5, 20);
            if kind == 9 { (vec![SpecD::One(e(Tt::Pwr, r)), SpecD::One(e(Tt::Gap, g)), SpecD::One(e(Tt::Gnd, r)), SpecD::One(e(Tt::Gap, pitch - 2 * r - g))], [0, -r / 2][rng.below(2) as usize], 0, rng.coin()) }
            else { (vec![SpecD::One(e(Tt::Gap, g)), SpecD::One(e(Tt::Gnd, r)), SpecD::One(e(Tt::Gap, pitch - r - g))], 0, 0, rng.coin()) }
        }
        0 | 5 => { // plain: (sig, gap) repeated
            let n = [1i64, 2, 3][rng.below(3) as usize];
            let w = [20i64, 40, 60][rng.below(3) as usize];
            (vec![SpecD::Rep(vec![e(Tt::Sig, w), e(Tt::Gap, pitch / n - w)], n as usize)], [0, -10, -w / 2][rng.below(3) as usize], 0, rng.chance(1, 3))
        }
        _ => { // rails inside the period, asymmetric, no overlap
            let r = 40;
            let rest = pitch - r - 20 - 30 - 60 - 26 - r;
            (vec![SpecD::One(e(Tt::Pwr, r)), SpecD::One(e(Tt::Gap, 20)), SpecD::One(e(Tt::Sig, 30)), SpecD::One(e(Tt::Gap, 60)), SpecD::One(e(Tt::Sig, 26)), SpecD::One(e(Tt::Gap, rest)), SpecD::One(e(Tt::Gnd, r))], 0, 0, rng.coin())
        }
    };
    if rng.chance(1, 40) { specs.push(SpecD::One(e(Tt::Gap, 0))); } // invalid stack
    MetalD { horiz, cutsize: [20i64, 30, 50, 4][rng.below(4) as usize] / 2 * 2, offset, overlap, flip, shared: false, specs }
}
pub fn gen_case(rng: &mut Rng) -> (StackD, CellD) {
    let nm = 1 + rng.below(4) as usize;
    let first_h = rng.coin();
    let mut metals: Vec<MetalD> = (0..nm).map(|i| gen_metal(rng, (i % 2 == 0) == first_h)).collect();
    if nm >= 3 && rng.chance(1, 10) { metals[2].horiz = metals[1].horiz; } // two neighbouring layers in the same direction
    // primitive pitches: a common multiple of the layer pitches, so that every outline is a whole number of periods
    let mut px = 1i64; let mut py = 1i64;
    for m in &metals { if m.pitch() > 0 { if m.horiz { py = lcm(py, m.pitch()); } else { px = lcm(px, m.pitch()); } } }
    if px == 1 { px = 240; }
    if py == 1 { py = 240; }
    if rng.chance(1, 25) { px /= 2; } // sometimes not a multiple: an error is expected
    // layers COARSER than the primitive pitch: the primitive pitch is a half / third of the common period,
    // and the outline is (mostly) a whole number of common periods again — an instance edge then falls
    // inside a layer period instead of on its boundary
    let (mut kx, mut ky) = (1i64, 1i64);
    if rng.chance(1, 3) { let k = 2 + rng.below(2) as i64; if px % k == 0 && px / k >= 60 { px /= k; kx = k; } }
    if rng.chance(1, 3) { let k = 2 + rng.below(2) as i64; if py % k == 0 && py / k >= 60 { py /= k; ky = k; } }
    if rng.chance(1, 6) { metals[0].shared = true; }
    let mut vias: Vec<ViaD> = vec![];
    if rng.chance(1, 5) { vias.push(ViaD { bot: None, sx: 10, sy: 10 }); }
    for i in 0..nm.saturating_sub(1) { if !rng.chance(1, 12) { vias.push(ViaD { bot: Some(i), sx: 2 * rng.range(4, 20), sy: 2 * rng.range(4, 20) }); } }
    let stack = StackD { px, py, metals, vias };
    let cm = 1 + rng.below(nm as u64) as usize;
    let (mut ox, mut oy) = (1 + rng.below(3) as i64, 1 + rng.below(3) as i64);
    if kx > 1 && !rng.chance(1, 8) { ox = kx * (1 + rng.below(2) as i64); }
    if ky > 1 && !rng.chance(1, 8) { oy = ky * (1 + rng.below(2) as i64); }
    let mut insts = vec![];
    for _ in 0..rng.below(3) {
        let (w, h) = (1 + rng.below(2) as i64, 1 + rng.below(2) as i64);
        let (rh, rv) = (rng.chance(1, 3), rng.chance(1, 3));
        // mostly inside the outline
        let x = if rh { rng.range(w, ox.max(w)) } else { rng.range(0, (ox - w).max(0)) };
        let y = if rv { rng.range(h, oy.max(h)) } else { rng.range(0, (oy - h).max(0)) };
        insts.push(InstD { x, y, rh, rv, w, h, metals: rng.below(cm as u64 + 1) as usize });
    }
    let mut cell = CellD { ox, oy, metals: cm, insts, cuts: vec![], assigns: vec![] };
    let ntracks = |l: usize, st: &StackD| -> usize {
        let m = &st.metals[l];
        if m.pitch() <= 0 { return 1; }
        let breadth = if m.horiz { oy * st.py } else { ox * st.px };
        ((breadth / m.pitch()).max(1) as usize) * m.nsig().max(1)
    };
    if cm >= 2 {
        for _ in 0..rng.below(4) {
            let l = rng.below(cm as u64) as usize;
            let l2 = if l == 0 { 1 } else if l + 1 >= cm { l - 1 } else if rng.coin() { l + 1 } else { l - 1 };
            let l2 = if rng.chance(1, 30) { rng.below(stack.metals.len() as u64) as usize } else { l2 };
            if (stack.metals[l].nsig() == 0 || stack.metals.get(l2).map_or(true, |m| m.nsig() == 0)) && !rng.chance(1, 20) { continue; } // rails-only layers take no cuts
            cell.cuts.push([l, rng.below(ntracks(l, &stack) as u64) as usize, l2, rng.below(ntracks(l2, &stack) as u64) as usize]);
        }
        for _ in 0..rng.below(4) {
            let l = rng.below(cm as u64 - 1) as usize;
            let (a, b) = if rng.coin() { (l, l + 1) } else { (l + 1, l) };
            if (stack.metals[a].nsig() == 0 || stack.metals[b].nsig() == 0) && !rng.chance(1, 20) { continue; }
            cell.assigns.push(([ "a", "b", "clk" ][rng.below(3) as usize].to_string(), [a, rng.below(ntracks(a, &stack) as u64) as usize, b, rng.below(ntracks(b, &stack) as u64) as usize]));
        }
    }
    (stack, cell)
}
pub fn gen(thorough: bool, rng: &mut Rng, out: &mut Vec<String>) {
    let n = if thorough { 30000 } else { 3000 };
    for _ in 0..n {
        let (s, c) = gen_case(rng);
        out.push(format!("tetris.compile {} {}", stack_s(&s), cell_s(&c)));
    }
}
