//! C17: dependency orderers. Ops:
//!   dep.generic (adj..) (items..)   layout21utils::DepOrder over integer nodes
//!   dep.raw     (adj..) (items..)   layout21raw::DepOrder::order on a raw Library (cells listed in `items` order)
//!   dep.tetris  (adj..) (items..)   layout21tetris Library::dep_order
//!   dep.gds     (adj..) (items..)   Library::from_gds cell order (GdsDepOrder); adj entries >= n are dangling refs
//! Result: `ok (n0 n1 ...)` or `err`.
use crate::rng::Rng;
use crate::sexp::*;
use layout21utils::{DepOrder, DepOrderer, Ptr};
use std::cell::RefCell;

thread_local! {
    static ADJ: RefCell<Vec<Vec<usize>>> = RefCell::new(vec![]);
}
struct IntOrder;
impl DepOrder for IntOrder {
    type Item = usize;
    type Error = ();
    fn process(item: &usize, orderer: &mut DepOrderer<Self>) -> Result<(), ()> {
        let deps: Vec<usize> = ADJ.with(|a| a.borrow().get(*item).cloned().unwrap_or_default());
        for d in deps {
            orderer.push(&d)?;
        }
        Ok(())
    }
    fn fail() -> Result<(), ()> {
        Err(())
    }
}

thread_local! {
    static OPT: RefCell<Vec<Vec<usize>>> = RefCell::new(vec![]);
}
/// a client whose `process` TOLERATES the failure of optional dependencies (it carries on without them)
struct TolerantOrder;
impl DepOrder for TolerantOrder {
    type Item = usize;
    type Error = ();
    fn process(item: &usize, orderer: &mut DepOrderer<Self>) -> Result<(), ()> {
        let opt: Vec<usize> = OPT.with(|a| a.borrow().get(*item).cloned().unwrap_or_default());
        for d in opt { let _ = orderer.push(&d); }
        let deps: Vec<usize> = ADJ.with(|a| a.borrow().get(*item).cloned().unwrap_or_default());
        for d in deps { orderer.push(&d)?; }
        Ok(())
    }
    fn fail() -> Result<(), ()> { Err(()) }
}
/// `dep.tolerant (required adj) (items) (optional adj)`: oracle only (the model has no optional edges)
pub fn op_tolerant(args: &[Sexp]) -> String {
    let (tbl, items) = match parse_graph(args) { Some(x) => x, None => return "bad-op".into() };
    let opt = match parse_earlier(args, tbl.len()) { Some(Some(o)) => o, _ => return "bad-op".into() };
    ADJ.with(|a| *a.borrow_mut() = tbl);
    OPT.with(|a| *a.borrow_mut() = opt);
    match TolerantOrder::order(&items) { Ok(v) => fmt_ok(&v), Err(_) => "err".into() }
}

pub fn parse_graph(args: &[Sexp]) -> Option<(Vec<Vec<usize>>, Vec<usize>)> {
    let adj = args.get(0)?.list()?;
    let mut tbl = vec![];
    for a in adj {
        let mut row = vec![];
        for x in a.list()? {
            row.push(x.int()? as usize);
        }
        tbl.push(row);
    }
    let mut items = vec![];
    for x in args.get(1)?.list()? {
        items.push(x.int()? as usize);
    }
    Some((tbl, items))
}
fn fmt_ok(v: &[usize]) -> String {
    format!("ok {}", l(v.iter().map(|x| of_int(*x as i64)).collect()))
}
fn idx_of_name(s: &str) -> usize {
    s[1..].parse().unwrap()
}

pub fn op_generic(args: &[Sexp]) -> String {
    let (tbl, items) = match parse_graph(args) {
        Some(x) => x,
        None => return "bad-op".into(),
    };
    ADJ.with(|a| *a.borrow_mut() = tbl);
    match IntOrder::order(&items) {
        Ok(v) => fmt_ok(&v),
        Err(_) => "err".into(),
    }
}

/// the earlier graph of a history case: `(adj) (items) (adj0)` — the cells are first wired as `adj0` and the
/// library is ordered once; then the SAME cells are rewired in place to `adj` (the library's cell list is not
/// touched) and ordered again. The answer is the second ordering: no state may survive the edit.
fn parse_earlier(args: &[Sexp], n: usize) -> Option<Option<Vec<Vec<usize>>>> {
    match args.get(2) {
        None => Some(None),
        Some(a) => {
            let mut tbl0 = vec![];
            for r in a.list()? { tbl0.push(r.list()?.iter().map(|x| x.int().map(|v| v as usize)).collect::<Option<Vec<_>>>()?); }
            if tbl0.len() != n || tbl0.iter().any(|r| r.iter().any(|d| *d >= n)) { return None; }
            Some(Some(tbl0))
        }
    }
}
pub fn op_raw(args: &[Sexp]) -> String {
    use layout21raw as raw;
    let (tbl, items) = match parse_graph(args) {
        Some(x) => x,
        None => return "bad-op".into(),
    };
    let n = tbl.len();
    let earlier = match parse_earlier(args, n) { Some(e) => e, None => return "bad-op".into() };
    // a leaf with an odd index is built as an abstract-only cell (no layout view): such cells occur
    // in every library imported from LEF and must be ordered like any other leaf
    let layoutless = |i: usize| tbl[i].is_empty() && i % 2 == 1;
    let cells: Vec<Ptr<raw::Cell>> = (0..n)
        .map(|i| {
            if layoutless(i) {
                let mut c = raw::Cell::new(format!("c{}", i));
                c.abs = Some(raw::Abstract::new(format!("c{}", i), raw::Polygon { points: vec![raw::Point::new(0, 0), raw::Point::new(1, 0), raw::Point::new(1, 1)] }));
                return Ptr::new(c);
            }
            let mut lay = raw::Layout::default();
            lay.name = format!("c{}", i);
            Ptr::new(raw::Cell::from(lay))
        })
        .collect();
    let wire = |g: &Vec<Vec<usize>>| {
        for i in 0..n {
            if layoutless(i) { continue; }
            let mut c = cells[i].write().unwrap();
            let lay = c.layout.as_mut().unwrap();
            lay.insts.clear();
            for (k, d) in g[i].iter().enumerate() {
                if i < g.len() && layoutless(i) { continue; }
                lay.insts.push(raw::Instance {
                    inst_name: format!("i{}", k),
                    cell: cells[*d].clone(),
                    loc: raw::Point::new(0, 0),
                    reflect_vert: false,
                    angle: None,
                });
            }
        }
    };
    let mut lib = raw::Library::new("lib", raw::Units::Nano);
    for i in &items {
        lib.cells.push(cells[*i].clone());
    }
    if let Some(g0) = &earlier {
        wire(g0);
        let _ = raw::DepOrder::order(&lib);
        let _ = lib.to_proto();
    }
    wire(&tbl);
    let r = raw::DepOrder::order(&lib);
    let out = match r {
        Ok(v) => fmt_ok(&v.iter().map(|p| idx_of_name(&p.read().unwrap().name)).collect::<Vec<_>>()),
        Err(_) => "err".into(),
    };
    // break reference cycles so that memory is released
    for c in &cells {
        c.write().unwrap().layout = None;
    }
    out
}

pub fn op_tetris(args: &[Sexp]) -> String {
    use layout21tetris as t;
    let (tbl, items) = match parse_graph(args) {
        Some(x) => x,
        None => return "bad-op".into(),
    };
    let n = tbl.len();
    let earlier = match parse_earlier(args, n) { Some(e) => e, None => return "bad-op".into() };
    let cells: Vec<Ptr<t::cell::Cell>> = (0..n)
        .map(|i| {
            let lay = t::layout::Layout::new(format!("c{}", i), 0, t::outline::Outline::rect(1, 1).unwrap());
            Ptr::new(t::cell::Cell::from(lay))
        })
        .collect();
    // the later dependencies of every other case are ARRAY instances in `places`; the array definition of a target cell
    // is ONE shared object, instantiated from every cell that uses it (a cycle may be entered through it from outside)
    let arrays_too = (n + items.len()) % 2 == 1;
    let shared: Vec<Ptr<t::array::Array>> = (0..n).map(|d| Ptr::new(t::array::Array { name: format!("s{}", d), unit: t::array::Arrayable::Instance(cells[d].clone()), count: 1, sep: t::placement::Separation::default() })).collect();
    let wire = |g: &Vec<Vec<usize>>| {
        for i in 0..n {
            let mut c = cells[i].write().unwrap();
            let lay = c.layout.as_mut().unwrap();
            lay.instances = Default::default();
            lay.places.clear();
            for (k, d) in g[i].iter().enumerate() {
                // the first half of a cell's dependencies stay plain instances, the second half are arrays: the orderer
                // walks `instances` before `places`, so the visiting order is the listed order
                if arrays_too && k >= g[i].len() / 2 {
                    lay.places.push(t::placement::Placeable::Array(Ptr::new(t::array::ArrayInstance { name: format!("ai{}", k), array: shared[*d].clone(), loc: (k as isize, 0).into(), reflect_horiz: false, reflect_vert: false })));
                    continue;
                }
                lay.instances.add(t::instance::Instance {
                    inst_name: format!("i{}", k),
                    cell: cells[*d].clone(),
                    loc: (0, 0).into(),
                    reflect_horiz: false,
                    reflect_vert: false,
                });
            }
        }
    };
    let mut lib = t::library::Library::new("lib");
    for i in &items {
        lib.cells.push(cells[*i].clone());
    }
    if let Some(g0) = &earlier {
        wire(g0);
        let _ = lib.dep_order();
        // a placement run in between: the placer returns the library it was given
        let st = t::stack::Stack { units: layout21raw::Units::default(), boundary_layer: None, prim: t::stack::PrimitiveLayer::new((100, 100).into()), metals: Vec::new(), vias: Vec::new(), rawlayers: None };
        if let Ok(vs) = st.validate() {
            if let Ok((l2, _)) = t::placer::Placer::place(lib.clone(), vs) { lib = l2; }
        }
    }
    wire(&tbl);
    let out = match lib.dep_order() {
        Ok(v) => fmt_ok(&v.iter().map(|p| idx_of_name(&p.read().unwrap().name)).collect::<Vec<_>>()),
        Err(_) => "err".into(),
    };
    for c in &cells {
        c.write().unwrap().layout = None;
    }
    for a in &shared { if let Ok(mut a) = a.write() { a.count = 0; a.unit = t::array::Arrayable::Instance(Ptr::new(t::cell::Cell::new("x"))); } }
    out
}

/// the tetris → raw conversion (`Library::to_raw`): dependencies reached only through `places` — placeable
/// instances and one-element arrays — which become instances during placement; result = the raw library's cell order
pub fn op_tetrisraw(args: &[Sexp]) -> String {
    use layout21tetris as t;
    use t::array::{Array, ArrayInstance, Arrayable};
    use t::placement::{Placeable, Separation};
    let (tbl, items) = match parse_graph(args) {
        Some(x) => x,
        None => return "bad-op".into(),
    };
    let n = tbl.len();
    let cells: Vec<Ptr<t::cell::Cell>> = (0..n)
        .map(|i| Ptr::new(t::cell::Cell::from(t::layout::Layout::new(format!("c{}", i), 0, t::outline::Outline::rect(40, 40).unwrap()))))
        .collect();
    // every other case the array DEFINITION of a target cell is one shared object: all array instances of that cell, in
    // whatever cell they stand, point at the same `Ptr<Array>` (an array definition is meant to be instantiated many times)
    let share = (n + items.len()) % 2 == 0;
    let shared: Vec<Ptr<Array>> = (0..n).map(|d| Ptr::new(Array { name: format!("s{}", d), unit: Arrayable::Instance(cells[d].clone()), count: 1, sep: Separation::default() })).collect();
    for i in 0..n {
        let mut c = cells[i].write().unwrap();
        let lay = c.layout.as_mut().unwrap();
        for (k, d) in tbl[i].iter().enumerate() {
            if k % 2 == 0 {
                let arr = if share { shared[*d].clone() } else { Ptr::new(Array { name: format!("a{}", k), unit: Arrayable::Instance(cells[*d].clone()), count: 1, sep: Separation::default() }) };
                lay.places.push(Placeable::Array(Ptr::new(ArrayInstance { name: format!("ai{}", k), array: arr, loc: (k as isize, 0).into(), reflect_horiz: false, reflect_vert: false })));
            } else {
                lay.places.push(Placeable::Instance(Ptr::new(t::instance::Instance { inst_name: format!("i{}", k), cell: cells[*d].clone(), loc: (k as isize, 1).into(), reflect_horiz: false, reflect_vert: false })));
            }
        }
    }
    let mut lib = t::library::Library::new("lib");
    for i in &items {
        lib.cells.push(cells[*i].clone());
    }
    let mut rawlayers = layout21raw::Layers::default();
    let boundary_layer = Some(rawlayers.add(layout21raw::Layer::from_pairs(0, &[(0, layout21raw::LayerPurpose::Outline)]).unwrap()));
    let stack = t::stack::Stack { units: layout21raw::Units::default(), boundary_layer, prim: t::stack::PrimitiveLayer::new((100, 100).into()), metals: Vec::new(), vias: Vec::new(), rawlayers: Some(Ptr::new(rawlayers)) };
    let out = match stack.validate() {
        Err(_) => "bad-op".to_string(),
        Ok(vs) => match lib.to_raw(vs) {
            Err(_) => "err".into(),
            Ok(rl) => {
                let rl = rl.read().unwrap();
                let v: Vec<usize> = rl.cells.iter().map(|c| idx_of_name(&c.read().unwrap().name)).collect();
                // break the raw library's instance pointers
                for c in rl.cells.iter() { let mut c = c.write().unwrap(); c.layout = None; }
                fmt_ok(&v)
            }
        },
    };
    for c in &cells {
        if let Ok(mut c) = c.write() { c.layout = None; }
    }
    for a in &shared { if let Ok(mut a) = a.write() { a.count = 0; a.unit = Arrayable::Instance(Ptr::new(t::cell::Cell::new("x"))); } }
    out
}


// ------------------------------------------------------------------ placement order with ports and assignments
mod portplace {
    pub use layout21tetris::abs;
    pub use layout21tetris::cell::Cell;
    pub use layout21tetris::instance::Instance;
    pub use layout21tetris::layout::Layout;
    pub use layout21tetris::library::Library;
    pub use layout21tetris::outline::Outline;
    pub use layout21tetris::placement::{Align, Placeable, RelAssign, RelativePlace, Separation, Side};
    pub use layout21tetris::placer::Placer;
    pub use layout21tetris::raw::{self, Dir, LayoutResult, Units};
    pub use layout21tetris::stack::*;
    pub use layout21tetris::tracks::*;
    pub use layout21tetris::utils::Ptr;
    pub use layout21tetris::validate::ValidStack;
    /// A small three-metal stack, sufficient for locating `ZTopEdge` ports
    pub fn stack() -> LayoutResult<ValidStack> {
        let mut rawlayers = raw::Layers::default();
        let metal_purps = [
            (255, raw::LayerPurpose::Obstruction),
            (20, raw::LayerPurpose::Drawing),
            (5, raw::LayerPurpose::Label),
            (16, raw::LayerPurpose::Pin),
        ];
        let via_purps = [
            (255, raw::LayerPurpose::Obstruction),
            (44, raw::LayerPurpose::Drawing),
            (5, raw::LayerPurpose::Label),
            (16, raw::LayerPurpose::Pin),
        ];
        let horiz = |name: &str, num: i16, prim: PrimitiveMode, rawlayers: &mut raw::Layers| -> LayoutResult<MetalLayer> {
            Ok(MetalLayer {
                name: name.into(),
                entries: vec![
                    TrackSpec::gnd(480),
                    TrackSpec::repeat(vec![TrackEntry::gap(200), TrackEntry::sig(140)], 6),
                    TrackSpec::gap(200),
                    TrackSpec::pwr(480),
                ],
                dir: Dir::Horiz,
                offset: (-240).into(),
                cutsize: (250).into(),
                overlap: (480).into(),
                raw: Some(rawlayers.add(raw::Layer::from_pairs(num, &metal_purps)?)),
                flip: FlipMode::EveryOther,
                prim,
            })
        };
        let boundary_layer = Some(rawlayers.add(raw::Layer::from_pairs(
            236,
            &[(0, raw::LayerPurpose::Outline)],
        )?));
        let met1 = horiz("met1", 68, PrimitiveMode::Split, &mut rawlayers)?;
        let met2 = MetalLayer {
            name: "met2".into(),
            entries: vec![TrackSpec::sig(140), TrackSpec::gap(320)],
            dir: Dir::Vert,
            cutsize: (250).into(),
            offset: (-70).into(),
            overlap: (0).into(),
            raw: Some(rawlayers.add(raw::Layer::from_pairs(69, &metal_purps)?)),
            flip: FlipMode::None,
            prim: PrimitiveMode::Stack,
        };
        let met3 = horiz("met3", 70, PrimitiveMode::Stack, &mut rawlayers)?;
        let met4 = MetalLayer {
            name: "met4".into(),
            entries: vec![
                TrackSpec::gnd(510),
                TrackSpec::repeat(vec![TrackEntry::gap(410), TrackEntry::sig(50)], 8),
                TrackSpec::gap(410),
                TrackSpec::pwr(510),
            ],
            dir: Dir::Vert,
            cutsize: (250).into(),
            offset: (-255).into(),
            overlap: (510).into(),
            raw: Some(rawlayers.add(raw::Layer::from_pairs(71, &metal_purps)?)),
            flip: FlipMode::EveryOther,
            prim: PrimitiveMode::Stack,
        };
        let stack = Stack {
            units: Units::Nano,
            boundary_layer,
            prim: PrimitiveLayer {
                pitches: (460, 2720).into(),
            },
            metals: vec![met1, met2, met3, met4],
            vias: vec![
                ViaLayer {
                    name: "mcon".into(),
                    size: (240, 240).into(),
                    bot: ViaTarget::Primitive,
                    top: ViaTarget::Metal(0),
                    raw: Some(rawlayers.add(raw::Layer::from_pairs(67, &via_purps)?)),
                },
                ViaLayer {
                    name: "via1".into(),
                    size: (240, 240).into(),
                    bot: 0.into(),
                    top: 1.into(),
                    raw: Some(rawlayers.add(raw::Layer::from_pairs(68, &via_purps)?)),
                },
                ViaLayer {
                    name: "via2".into(),
                    size: (240, 240).into(),
                    bot: 1.into(),
                    top: 2.into(),
                    raw: Some(rawlayers.add(raw::Layer::from_pairs(69, &via_purps)?)),
                },
                ViaLayer {
                    name: "via3".into(),
                    size: (240, 240).into(),
                    bot: 2.into(),
                    top: 3.into(),
                    raw: Some(rawlayers.add(raw::Layer::from_pairs(70, &via_purps)?)),
                },
            ],
            rawlayers: Some(Ptr::new(rawlayers)),
        };
        stack.validate()
    }
    
    
}
/// `dep.ports (f0 f1 ..) (e0 e1 ..)`: k instances of a unit cell whose abstract has a port. Flag fj: 0 = instance j stands in
/// `Layout::instances`, 1 = in `Layout::places`, 2 = in `places` AND a net assignment is placed relative to its port.
/// The entries e (2j = instance j, 2j+1 = the assignment at instance j's port) give the order of `places`.
/// Result: what the placed layout holds — every instance once, every assignment once, nothing left in `places`.
pub fn op_ports(args: &[Sexp]) -> String {
    use portplace::*;
    let r = (|| -> Option<String> {
        let flags: Vec<i64> = args.get(0)?.list()?.iter().map(|x| x.int()).collect::<Option<Vec<_>>>()?;
        let order: Vec<i64> = args.get(1)?.list()?.iter().map(|x| x.int()).collect::<Option<Vec<_>>>()?;
        let mut lib = Library::new("ports");
        let mut lil = Cell::new("lil");
        lil.layout = Some(Layout::new("lil", 1, Outline::rect(2, 1).ok()?));
        let mut lil_abs = abs::Abstract::new("lil", 1, Outline::rect(2, 1).ok()?);
        lil_abs.ports.push(abs::Port { name: "PPP".into(), kind: abs::PortKind::ZTopEdge { track: 0, side: abs::Side::BottomOrLeft, into: (2, RelZ::Above) } });
        lil.abs = Some(lil_abs);
        let lil = lib.cells.add(lil);
        let mut parent = Layout::new("parent", 3, Outline::rect(40, 35).ok()?);
        let insts: Vec<Ptr<Instance>> = (0..flags.len()).map(|j| Ptr::new(Instance { inst_name: format!("i{}", j), cell: lil.clone(), loc: (3 * j as isize, 0isize).into(), reflect_horiz: false, reflect_vert: false })).collect();
        for (j, f) in flags.iter().enumerate() { if *f == 0 { parent.instances.push(insts[j].clone()); } }
        for e in &order {
            let j = (*e / 2) as usize;
            if j >= flags.len() { return None; }
            if e % 2 == 0 { if flags[j] >= 1 { parent.places.push(Placeable::Instance(insts[j].clone())); } }
            else if flags[j] == 2 {
                parent.places.push(Placeable::Assign(Ptr::new(RelAssign { net: format!("n{}", j), loc: RelativePlace {
                    to: Placeable::Port { inst: insts[j].clone(), port: "PPP".into() }, align: Align::Center, side: Side::Left, sep: Separation::z(2) } })));
            }
        }
        // a variant of the same layout in the same library (as `Layout::clone()` makes one): it shares the instance OBJECTS that
        // stand in `places`; both layouts are placed in one run and each must end up holding every one of its instances
        let mut twin = Layout::new("twin", 3, Outline::rect(40, 35).ok()?);
        let mut twin_names: Vec<String> = vec![];
        for e in &order {
            let j = (*e / 2) as usize;
            if e % 2 == 0 && flags[j] >= 1 { twin.places.push(Placeable::Instance(insts[j].clone())); twin_names.push(format!("i{}", j)); }
        }
        twin_names.sort();
        let parent = lib.cells.add(parent);
        let twin = lib.cells.add(twin);
        let st = stack().ok()?;
        Some(match Placer::place(lib, st) {
            Err(_) => "err".into(),
            Ok(_) => {
                let p = parent.read().ok()?;
                let ly = p.layout.as_ref()?;
                let mut names: Vec<String> = ly.instances.iter().map(|i| i.read().unwrap().inst_name.clone()).collect();
                names.sort();
                let mut nets: Vec<String> = ly.assignments.iter().map(|a| a.net.clone()).collect();
                nets.sort();
                let tw = twin.read().ok()?;
                let tl = tw.layout.as_ref()?;
                let mut tnames: Vec<String> = tl.instances.iter().map(|i| i.read().unwrap().inst_name.clone()).collect();
                tnames.sort();
                let twin_note = if tnames == twin_names && tl.places.is_empty() { String::new() } else { format!(" (twin-holds {} of {})", tnames.join(","), twin_names.join(",")) };
                format!("ok (insts {}) (assigns {}) (left {}){}", names.join(" "), nets.join(" "), ly.places.len(), twin_note)
            }
        })
    })();
    r.unwrap_or("bad-op".into())
}
fn ports_expected(line: &str) -> Option<String> {
    let p = Sexp::parse_all(line)?;
    let flags: Vec<i64> = p.get(1)?.list()?.iter().map(|x| x.int()).collect::<Option<Vec<_>>>()?;
    let order: Vec<i64> = p.get(2)?.list()?.iter().map(|x| x.int()).collect::<Option<Vec<_>>>()?;
    // an instance in `places` must be listed to exist; an assignment likewise
    let mut names: Vec<String> = vec![]; let mut nets: Vec<String> = vec![];
    for (j, f) in flags.iter().enumerate() {
        let listed_i = order.iter().filter(|e| **e == 2 * j as i64).count();
        let listed_a = order.iter().filter(|e| **e == 2 * j as i64 + 1).count();
        if *f == 0 { names.push(format!("i{}", j)); } else { for _ in 0..listed_i.min(1) { names.push(format!("i{}", j)); } if listed_i > 1 { return None; } }
        if *f == 2 { if listed_a > 1 || (listed_a == 1 && listed_i == 0) { return None; } if listed_a == 1 { nets.push(format!("n{}", j)); } }
    }
    names.sort(); nets.sort();
    Some(format!("ok (insts {}) (assigns {}) (left 0)", names.join(" "), nets.join(" ")))
}

pub fn op_gds(args: &[Sexp]) -> String {
    use gds21::*;
    let (tbl, items) = match parse_graph(args) {
        Some(x) => x,
        None => return "bad-op".into(),
    };
    let mut lib = GdsLibrary::new("lib");
    for i in &items {
        let mut s = GdsStruct::new(format!("s{}", i));
        for (k, d) in tbl[*i].iter().enumerate() {
            if k % 3 == 2 {
                s.elems.push(GdsElement::GdsArrayRef(GdsArrayRef {
                    name: format!("s{}", d),
                    // alternate between a "specified rectangular" lattice and a transposed / skewed one:
                    // whatever the importer does with the array, the reference is a dependency
                    xy: match (k + *i) % 3 {
                        0 => [GdsPoint::new(0, 0), GdsPoint::new(10, 0), GdsPoint::new(0, 10)],
                        1 => [GdsPoint::new(0, 0), GdsPoint::new(0, 10), GdsPoint::new(10, 0)],
                        _ => [GdsPoint::new(0, 0), GdsPoint::new(10, 5), GdsPoint::new(-5, 10)],
                    },
                    cols: 1,
                    rows: 1,
                    ..Default::default()
                }));
            } else {
                s.elems.push(GdsElement::GdsStructRef(GdsStructRef {
                    name: format!("s{}", d),
                    xy: GdsPoint::new(0, 0),
                    ..Default::default()
                }));
            }
        }
        lib.structs.push(s);
    }
    match layout21raw::Library::from_gds(&lib, None) {
        Ok(rawlib) => fmt_ok(&rawlib.cells.iter().map(|p| idx_of_name(&p.read().unwrap().name)).collect::<Vec<_>>()),
        Err(_) => "err".into(),
    }
}

// ---------------------------------------------------------------- generation

fn fmt_case(op: &str, tbl: &[Vec<usize>], items: &[usize]) -> String {
    let adj = l(tbl.iter().map(|r| l(r.iter().map(|x| of_int(*x as i64)).collect())).collect());
    let it = l(items.iter().map(|x| of_int(*x as i64)).collect());
    format!("{} {} {}", op, adj, it)
}
fn graph_from_bits(n: usize, bits: u64, self_loops: bool) -> Vec<Vec<usize>> {
    let mut tbl = vec![vec![]; n];
    let mut k = 0;
    for i in 0..n {
        for j in 0..n {
            if i == j && !self_loops {
                continue;
            }
            if bits >> k & 1 == 1 {
                tbl[i].push(j);
            }
            k += 1;
        }
    }
    tbl
}
fn perms(n: usize) -> Vec<Vec<usize>> {
    fn go(cur: &mut Vec<usize>, used: &mut Vec<bool>, n: usize, out: &mut Vec<Vec<usize>>) {
        if cur.len() == n {
            out.push(cur.clone());
            return;
        }
        for i in 0..n {
            if !used[i] {
                used[i] = true;
                cur.push(i);
                go(cur, used, n, out);
                cur.pop();
                used[i] = false;
            }
        }
    }
    let mut out = vec![];
    go(&mut vec![], &mut vec![false; n], n, &mut out);
    out
}
fn shuffle(rng: &mut Rng, v: &mut Vec<usize>) {
    for i in (1..v.len()).rev() {
        let j = rng.below(i as u64 + 1) as usize;
        v.swap(i, j);
    }
}
pub fn random_graph(rng: &mut Rng, n: usize, cyclic: bool) -> Vec<Vec<usize>> {
    // random DAG on a hidden topological order, optional back edges
    let mut topo: Vec<usize> = (0..n).collect();
    shuffle(rng, &mut topo);
    let mut tbl = vec![vec![]; n];
    let dens = 1 + rng.below(4);
    for a in 0..n {
        for _ in 0..rng.below(dens + 1) {
            if a == 0 {
                break;
            }
            let b = rng.below(a as u64) as usize;
            tbl[topo[a]].push(topo[b]); // later depends on earlier
            if rng.chance(1, 6) {
                tbl[topo[a]].push(topo[b]); // duplicate instance of the same cell
            }
        }
    }
    if cyclic {
        let k = 1 + rng.below(2);
        for _ in 0..k {
            let a = rng.below(n as u64) as usize;
            let b = rng.below(a as u64 + 1) as usize;
            tbl[topo[b]].push(topo[a]); // back edge (self-loop when a == b)
        }
    }
    tbl
}

pub fn gen(thorough: bool, rng: &mut Rng, out: &mut Vec<String>) {
    // placement order with ports: every arrangement of up to three instances (in `instances` / in `places` / with a port
    // assignment) and every listing order of the placeables
    for k in 1..=3usize {
        let mut flags = vec![0i64; k];
        loop {
            let entries: Vec<i64> = (0..2 * k as i64).collect();
            let ps = perms(2 * k);
            let step = if thorough || k < 3 { 1 } else { 7 };
            for (pi, perm) in ps.iter().enumerate() {
                if pi % step != 0 { continue; }
                let ord: Vec<String> = perm.iter().map(|x| entries[*x].to_string()).collect();
                out.push(format!("dep.ports ({}) ({})", flags.iter().map(|f| f.to_string()).collect::<Vec<_>>().join(" "), ord.join(" ")));
            }
            // next flag vector (base 3)
            let mut c = 0; while c < k { flags[c] += 1; if flags[c] < 3 { break; } flags[c] = 0; c += 1; }
            if c == k { break; }
        }
    }
    // exhaustive: all digraphs with self-loops on 1..3 nodes x all listing orders (generic + embedded)
    for n in 1..=3usize {
        let ps = perms(n);
        for bits in 0..(1u64 << (n * n)) {
            let tbl = graph_from_bits(n, bits, true);
            for p in &ps {
                out.push(fmt_case("dep.generic", &tbl, p));
            }
            let p = rng.pick(&ps).clone();
            out.push(fmt_case("dep.raw", &tbl, &p));
            out.push(fmt_case("dep.tetris", &tbl, &p));
            out.push(fmt_case("dep.tetrisraw", &tbl, &p));
            out.push(fmt_case("dep.gds", &tbl, &p));
        }
    }
    // all digraphs with self-loops on 4 nodes (2^16): every listing (thorough) or one random listing (quick)
    let ps4 = perms(4);
    for bits in 0..(1u64 << 16) {
        let tbl = graph_from_bits(4, bits, true);
        if thorough {
            for p in &ps4 {
                out.push(fmt_case("dep.generic", &tbl, p));
            }
        } else {
            { let p = rng.pick(&ps4[..]).clone(); out.push(fmt_case("dep.generic", &tbl, &p)); }
        }
        if thorough || bits % 16 == rng.below(16) {
            let p = rng.pick(&ps4).clone();
            out.push(fmt_case(["dep.raw", "dep.tetris", "dep.gds", "dep.tetrisraw"][(bits % 4) as usize], &tbl, &p));
        }
    }
    // 5 nodes without self-loops (2^20): thorough all, quick a 1/16 sample; one random listing each
    let ps5 = perms(5);
    for bits in 0..(1u64 << 20) {
        if thorough || rng.below(16) == 0 {
            let tbl = graph_from_bits(5, bits, false);
            { let p = rng.pick(&ps5[..]).clone(); out.push(fmt_case("dep.generic", &tbl, &p)); }
        }
    }
    // partial listings / duplicates in the item list for the generic helper
    for _ in 0..(if thorough { 20000 } else { 3000 }) {
        let n = 2 + rng.below(7) as usize;
        let cy = rng.chance(1, 3); let tbl = random_graph(rng, n, cy);
        let k = rng.below(n as u64 + 2) as usize;
        let items: Vec<usize> = (0..k).map(|_| rng.below(n as u64) as usize).collect();
        out.push(fmt_case("dep.generic", &tbl, &items));
    }
    // partial listings for the embedded orderers too: only some cells are registered in the library,
    // the others are reachable through instances alone (and some registered ones are listed twice)
    for _ in 0..(if thorough { 20000 } else { 3000 }) {
        let n = 2 + rng.below(7) as usize;
        let cy = rng.chance(1, 4); let tbl = random_graph(rng, n, cy);
        let k = 1 + rng.below(n as u64) as usize;
        let mut items: Vec<usize> = (0..n).collect();
        shuffle(rng, &mut items);
        items.truncate(k);
        if rng.chance(1, 5) { let d = items[rng.below(items.len() as u64) as usize]; items.push(d); }
        out.push(fmt_case(["dep.raw", "dep.tetris", "dep.tetrisraw"][rng.below(3) as usize], &tbl, &items));
    }
    // histories: the cells are wired one way, the library is ordered (converted / placed), the same cells are
    // rewired in place — an instance added, removed, or everything new — and the library is ordered again
    for _ in 0..(if thorough { 6000 } else { 600 }) {
        let n = 2 + rng.below(6) as usize;
        let cy0 = rng.chance(1, 5); let tbl0 = random_graph(rng, n, cy0);
        let mut tbl = tbl0.clone();
        match rng.below(4) {
            0 => { let a = rng.below(n as u64) as usize; let b = rng.below(n as u64) as usize; tbl[a].push(b); }            // one more instance (may close a cycle)
            1 => { let a = rng.below(n as u64) as usize; if !tbl[a].is_empty() { let k = rng.below(tbl[a].len() as u64) as usize; tbl[a].remove(k); } }
            2 => { let a = rng.below(n as u64) as usize; let b = rng.below(n as u64) as usize; if a != b { tbl[a].push(b); let c = rng.below(n as u64) as usize; tbl[c].clear(); } }
            _ => { let cy1 = rng.chance(1, 5); tbl = random_graph(rng, n, cy1); }
        }
        let mut items: Vec<usize> = (0..n).collect();
        shuffle(rng, &mut items);
        if rng.chance(1, 3) { items.truncate(1 + rng.below(n as u64) as usize); }
        let op = ["dep.raw", "dep.tetris"][rng.below(2) as usize];
        let g0: Vec<String> = tbl0.iter().map(|r| format!("({})", r.iter().map(|x| x.to_string()).collect::<Vec<_>>().join(" "))).collect();
        out.push(format!("{} ({})", fmt_case(op, &tbl, &items), g0.join(" ")));
    }
    // a client that tolerates failing optional dependencies (a cycle closed through an optional edge, an optional
    // dependency that fails and is required or listed later)
    for _ in 0..(if thorough { 4000 } else { 400 }) {
        let n = 2 + rng.below(5) as usize;
        let cy = rng.chance(1, 4); let tbl = random_graph(rng, n, cy);
        let cy2 = rng.chance(1, 2); let opt = random_graph(rng, n, cy2);
        let mut items: Vec<usize> = (0..n).collect();
        shuffle(rng, &mut items);
        let g0: Vec<String> = opt.iter().map(|r| format!("({})", r.iter().map(|x| x.to_string()).collect::<Vec<_>>().join(" "))).collect();
        out.push(format!("{} ({})", fmt_case("dep.tolerant", &tbl, &items), g0.join(" ")));
    }
    // random DAGs and cyclic graphs for the embedded orderers, up to hundreds of nodes
    let reps = if thorough { 1500 } else { 150 };
    for i in 0..reps {
        for op in ["dep.raw", "dep.tetris", "dep.gds", "dep.generic"] {
            let n = if i % 10 == 0 { 100 + rng.below(if thorough { 300 } else { 120 }) as usize } else { 2 + rng.below(40) as usize };
            let cy = rng.chance(1, 3); let mut tbl = random_graph(rng, n, cy);
            if op == "dep.gds" && rng.chance(1, 8) {
                // dangling reference
                let a = rng.below(n as u64) as usize;
                tbl[a].push(n + rng.below(3) as usize);
            }
            let mut items: Vec<usize> = (0..n).collect();
            shuffle(rng, &mut items);
            out.push(fmt_case(op, &tbl, &items));
        }
    }
}

// ---------------------------------------------------------------- oracle (independent of the model)

fn reachable(tbl: &[Vec<usize>], items: &[usize]) -> Vec<bool> {
    let n = tbl.len();
    let mut seen = vec![false; n];
    let mut stack: Vec<usize> = items.iter().cloned().filter(|x| *x < n).collect();
    while let Some(x) = stack.pop() {
        if seen[x] {
            continue;
        }
        seen[x] = true;
        for d in &tbl[x] {
            if *d < n && !seen[*d] {
                stack.push(*d);
            }
        }
    }
    seen
}
/// does the subgraph induced by `keep` contain a cycle? (Kahn)
fn has_cycle(tbl: &[Vec<usize>], keep: &[bool]) -> bool {
    let n = tbl.len();
    let mut indeg = vec![0usize; n];
    for x in 0..n {
        if keep[x] {
            for d in &tbl[x] {
                if *d < n && keep[*d] {
                    indeg[*d] += 1;
                }
            }
        }
    }
    let mut q: Vec<usize> = (0..n).filter(|x| keep[*x] && indeg[*x] == 0).collect();
    let mut done = 0;
    while let Some(x) = q.pop() {
        done += 1;
        for d in &tbl[x] {
            if *d < n && keep[*d] {
                indeg[*d] -= 1;
                if indeg[*d] == 0 {
                    q.push(*d);
                }
            }
        }
    }
    done != keep.iter().filter(|k| **k).count()
}

pub fn oracle(line: &str) -> String {
    let p = match Sexp::parse_all(line) {
        Some(p) if !p.is_empty() => p,
        _ => return "na".into(),
    };
    let op = p[0].atom().unwrap_or("").to_string();
    if !op.starts_with("dep.") {
        return "na".into();
    }
    if op == "dep.ports" {
        // the placement order holds every listed placeable exactly once: every instance arrives in `instances`, every
        // assignment in `assignments`, nothing is left behind — whatever the listing order
        let want = match ports_expected(line) { Some(w) => w, None => return "na".into() };
        let res = crate::ops::run_line(line);
        return if res == want { "pass".into() } else { format!("fail placement of instances / port assignments: got {} want {}", &res[..res.len().min(120)], want) };
    }
    let (tbl, items) = match parse_graph(&p[1..]) {
        Some(x) => x,
        None => return "na".into(),
    };
    let n = tbl.len();
    let res = crate::ops::run_line(line);
    if op == "dep.tolerant" {
        // whatever a tolerant client swallowed: an ordering that IS returned lists every listed item exactly once, each
        // after its required dependencies
        if res == "err" { return "pass".into(); }
        let out: Vec<usize> = match Sexp::parse_all(&res).and_then(|r| r.get(1).and_then(|l| l.list().map(|v| v.iter().filter_map(|x| x.int().map(|i| i as usize)).collect()))) { Some(v) => v, None => return format!("fail {}", res) };
        let mut seen = std::collections::HashSet::new();
        for (k, x) in out.iter().enumerate() {
            if !seen.insert(*x) { return format!("fail item {} listed twice", x); }
            for d in tbl.get(*x).cloned().unwrap_or_default() { if !out[..k].contains(&d) { return format!("fail item {} is listed before its required dependency {}", x, d); } }
        }
        for i in &items { if !out.contains(i) { return format!("fail listed item {} is missing from the ordering that was returned", i); } }
        return "pass".into();
    }
    let dangling = tbl.iter().any(|r| r.iter().any(|d| *d >= n)) || items.iter().any(|i| *i >= n);
    if dangling && op != "dep.generic" {
        return if res == "err" { "pass".into() } else { format!("fail dangling reference not reported: {}", res) };
    }
    if dangling {
        return "na".into();
    }
    let reach = reachable(&tbl, &items);
    let cyc = has_cycle(&tbl, &reach);
    if res == "panic" || res == "crash" {
        return format!("fail {}", res);
    }
    if cyc {
        return if res == "err" { "pass".into() } else { format!("fail cyclic graph produced {}", res) };
    }
    if res == "err" {
        return "fail acyclic graph reported as error".into();
    }
    let parsed = Sexp::parse_all(&res).unwrap_or_default();
    let lst: Vec<usize> = match parsed.get(1).and_then(|l| l.list()) {
        Some(l) => l.iter().map(|x| x.int().unwrap_or(-1) as usize).collect(),
        None => return format!("fail unparsable result {}", res),
    };
    let mut pos = vec![usize::MAX; n];
    for (k, x) in lst.iter().enumerate() {
        if *x >= n {
            return "fail unknown item in output".into();
        }
        if pos[*x] != usize::MAX {
            return format!("fail duplicate item {}", x);
        }
        pos[*x] = k;
    }
    for x in 0..n {
        if reach[x] && pos[x] == usize::MAX {
            return format!("fail reachable item {} missing", x);
        }
        if !reach[x] && pos[x] != usize::MAX {
            return format!("fail unreachable item {} present", x);
        }
    }
    for x in &lst {
        for d in &tbl[*x] {
            if pos[*d] >= pos[*x] {
                return format!("fail item {} listed before its dependency {}", x, d);
            }
        }
    }
    "pass".into()
}

pub fn tag(line: &str) -> String {
    let p = match Sexp::parse_all(line) {
        Some(p) if !p.is_empty() => p,
        _ => return "-".into(),
    };
    let op = p[0].atom().unwrap_or("").to_string();
    let (tbl, items) = match parse_graph(&p[1..]) {
        Some(x) => x,
        None => return "-".into(),
    };
    let n = tbl.len();
    let dangling = tbl.iter().any(|r| r.iter().any(|d| *d >= n));
    let cls = if dangling {
        "dangling"
    } else if has_cycle(&tbl, &reachable(&tbl, &items)) {
        "cyclic"
    } else {
        "dag"
    };
    let size = match n {
        0..=3 => "n<=3",
        4 => "n=4",
        5 => "n=5",
        6..=40 => "n<=40",
        _ => "n>40",
    };
    format!("{}:{}:{}", op, cls, size)
}
