//! C16: LEF -> raw import. Op:
//!   lefraw.import <ncs: on|off|none> (macro <name> <size: ((d m s) (d m s)) | #f> (pins (pin <name> (port lg...)...)...) (obs lg...)) ...
//!   lg := (lg <layer> <width (d m s)|#f> <exceptpg #t|#f> <none | (sp (d m s)) | (drw (d m s))> (g...))
//!   g  := (rect d d d d) | (polygon (d d)...) | (path (d d)...) | (iterate)
//! Result: ok ((abs name (outline (x y)..) (ports (port net (layer shape..)..)..) (blockages (layer shape..)..)) ..) | err
//! layer maps are printed sorted by layer name.
use crate::rng::Rng;
use crate::sexp::*;
use layout21raw as raw;
use lef21::*;

pub type D = (i64, u32);
fn p_dec(s: &Sexp) -> Option<D> {
    let l = s.list()?;
    if l.len() == 3 && l[0].atom()? == "d" {
        Some((l[1].int()?, l[2].int()? as u32))
    } else {
        None
    }
}
fn dec(d: D) -> LefDecimal {
    LefDecimal::new(d.0, d.1)
}
fn p_name(s: &Sexp) -> Option<String> {
    String::from_utf8(s.bytes()?).ok()
}
#[derive(Clone, Debug)]
pub enum G {
    Rect(D, D, D, D),
    Polygon(Vec<(D, D)>),
    Path(Vec<(D, D)>),
    Iterate,
}
#[derive(Clone, Debug)]
pub struct Lg {
    pub layer: String,
    pub width: Option<D>,
    pub exceptpg: bool,
    pub spacing: Option<(bool, D)>, // (is design-rule-width, value)
    pub geoms: Vec<G>,
}
#[derive(Clone, Debug)]
pub struct Mac {
    pub name: String,
    pub size: Option<(D, D)>,
    pub pins: Vec<(String, Vec<Vec<Lg>>)>,
    pub obs: Vec<Lg>,
}
fn p_ptlist(l: &[Sexp]) -> Option<Vec<(D, D)>> {
    l.iter()
        .map(|p| {
            let q = p.list()?;
            Some((p_dec(&q[0])?, p_dec(&q[1])?))
        })
        .collect()
}
fn p_g(s: &Sexp) -> Option<G> {
    let l = s.list()?;
    Some(match l[0].atom()? {
        "rect" => G::Rect(p_dec(&l[1])?, p_dec(&l[2])?, p_dec(&l[3])?, p_dec(&l[4])?),
        "polygon" => G::Polygon(p_ptlist(&l[1..])?),
        "path" => G::Path(p_ptlist(&l[1..])?),
        "iterate" => G::Iterate,
        _ => return None,
    })
}
fn p_lg(s: &Sexp) -> Option<Lg> {
    let l = s.list()?;
    if l.len() != 6 || l[0].atom()? != "lg" {
        return None;
    }
    let width = if l[2].atom() == Some("#f") { None } else { Some(p_dec(&l[2])?) };
    let spacing = if l[4].atom() == Some("none") {
        None
    } else {
        let sl = l[4].list()?;
        Some((sl[0].atom()? == "drw", p_dec(&sl[1])?))
    };
    Some(Lg { layer: p_name(&l[1])?, width, exceptpg: l[3].boolean()?, spacing, geoms: l[5].list()?.iter().map(p_g).collect::<Option<_>>()? })
}
fn p_mac(s: &Sexp) -> Option<Mac> {
    let l = s.list()?;
    if l.len() != 5 || l[0].atom()? != "macro" {
        return None;
    }
    let size = if l[2].atom() == Some("#f") {
        None
    } else {
        let sl = l[2].list()?;
        Some((p_dec(&sl[0])?, p_dec(&sl[1])?))
    };
    let mut pins = vec![];
    for p in &l[3].list()?[1..] {
        let pl = p.list()?;
        let mut ports = vec![];
        for port in &pl[2..] {
            ports.push(port.list()?[1..].iter().map(p_lg).collect::<Option<Vec<_>>>()?);
        }
        pins.push((p_name(&pl[1])?, ports));
    }
    let obs = l[4].list()?[1..].iter().map(p_lg).collect::<Option<Vec<_>>>()?;
    Some(Mac { name: p_name(&l[1])?, size, pins, obs })
}
thread_local! {
    /// seed for the fields the importer does not read ("decor"), carried by the case line as `<ncs>/<seed>`
    static DECOR: std::cell::Cell<u64> = std::cell::Cell::new(0);
}
pub fn parse_case(args: &[Sexp]) -> Option<(Option<bool>, Vec<Mac>)> {
    let a0 = args.get(0)?.atom()?;
    let mut it = a0.splitn(2, '/');
    let a0 = it.next()?;
    DECOR.with(|d| d.set(it.next().and_then(|s| s.parse().ok()).unwrap_or(0)));
    let ncs = match a0 {
        "on" => Some(true),
        "off" => Some(false),
        _ => None,
    };
    let macs = args[1..].iter().map(p_mac).collect::<Option<Vec<_>>>()?;
    Some((ncs, macs))
}
fn pt(p: &(D, D)) -> LefPoint {
    LefPoint::new(dec(p.0), dec(p.1))
}
fn to_lg(g: &Lg) -> LefLayerGeometries {
    let mut o = LefLayerGeometries::default();
    o.layer_name = g.layer.clone();
    o.width = g.width.map(dec);
    o.except_pg_net = if g.exceptpg { Some(true) } else { None };
    o.spacing = g.spacing.map(|(drw, v)| if drw { LefLayerSpacing::DesignRuleWidth(dec(v)) } else { LefLayerSpacing::Spacing(dec(v)) });
    for s in &g.geoms {
        o.geometries.push(match s {
            G::Rect(a, b, c, d) => LefGeometry::Shape(LefShape::Rect(None, LefPoint::new(dec(*a), dec(*b)), LefPoint::new(dec(*c), dec(*d)))),
            G::Polygon(v) => LefGeometry::Shape(LefShape::Polygon(None, v.iter().map(pt).collect())),
            G::Path(v) => LefGeometry::Shape(LefShape::Path(None, v.iter().map(pt).collect())),
            G::Iterate => LefGeometry::Iterate {
                shape: LefShape::Rect(None, LefPoint::new(dec((0, 0)), dec((0, 0))), LefPoint::new(dec((1, 0)), dec((1, 0)))),
                pattern: LefStepPattern { numx: dec((2, 0)), numy: dec((2, 0)), spacex: dec((1, 0)), spacey: dec((1, 0)) },
            },
        });
    }
    o
}
pub fn to_leflib(ncs: Option<bool>, macs: &[Mac]) -> LefLibrary {
    let mut lib = LefLibrary::default();
    lib.names_case_sensitive = ncs.map(|b| if b { LefOnOff::On } else { LefOnOff::Off });
    for m in macs {
        let mut lm = LefMacro::default();
        lm.name = m.name.clone();
        lm.size = m.size.map(|(a, b)| (dec(a), dec(b)));
        for (pname, ports) in &m.pins {
            let mut pin = LefPin::default();
            pin.name = pname.clone();
            for port in ports {
                let mut lp = LefPort::default();
                lp.layers = port.iter().map(to_lg).collect();
                pin.ports.push(lp);
            }
            lm.pins.push(pin);
        }
        lm.obs = m.obs.iter().map(to_lg).collect();
        lib.macros.push(lm);
    }
    let decor = DECOR.with(|d| d.get());
    if decor != 0 { crate::props::lef::decorate_for_import(&mut lib, decor); }
    lib
}
fn shape_s(s: &raw::Shape) -> String {
    match s {
        raw::Shape::Rect(r) => format!("(rect {} {} {} {})", r.p0.x, r.p0.y, r.p1.x, r.p1.y),
        raw::Shape::Polygon(p) => format!("(polygon {})", p.points.iter().map(|q| format!("({} {})", q.x, q.y)).collect::<Vec<_>>().join(" ")),
        raw::Shape::Path(p) => format!("(path {} {})", p.width, p.points.iter().map(|q| format!("({} {})", q.x, q.y)).collect::<Vec<_>>().join(" ")),
    }
}
fn layer_map_s(m: &std::collections::HashMap<raw::LayerKey, Vec<raw::Shape>>, layers: &raw::Layers) -> String {
    let mut v: Vec<(String, String)> = m
        .iter()
        .map(|(k, shapes)| {
            let name = layers.get_name(*k).cloned().unwrap_or_default();
            let key = of_bytes(name.as_bytes()).to_string();
            (key.clone(), format!("({} {})", key, shapes.iter().map(shape_s).collect::<Vec<_>>().join(" ")))
        })
        .collect();
    v.sort();
    v.into_iter().map(|x| x.1).collect::<Vec<_>>().join(" ")
}
pub fn lib_result(lib: &raw::Library) -> String {
    let layers = lib.layers.read().unwrap();
    let mut cells = vec![];
    for c in lib.cells.iter() {
        let c = c.read().unwrap();
        let a = match &c.abs {
            Some(a) => a,
            None => continue,
        };
        let ports: Vec<String> = a.ports.iter().map(|p| format!("(port {} {})", of_bytes(p.net.as_bytes()), layer_map_s(&p.shapes, &layers))).collect();
        cells.push(format!(
            "(abs {} (outline {}) (ports {}) (blockages {}))",
            of_bytes(a.name.as_bytes()),
            a.outline.points.iter().map(|q| format!("({} {})", q.x, q.y)).collect::<Vec<_>>().join(" "),
            ports.join(" "),
            layer_map_s(&a.blockages, &layers)
        ));
    }
    // normalise empty lists "(ports )" -> "(ports)"
    format!("ok ({})", cells.join(" ")).replace(" )", ")")
}
pub fn op_import(args: &[Sexp]) -> String {
    let (ncs, macs) = match parse_case(args) {
        Some(x) => x,
        None => return "bad-op".into(),
    };
    let leflib = to_leflib(ncs, &macs);
    match raw::lef::LefImporter::import(&leflib, None) {
        Ok(lib) => lib_result(&lib),
        Err(_) => "err".into(),
    }
}

// ---------------------------------------------------------------- oracle: exact expectation from the case itself
fn exact(d: D) -> Option<i128> {
    let num = d.0 as i128 * 10000;
    let den = 10i128.pow(d.1);
    if num % den == 0 {
        Some(num / den)
    } else {
        None
    }
}
fn exp_lg(g: &Lg) -> Option<(String, Vec<String>)> {
    if g.exceptpg {
        return None;
    }
    if let Some((drw, v)) = g.spacing {
        if drw || v.0 != 0 {
            return None;
        }
    }
    let mut shapes = vec![];
    for s in &g.geoms {
        shapes.push(match s {
            G::Rect(a, b, c, d) => format!("(rect {} {} {} {})", exact(*a)?, exact(*b)?, exact(*c)?, exact(*d)?),
            G::Polygon(v) => format!("(polygon {})", v.iter().map(|p| Some(format!("({} {})", exact(p.0)?, exact(p.1)?))).collect::<Option<Vec<_>>>()?.join(" ")),
            G::Path(v) => {
                let w = exact(g.width?)?;
                if w < 0 {
                    return None;
                }
                format!("(path {} {})", w, v.iter().map(|p| Some(format!("({} {})", exact(p.0)?, exact(p.1)?))).collect::<Option<Vec<_>>>()?.join(" "))
            }
            G::Iterate => return None,
        });
    }
    Some((g.layer.clone(), shapes))
}
fn exp_map(lgs: &[&Lg]) -> Option<String> {
    let mut m: Vec<(String, Vec<String>)> = vec![];
    for g in lgs {
        let (l, ss) = exp_lg(g)?;
        match m.iter_mut().find(|e| e.0 == l) {
            Some(e) => e.1.extend(ss),
            None => m.push((l, ss)),
        }
    }
    let mut v: Vec<(String, String)> = m.into_iter().map(|(l, ss)| { let k = of_bytes(l.as_bytes()).to_string(); (k.clone(), format!("({} {})", k, ss.join(" "))) }).collect();
    v.sort();
    Some(v.into_iter().map(|x| x.1).collect::<Vec<_>>().join(" "))
}
fn expected(ncs: Option<bool>, macs: &[Mac]) -> String {
    if ncs == Some(false) {
        return "err".into();
    }
    let mut cells = vec![];
    for m in macs {
        let r: Option<String> = (|| {
            let (sx, sy) = m.size?;
            let (x, y) = (exact(sx)?, exact(sy)?);
            let mut ports = vec![];
            for (n, pp) in &m.pins {
                let all: Vec<&Lg> = pp.iter().flatten().collect();
                ports.push(format!("(port {} {})", of_bytes(n.as_bytes()), exp_map(&all)?));
            }
            let obs: Vec<&Lg> = m.obs.iter().collect();
            Some(format!("(abs {} (outline (0 0) ({} 0) ({} {}) (0 {})) (ports {}) (blockages {}))", of_bytes(m.name.as_bytes()), x, x, y, y, ports.join(" "), exp_map(&obs)?))
        })();
        match r {
            Some(s) => cells.push(s),
            None => return "err".into(),
        }
    }
    format!("ok ({})", cells.join(" ")).replace(" )", ")")
}
pub fn oracle(line: &str) -> String {
    let p = match Sexp::parse_all(line) {
        Some(p) if p.len() >= 2 && p[0].atom() == Some("lefraw.import") => p,
        _ => return "na".into(),
    };
    let (ncs, macs) = match parse_case(&p[1..]) {
        Some(x) => x,
        None => return "na".into(),
    };
    let got = crate::ops::run_line(line);
    let want = expected(ncs, &macs);
    if got == want {
        // a HISTORY on one shared layer set: an import that fails after it has created this library's layers (the same
        // library plus a last macro with a coordinate that is not a whole number of raw units), then the good import through
        // the same layer set — it must give exactly what the fresh import gave
        if want != "err" && !macs.is_empty() {
            let good = to_leflib(ncs, &macs);
            let mut bad = good.clone();
            let mut m = bad.macros[0].clone();
            m.name = "zz_fails".into();
            m.size = Some((lef21::LefDecimal::new(2000005, 5), lef21::LefDecimal::new(1, 0)));
            bad.macros.push(m);
            let shared = layout21raw::utils::Ptr::new(raw::Layers::default());
            let first = std::panic::catch_unwind(std::panic::AssertUnwindSafe(|| raw::lef::LefImporter::import(&bad, Some(shared.clone()))));
            match first { Ok(Err(_)) => {}, Ok(Ok(_)) => return "fail a macro size of 20.00005 microns was imported without error".into(), Err(_) => return "fail import panicked on a non-integral size".into() }
            let second = match std::panic::catch_unwind(std::panic::AssertUnwindSafe(|| raw::lef::LefImporter::import(&good, Some(shared.clone())))) {
                Ok(Ok(lib)) => lib_result(&lib), Ok(Err(_)) => "err".into(), Err(_) => "panic".into() };
            // the other order: a GOOD import first, then the failing one into the same layer set — the library imported first
            // must still print the same (its shapes still sit on layers with their names), also after one more good import
            let shared2 = layout21raw::utils::Ptr::new(raw::Layers::default());
            if let Ok(Ok(lib1)) = std::panic::catch_unwind(std::panic::AssertUnwindSafe(|| raw::lef::LefImporter::import(&good, Some(shared2.clone())))) {
                let _ = std::panic::catch_unwind(std::panic::AssertUnwindSafe(|| raw::lef::LefImporter::import(&bad, Some(shared2.clone()))));
                let after_fail = std::panic::catch_unwind(std::panic::AssertUnwindSafe(|| lib_result(&lib1))).unwrap_or("panic".into());
                if after_fail != want { return "fail a library imported earlier no longer shows its shapes on the layers named in the LEF after a LATER import into the same layer set failed".into(); }
                let third = match std::panic::catch_unwind(std::panic::AssertUnwindSafe(|| raw::lef::LefImporter::import(&good, Some(shared2.clone())))) { Ok(Ok(l)) => lib_result(&l), Ok(Err(_)) => "err".into(), Err(_) => "panic".into() };
                if third != want { return "fail good import – failed import – good import through one layer set: the last import differs from a fresh one".into(); }
                let again = std::panic::catch_unwind(std::panic::AssertUnwindSafe(|| lib_result(&lib1))).unwrap_or("panic".into());
                if again != want { return "fail a library imported earlier changed when the same LEF was imported again into its layer set after a failed import".into(); }
            } else { return "fail import into an empty caller-supplied layer set failed".into(); }
            if second != want {
                let i = second.bytes().zip(want.bytes()).position(|(a, b)| a != b).unwrap_or(second.len().min(want.len()));
                return format!("fail after a failed import into the same layer set the import differs at char {}: got …{}… want …{}…", i, &second[i.saturating_sub(20)..second.len().min(i + 40)], &want[i.saturating_sub(20)..want.len().min(i + 40)]);
            }
        }
        "pass".into()
    } else if want == "err" {
        format!("fail expected an error (non-integral coordinate or unsupported feature), got {}", &got[..got.len().min(100)])
    } else {
        // first difference
        let i = got.bytes().zip(want.bytes()).position(|(a, b)| a != b).unwrap_or(got.len().min(want.len()));
        format!("fail imported abstract differs from LEF×10000 at char {}: got …{}… want …{}…", i, &got[i.saturating_sub(20)..got.len().min(i + 30)], &want[i.saturating_sub(20)..want.len().min(i + 30)])
    }
}
pub fn tag(line: &str) -> String {
    let p = match Sexp::parse_all(line) {
        Some(p) if p.len() >= 2 => p,
        _ => return "-".into(),
    };
    match parse_case(&p[1..]) {
        Some((ncs, macs)) => {
            let e = expected(ncs, &macs);
            format!("import:{}:macros{}", if e == "err" { "err" } else { "ok" }, macs.len())
        }
        None => "-".into(),
    }
}

// ---------------------------------------------------------------- generation
fn gen_dec(rng: &mut Rng, allow_bad: bool) -> D {
    // value with 0..6 decimals; trailing zeros; negative; sometimes not a whole number of 1e-4
    let scale = rng.below(7) as u32;
    let base = rng.range(-3000000, 3000000);
    match rng.below(10) {
        0 => (0, scale),
        1 => (base / 1000, 0),
        2 | 3 => {
            // exact at 1e-4, spelled with extra trailing zeros
            let m4 = rng.range(-200000, 200000); // value = m4 * 1e-4
            let extra = rng.below(3) as u32;
            (m4 * 10i64.pow(extra), 4 + extra)
        }
        4 if allow_bad => (base | 1, 5 + rng.below(2) as u32), // odd mantissa at scale 5/6: not integral at 1e-4
        _ => {
            if scale <= 4 {
                (base / 10i64.pow(4 - scale.min(4)), scale)
            } else {
                (base * 10i64.pow(scale - 4), scale)
            }
        }
    }
}
fn fd(d: D) -> String {
    format!("(d {} {})", d.0, d.1)
}
/// `hist`: the (layer, figures) of the earlier LAYER blocks of the same pin / OBS. A third of the later
/// blocks name a layer again and repeat some of its figures verbatim: each LEF figure is one shape.
fn gen_lg(rng: &mut Rng, layers: &[&str], bad: bool, nowidth: bool, hist: &mut Vec<(String, Vec<String>)>) -> String {
    let mut layer: String = rng.pick(layers).to_string();
    let n = 1 + rng.below(4);
    let mut geoms = vec![];
    let mut has_path = false;
    if !hist.is_empty() && rng.chance(1, 3) {
        let (l, gs) = hist[rng.below(hist.len() as u64) as usize].clone();
        layer = l;
        for g in gs.iter() { if g != "(iterate)" && rng.coin() { has_path |= g.starts_with("(path"); geoms.push(g.clone()); } }
    }
    for _ in 0..n {
        geoms.push(match rng.below(if bad { 12 } else { 10 }) {
            0..=4 => format!("(rect {} {} {} {})", fd(gen_dec(rng, bad)), fd(gen_dec(rng, bad)), fd(gen_dec(rng, bad)), fd(gen_dec(rng, bad))),
            5..=7 => format!("(polygon {})", (0..3 + rng.below(4)).map(|_| format!("({} {})", fd(gen_dec(rng, bad)), fd(gen_dec(rng, bad)))).collect::<Vec<_>>().join(" ")),
            8 | 9 => {
                has_path = true;
                format!("(path {})", (0..2 + rng.below(3)).map(|_| format!("({} {})", fd(gen_dec(rng, bad)), fd(gen_dec(rng, bad)))).collect::<Vec<_>>().join(" "))
            }
            _ => "(iterate)".to_string(),
        });
    }
    // `nowidth`: the ONLY fault of the library is a PATH in a LAYER block without WIDTH, somewhere after blocks that have one
    let width = if nowidth && has_path && rng.chance(1, 3) { "#f".into() } else if has_path && !(bad && rng.chance(1, 6)) || rng.chance(1, 4) {
        let w = gen_dec(rng, false);
        fd((w.0.abs() * if bad && rng.chance(1, 8) { -1 } else { 1 }, w.1))
    } else {
        "#f".into()
    };
    let spacing = match rng.below(if bad { 8 } else { 4 }) {
        0 => format!("(sp {})", fd((0, rng.below(3) as u32))),
        5 => format!("(sp {})", fd((5, 1))),
        6 => format!("(drw {})", fd((0, 0))),
        _ => "none".into(),
    };
    hist.push((layer.clone(), geoms.clone()));
    format!("(lg {} {} {} {} ({}))", of_bytes(layer.as_bytes()), width, if bad && rng.chance(1, 10) { "#t" } else { "#f" }, spacing, geoms.join(" "))
}
pub fn gen(thorough: bool, rng: &mut Rng, out: &mut Vec<String>) {
    let layers = ["met1", "met2", "via1", "poly", "li1", "M3é"];
    for i in 0..(if thorough { 100000 } else { 10000 }) {
        let bad = i % 5 == 0;
        let nowidth = i % 7 == 3 && !bad;
        let nm = 1 + rng.below(3);
        let mut macs = vec![];
        for k in 0..nm {
            let size = if bad && rng.chance(1, 10) { "#f".to_string() } else { format!("({} {})", fd(gen_dec(rng, bad)), fd(gen_dec(rng, bad))) };
            let np = rng.below(4);
            let pins: Vec<String> = (0..np)
                .map(|j| {
                    let nports = 1 + rng.below(2);
                    let mut hist = vec![]; // shared by the ports of one pin: the importer merges them
                    let ports: Vec<String> = (0..nports).map(|_| format!("(port {})", (0..1 + rng.below(3)).map(|_| gen_lg(rng, &layers, bad, nowidth, &mut hist)).collect::<Vec<_>>().join(" "))).collect();
                    format!("(pin {} {})", of_bytes(format!("p{}", j).as_bytes()), ports.join(" "))
                })
                .collect();
            let mut hist = vec![];
            let obs: Vec<String> = (0..rng.below(4)).map(|_| gen_lg(rng, &layers, bad, nowidth, &mut hist)).collect();
            macs.push(format!("(macro {} {} (pins {}) (obs {}))", of_bytes(format!("mac{}", k).as_bytes()), size, pins.join(" "), obs.join(" ")).replace(" )", ")"));
        }
        let ncs = match rng.below(12) {
            0 if bad => "off",
            1 => "on",
            _ => "none",
        };
        // two thirds of the cases also carry values in every field the importer does not read
        if i % 3 == 0 { out.push(format!("lefraw.import {} {}", ncs, macs.join(" "))); }
        else { out.push(format!("lefraw.import {}/{} {}", ncs, 1 + rng.below(1 << 40), macs.join(" "))); }
    }
}
