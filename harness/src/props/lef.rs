//! C04 / C05 / C11: the LEF reader and writer.
//!
//! Ops (model: `lef.lex`, `lef.enum`, `lef.dbu`; the statement-level parser and the writer are not
//! modelled and are judged by the oracles only):
//!   lef.lex x<utf8 text>            -> ok ((name|number|semi|string start stop) ...) | err     (hook `verif_hooks::lex`)
//!   lef.enum <Table> x<text>        -> ok <Variant> | ok none        parse_enum: upper-case + from_str
//!   lef.dbu <mant> <scale>          -> ok <u32> | err                LefDbuPerMicron::try_new
//!   lef.read <libseed> x<text>      -> ok #t | ok #f | err           parse(text) == gen_lib(libseed)         (C04)
//!   lef.wr x<text>                  -> ok #t | ok #f | ok unreadable | err-write | err-reread            (C05)
//!   lef.crash x<text>               -> ok lib | ok err               parse; if a library: write, read again  (C11)
//!   lef.big <n>                     -> ok <ms-class>                 n-statement text, elapsed bounded       (C11)
//!
//! The renderer below is independent of lef21's writer: it follows the LEF statement syntax and
//! takes every lexical freedom the property quantifies over (statement order, white space,
//! comments with non-ASCII text, keyword case, decimal spellings, versions, END LIBRARY).
use crate::rng::Rng;
use crate::sexp::*;
use lef21::*;
use layout21utils::EnumStr;

type D = LefDecimal;

// ------------------------------------------------------------------------------------------------
// tokens of the independent renderer
#[derive(Clone, Debug)]
pub enum T {
    /// keyword or enumerated value: may be written in any case
    K(&'static str),
    /// verbatim text (names, verbatim numbers)
    N(String),
    /// decimal: may be spelled in several ways
    D(D),
    /// string literal, including its quotes
    S(String),
    Semi,
}
fn k(s: &'static str) -> T { T::K(s) }
fn n(s: &str) -> T { T::N(s.to_string()) }
fn d(x: &D) -> T { T::D(*x) }

/// shuffle `items`, keeping the relative order of items of the same kind
fn interleave(rng: &mut Rng, items: Vec<(u32, Vec<T>)>, permute: bool) -> Vec<T> {
    let len = items.len();
    let mut order: Vec<usize> = (0..len).collect();
    if permute {
        for i in (1..len).rev() {
            let j = rng.below(i as u64 + 1) as usize;
            order.swap(i, j);
        }
    }
    // order[p] = index of the item tentatively at position p; re-sort positions of each kind
    let mut kinds: std::collections::BTreeMap<u32, Vec<usize>> = Default::default();
    for (p, &it) in order.iter().enumerate() {
        kinds.entry(items[it].0).or_default().push(p);
    }
    let mut fin = vec![usize::MAX; len];
    for (kind, positions) in kinds {
        let members: Vec<usize> = (0..len).filter(|&i| items[i].0 == kind).collect();
        for (pos, m) in positions.into_iter().zip(members) {
            fin[pos] = m;
        }
    }
    let mut out = vec![];
    for it in fin {
        out.extend(items[it].1.iter().cloned());
    }
    out
}

pub struct Style {
    pub kwcase: u8,    // 0 upper, 1 lower, 2 random per character
    pub numstyle: u8,  // 0 canonical, 1 random alternative spellings
    pub spacing: u8,   // 0 single blanks + newline after ';', 1 random blanks/tabs/newlines/CRLF
    pub comments: u8,  // 0 none, 1 ASCII, 2 with non-ASCII text
    pub permute: bool, // statement order permutations
    pub end_library: bool,
}

fn spell_number(x: &D, rng: &mut Rng, style: &Style) -> String {
    let s = x.to_string();
    if style.numstyle == 0 {
        return s;
    }
    let mut s = s;
    // numbers that are already long stay as they are (29+ digits are rounded by rust_decimal: outside the model)
    if s.len() > 22 { return s; }
    match rng.below(6) {
        0 => {}
        1 => {
            if !s.starts_with('-') { s = format!("+{}", s); }
        }
        2 => {
            // leading dot
            if s.starts_with("0.") { s = s[1..].to_string(); } else if s.starts_with("-0.") { s = format!("-{}", &s[2..]); }
        }
        3 | 4 => {
            let zeros = "0".repeat(1 + rng.below(3) as usize);
            if s.contains('.') { s.push_str(&zeros); } else { s = format!("{}.{}", s, zeros); }
        }
        _ => {
            if !s.starts_with('-') && rng.coin() { s = format!("+{}", s); }
            if s.contains('.') { s.push('0'); } else { s.push_str(".00"); }
            if s.starts_with("+0.") { s = format!("+{}", &s[2..]); }
        }
    }
    s
}
fn spell_kw(w: &str, rng: &mut Rng, style: &Style) -> String {
    match style.kwcase {
        0 => w.to_string(),
        1 => w.to_ascii_lowercase(),
        _ => w.chars().map(|c| if rng.coin() { c.to_ascii_lowercase() } else { c }).collect(),
    }
}
const COMMENT_ASCII: &[&str] = &["# comment", "#", "# END LIBRARY", "# MACRO x ; \"", "#;;;", "# 1.5 -2 .5", "#\tTab"];
const COMMENT_UNI: &[&str] = &["# größe µm", "# 中文 注释", "# émoji 𝄞 ;", "# \u{a0}nbsp", "# Ω \"ü", "# naïve END"];
fn separator(rng: &mut Rng, style: &Style, after_semi: bool, out: &mut String) {
    if style.spacing == 0 {
        out.push_str(if after_semi { "\n" } else { " " });
    } else {
        let n = 1 + rng.below(3);
        for _ in 0..n {
            out.push_str(*rng.pick(&[" ", " ", "  ", "\t", "\n", "\r\n", " \n  ", "\n\n"]));
        }
    }
    if style.comments > 0 && rng.chance(1, 9) {
        let c = if style.comments == 2 && rng.coin() { *rng.pick(COMMENT_UNI) } else { *rng.pick(COMMENT_ASCII) };
        out.push_str(c);
        out.push_str(if rng.chance(1, 5) { "\r\n" } else { "\n" });
        if rng.coin() { out.push_str("  "); }
    }
}
pub fn layout(toks: &[T], rng: &mut Rng, style: &Style) -> String {
    let mut out = String::new();
    if style.comments > 0 && rng.coin() { out.push_str("# header comment é\n"); }
    if style.spacing == 1 && rng.coin() { out.push_str(" \n\t"); }
    for (i, t) in toks.iter().enumerate() {
        let txt = match t {
            T::K(w) => spell_kw(w, rng, style),
            T::N(s) => s.clone(),
            T::D(x) => spell_number(x, rng, style),
            T::S(s) => s.clone(),
            T::Semi => ";".to_string(),
        };
        out.push_str(&txt);
        if i + 1 < toks.len() { separator(rng, style, matches!(t, T::Semi), &mut out); }
    }
    // end of text: nothing, a newline, blanks, or an unterminated comment
    match rng.below(4) {
        0 => {}
        1 => out.push('\n'),
        2 => out.push_str(" \n\n"),
        _ => { if style.comments > 0 { out.push_str("\n# trailing comment without newline") } else { out.push('\n') } }
    }
    out
}

// ------------------------------------------------------------------------------------------------
// library generator
const NAME_POOL: &[&str] = &[
    "A", "Z", "clk", "VDD", "vss!", "a[0]", "bus<3>", "net_1", "_n", "$x", "/top/u1", "a.b", "x-y", "M1", "metal2", "via12", "é1", "größe", "中", "Ωm", "µ", "n|1", "a\\b", "[7]", "<0>", "%p", "3v3_net", "-x_", "+p_", ".dot_",
    "IN", "Q", "QN", "core", "unit", "PIN_", "x;y", "a#b", "q\"r", "INPUTS", "ENDCAPX", "Layer1", "mAcRo",
];
// names that are also keywords or enum strings: legal wherever an identifier is expected
const KEYWORD_NAMES: &[&str] = &["END", "PIN", "LAYER", "VIA", "CLASS", "SIZE", "ON", "CORE", "MASK", "DEFAULT", "X", "N", "RECT", "INPUT", "MACRO", "LIBRARY", "PROPERTY", "BY"];
fn name(rng: &mut Rng) -> String {
    if rng.chance(1, 12) { return rng.pick(KEYWORD_NAMES).to_string(); }
    let base = rng.pick(NAME_POOL).to_string();
    if rng.chance(1, 3) { format!("{}{}", base, rng.below(100)) } else { base }
}
fn plain_name(rng: &mut Rng) -> String {
    // for positions where a keyword-looking name would be ambiguous in LEF itself
    loop {
        let b = rng.pick(NAME_POOL).to_string();
        return if rng.coin() { format!("{}{}", b, rng.below(50)) } else { b };
    }
}
pub fn dec(rng: &mut Rng) -> D {
    match rng.below(10) {
        0 => D::new(0, rng.below(4) as u32),
        1 => D::new(rng.range(-20, 20), 0),
        2 => D::new(rng.range(-9, 9) * 100, 3),       // 0.500 style trailing zeros
        3 => D::new(rng.range(-999_999_999_999, 999_999_999_999), rng.below(9) as u32),
        4 => if rng.coin() { D::new(rng.range(1, 9), 6) } else {
            // many significant digits: exact only if never passed through a double
            D::from_i128_with_scale([1234567890123456789i128, 10000000000000000001, -314159265358979323846264338, 99999999999999999999999][rng.below(4) as usize], [19u32, 19, 26, 10][rng.below(4) as usize])
        },
        5 => D::new(rng.range(-99, 99), 2),
        _ => D::new(rng.range(-100000, 100000), rng.below(5) as u32),
    }
}
fn posdec(rng: &mut Rng) -> D { D::new(rng.range(1, 100000), rng.below(5) as u32) }
fn pt(rng: &mut Rng) -> LefPoint { LefPoint::new(dec(rng), dec(rng)) }
fn mask(rng: &mut Rng) -> Option<LefMask> { if rng.chance(1, 3) { Some(LefMask::new(D::new(rng.range(0, 3), 0))) } else { None } } // MASK 0 is a value too
fn strlit(rng: &mut Rng) -> String {
    let body = *rng.pick(&["abc", "", "a b c", "x # y", "semi ; colon", "größe 中", "𝄞", "END LIBRARY", "1.5", "tab\there", "it's"]);
    format!("\"{}\"", body)
}
fn shape(rng: &mut Rng) -> LefShape {
    match rng.below(3) {
        0 => LefShape::Rect(mask(rng), pt(rng), pt(rng)),
        1 => LefShape::Polygon(mask(rng), (0..3 + rng.below(4)).map(|_| pt(rng)).collect()),
        _ => LefShape::Path(mask(rng), (0..2 + rng.below(4)).map(|_| pt(rng)).collect()),
    }
}
fn geometry(rng: &mut Rng) -> LefGeometry {
    let s = shape(rng);
    if rng.chance(1, 4) {
        LefGeometry::Iterate { shape: s, pattern: LefStepPattern { numx: D::new(rng.range(1, 9), 0), numy: D::new(rng.range(1, 9), 0), spacex: dec(rng), spacey: dec(rng) } }
    } else {
        LefGeometry::Shape(s)
    }
}
fn layer_geoms(rng: &mut Rng) -> LefLayerGeometries {
    LefLayerGeometries {
        layer_name: name(rng),
        geometries: (0..rng.below(4)).map(|_| geometry(rng)).collect(),
        vias: (0..if rng.chance(1, 4) { 1 + rng.below(2) } else { 0 }).map(|_| LefVia { via_name: name(rng), pt: pt(rng) }).collect(),
        except_pg_net: if rng.chance(1, 5) { Some(true) } else { None },
        spacing: match rng.below(6) { 0 => Some(LefLayerSpacing::Spacing(posdec(rng))), 1 => Some(LefLayerSpacing::DesignRuleWidth(posdec(rng))), _ => None },
        width: if rng.chance(1, 4) { Some(posdec(rng)) } else { None },
    }
}
/// a list of LAYER blocks in which a block often repeats its predecessor's LAYER statement — same
/// layer with the same options (a writer must not merge them), or the same layer with other options
thread_local! {
    /// generator version of the library being built: libseeds below 2^40 (the ones stored in corpus
    /// cases) reproduce version 1 exactly; new runs draw libseeds at or above 2^40 (version 2)
    static GEN_V: std::cell::Cell<u32> = std::cell::Cell::new(2);
}
fn gen_v() -> u32 { GEN_V.with(|v| v.get()) }
pub const LIBSEED_V2: u64 = 1 << 40;
fn layer_geoms_list(rng: &mut Rng, n: u64) -> Vec<LefLayerGeometries> {
    let mut v: Vec<LefLayerGeometries> = vec![];
    for _ in 0..n {
        let mut g = layer_geoms(rng);
        if gen_v() < 2 { v.push(g); continue; }
        if let Some(prev) = v.last() {
            match rng.below(6) {
                0 | 1 => { g.layer_name = prev.layer_name.clone(); g.except_pg_net = prev.except_pg_net; g.spacing = prev.spacing.clone(); g.width = prev.width; }
                2 => { g.layer_name = prev.layer_name.clone(); }
                _ => {}
            }
        }
        v.push(g);
    }
    v
}
fn props(rng: &mut Rng) -> Vec<LefProperty> {
    (0..if rng.chance(1, 3) { 1 + rng.below(3) } else { 0 })
        .map(|_| LefProperty {
            name: name(rng),
            value: match rng.below(3) { 0 => name(rng), 1 => strlit(rng), _ => ["1.50", "-3", ".25", "+7.0", "42"][rng.below(5) as usize].to_string() },
        })
        .collect()
}
const ANTENNA_KEYS: &[&str] = &["ANTENNADIFFAREA", "ANTENNAGATEAREA", "ANTENNAPARTIALMETALAREA", "ANTENNAPARTIALMETALSIDEAREA", "ANTENNAPARTIALCUTAREA", "ANTENNAPARTIALDIFFAREA", "ANTENNAMAXAREACAR", "ANTENNAMAXSIDEAREACAR", "ANTENNAMAXCUTCAR"];
fn pin(rng: &mut Rng) -> LefPin {
    let opt = |rng: &mut Rng| rng.chance(1, 3);
    LefPin {
        name: name(rng),
        ports: (0..rng.below(3)).map(|_| LefPort {
            class: if opt(rng) { Some(*rng.pick(&[LefPortClass::None, LefPortClass::Core, LefPortClass::Bump])) } else { None },
            layers: { let n = rng.below(if gen_v() < 2 { 3 } else { 4 }); layer_geoms_list(rng, n) },
        }).collect(),
        direction: if rng.coin() { Some(match rng.below(5) { 0 => LefPinDirection::Input, 1 => LefPinDirection::Output { tristate: false }, 2 => LefPinDirection::Output { tristate: true }, 3 => LefPinDirection::Inout, _ => LefPinDirection::FeedThru }) } else { None },
        use_: if rng.coin() { Some(*rng.pick(&[LefPinUse::Signal, LefPinUse::Analog, LefPinUse::Power, LefPinUse::Ground, LefPinUse::Clock])) } else { None },
        shape: if opt(rng) { Some(*rng.pick(&[LefPinShape::Abutment, LefPinShape::Ring, LefPinShape::FeedThru])) } else { None },
        antenna_model: if opt(rng) { Some(*rng.pick(&[LefAntennaModel::Oxide1, LefAntennaModel::Oxide2, LefAntennaModel::Oxide3, LefAntennaModel::Oxide4])) } else { None },
        antenna_attrs: (0..if opt(rng) { 1 + rng.below(3) } else { 0 }).map(|_| LefPinAntennaAttr { key: rng.pick(ANTENNA_KEYS).to_string(), val: posdec(rng), layer: if rng.coin() { Some(name(rng)) } else { None } }).collect(),
        taper_rule: if opt(rng) { Some(name(rng)) } else { None },
        supply_sensitivity: if opt(rng) { Some(name(rng)) } else { None },
        ground_sensitivity: if opt(rng) { Some(name(rng)) } else { None },
        must_join: if opt(rng) { Some(name(rng)) } else { None },
        net_expr: if opt(rng) { Some(strlit(rng)) } else { None },
        properties: props(rng),
    }
}
fn symmetry(rng: &mut Rng) -> Option<Vec<LefSymmetry>> {
    if rng.coin() { Some((0..rng.below(4)).map(|_| *rng.pick(&[LefSymmetry::X, LefSymmetry::Y, LefSymmetry::R90])).collect()) } else { None }
}
fn mac(rng: &mut Rng, old_version: bool) -> LefMacro {
    let opt = |rng: &mut Rng| rng.chance(1, 3);
    LefMacro {
        name: name(rng),
        pins: (0..rng.below(4)).map(|_| pin(rng)).collect(),
        obs: if opt(rng) { let n = 1 + rng.below(3); layer_geoms_list(rng, n) } else { vec![] },
        class: if rng.coin() {
            Some(match rng.below(9) {
                0 => LefMacroClass::Cover { bump: false },
                1 => LefMacroClass::Cover { bump: true },
                2 => LefMacroClass::Ring,
                3 => LefMacroClass::Block { tp: if rng.coin() { Some(*rng.pick(&[LefBlockClassType::BlackBox, LefBlockClassType::Soft])) } else { None } },
                4 => LefMacroClass::Pad { tp: if rng.coin() { Some(*rng.pick(&[LefPadClassType::Input, LefPadClassType::Output, LefPadClassType::Inout, LefPadClassType::Power, LefPadClassType::Spacer, LefPadClassType::AreaIo])) } else { None } },
                5 | 6 => LefMacroClass::Core { tp: if rng.coin() { Some(*rng.pick(&[LefCoreClassType::FeedThru, LefCoreClassType::TieHigh, LefCoreClassType::TieLow, LefCoreClassType::Spacer, LefCoreClassType::AntennaCell, LefCoreClassType::WellTap])) } else { None } },
                _ => LefMacroClass::EndCap { tp: *rng.pick(&[LefEndCapClassType::Pre, LefEndCapClassType::Post, LefEndCapClassType::TopLeft, LefEndCapClassType::TopRight, LefEndCapClassType::BottomLeft, LefEndCapClassType::BottomRight]) },
            })
        } else { None },
        foreign: if opt(rng) {
            let p = if rng.coin() { Some(pt(rng)) } else { None };
            let o = if p.is_some() && rng.coin() { Some(*rng.pick(&[LefOrient::N, LefOrient::S, LefOrient::E, LefOrient::W, LefOrient::FN, LefOrient::FS, LefOrient::FE, LefOrient::FW])) } else { None };
            Some(LefForeign { cell_name: name(rng), pt: p, orient: o })
        } else { None },
        origin: if rng.coin() { Some(pt(rng)) } else { None },
        size: if rng.coin() { Some((posdec(rng), posdec(rng))) } else { None },
        symmetry: symmetry(rng),
        site: if opt(rng) { Some(name(rng)) } else { None },
        source: if old_version && opt(rng) { Some(*rng.pick(&[LefDefSource::Netlist, LefDefSource::Dist, LefDefSource::Timing, LefDefSource::User])) } else { None },
        eeq: if opt(rng) { Some(name(rng)) } else { None },
        fixed_mask: rng.chance(1, 5),
        properties: props(rng),
        density: if rng.chance(1, 4) {
            let mut v: Vec<LefDensityGeometries> = vec![];
            for _ in 0..rng.below(if gen_v() < 2 { 3 } else { 4 }) {
                let nm = match v.last() { Some(p) if gen_v() >= 2 && rng.chance(1, 3) => p.layer_name.clone(), _ => name(rng) }; // consecutive blocks on one layer
                v.push(LefDensityGeometries { layer_name: nm, geometries: (0..rng.below(3)).map(|_| LefDensityRectangle { pt1: pt(rng), pt2: pt(rng), density_value: posdec(rng) }).collect() });
            }
            Some(v)
        } else { None },
    }
}
fn via_shape(rng: &mut Rng) -> LefViaShape {
    if rng.coin() { LefViaShape::Rect(mask(rng), pt(rng), pt(rng)) } else { LefViaShape::Polygon(mask(rng), (0..3 + rng.below(3)).map(|_| pt(rng)).collect()) }
}
fn viadef(rng: &mut Rng) -> LefViaDef {
    let data = if rng.coin() {
        LefViaDefData::Fixed(LefFixedViaDef {
            resistance_ohms: if rng.coin() { Some(posdec(rng)) } else { None },
            layers: (0..rng.below(4)).map(|_| LefViaLayerGeometries { layer_name: plain_name(rng), shapes: (0..rng.below(3)).map(|_| via_shape(rng)).collect() }).collect(),
        })
    } else {
        LefViaDefData::Generated(LefGeneratedViaDef {
            via_rule_name: name(rng),
            cut_size_x: posdec(rng), cut_size_y: posdec(rng),
            bot_metal_layer: name(rng), cut_layer: name(rng), top_metal_layer: name(rng),
            cut_spacing_x: posdec(rng), cut_spacing_y: posdec(rng),
            bot_enc_x: dec(rng), bot_enc_y: dec(rng), top_enc_x: dec(rng), top_enc_y: dec(rng),
            rowcol: if rng.coin() { Some(LefRowCol { rows: D::new(rng.range(1, 9), 0), cols: D::new(rng.range(1, 9), 0) }) } else { None },
            origin: if rng.coin() { Some(pt(rng)) } else { None },
            offset: if rng.coin() { Some(LefOffset { bot_x: dec(rng), bot_y: dec(rng), top_x: dec(rng), top_y: dec(rng) }) } else { None },
            pattern: None,
        })
    };
    // the name after VIA is followed by an optional DEFAULT keyword: a via called DEFAULT would be ambiguous in LEF itself
    LefViaDef { name: plain_name(rng), default: rng.chance(1, 3), data, properties: None }
}
fn propdef(rng: &mut Rng) -> LefPropertyDefinition {
    use LefPropertyDefinitionObjectType::*;
    let ot = *rng.pick(&[Layer, Library, Macro, NonDefaultRule, Pin, Via, ViaRule]);
    let range = |rng: &mut Rng| if rng.coin() { Some(LefPropertyRange { begin: dec(rng), end: dec(rng) }) } else { None };
    let val = |rng: &mut Rng| if rng.coin() { Some(dec(rng)) } else { None };
    match rng.below(3) {
        0 => LefPropertyDefinition::LefString(ot, plain_name(rng), if rng.coin() { Some(strlit(rng)) } else { None }),
        1 => { let (v, r) = (val(rng), range(rng)); LefPropertyDefinition::LefReal(ot, plain_name(rng), v, r) }
        _ => { let (v, r) = (val(rng), range(rng)); LefPropertyDefinition::LefInteger(ot, plain_name(rng), v, r) }
    }
}
/// Fill every field of a library that the LEF → raw importer does not read (header statements, units,
/// macro CLASS / FOREIGN / ORIGIN / SYMMETRY / SITE / EEQ / properties / density, pin attributes, port
/// classes, shape masks) with generated values: the imported geometry must not depend on any of them.
pub fn decorate_for_import(lib: &mut LefLibrary, seed: u64) {
    GEN_V.with(|v| v.set(2));
    let mut rng = Rng::new(seed.wrapping_mul(0x9E37_79B9_7F4A_7C15) ^ 0xdec0);
    let rng = &mut rng;
    let opt = |rng: &mut Rng| rng.chance(1, 2);
    if opt(rng) { lib.version = Some(D::new(58, 1)); }
    if opt(rng) { lib.bus_bit_chars = Some(('[', ']')); }
    if opt(rng) { lib.divider_char = Some('/'); }
    if opt(rng) { lib.units = Some(LefUnits { database_microns: Some(LefDbuPerMicron(*rng.pick(&[100u32, 1000, 2000, 20000]))), ..Default::default() }); }
    if opt(rng) { lib.manufacturing_grid = Some(posdec(rng)); }
    for m in lib.macros.iter_mut() {
        let d = mac(rng, false);
        if opt(rng) { m.class = d.class; }
        if opt(rng) { m.foreign = d.foreign; }
        if opt(rng) { m.origin = Some(LefPoint::new(D::new(rng.range(-40, 40), 1), D::new(rng.range(-40, 40), 2))); }
        if opt(rng) { m.symmetry = d.symmetry; }
        if opt(rng) { m.site = d.site; }
        if opt(rng) { m.eeq = d.eeq; }
        if opt(rng) { m.properties = d.properties; }
        if opt(rng) { m.density = d.density; }
        m.fixed_mask = d.fixed_mask;
        for p in m.pins.iter_mut() {
            let q = pin(rng);
            if opt(rng) { p.direction = q.direction; }
            if opt(rng) { p.use_ = q.use_; }
            if opt(rng) { p.shape = q.shape; }
            if opt(rng) { p.antenna_model = q.antenna_model; p.antenna_attrs = q.antenna_attrs; }
            if opt(rng) { p.taper_rule = q.taper_rule; p.must_join = q.must_join; p.net_expr = q.net_expr; p.properties = q.properties; }
            for port in p.ports.iter_mut() {
                if opt(rng) { port.class = Some(*rng.pick(&[LefPortClass::None, LefPortClass::Core, LefPortClass::Bump])); }
                for lg in port.layers.iter_mut() { decorate_masks(lg, rng); }
            }
        }
        for lg in m.obs.iter_mut() { decorate_masks(lg, rng); }
    }
}
fn decorate_masks(lg: &mut LefLayerGeometries, rng: &mut Rng) {
    for g in lg.geometries.iter_mut() {
        if let LefGeometry::Shape(s) = g {
            let mk = mask(rng);
            match s { LefShape::Rect(m, _, _) => *m = mk, LefShape::Polygon(m, _) => *m = mk, LefShape::Path(m, _) => *m = mk }
        }
    }
}
/// (library, END LIBRARY must be written)
pub fn gen_lib(seed: u64) -> LefLibrary {
    GEN_V.with(|v| v.set(if seed < LIBSEED_V2 { 1 } else { 2 }));
    let mut rng = Rng::new(seed.wrapping_mul(0x2545_F491_4F6C_DD1D) ^ 0x1ef);
    let rng = &mut rng;
    let version = match rng.below(8) { 0 => None, 1 => Some(D::new(53, 1)), 2 => Some(D::new(54, 1)), 3 => Some(D::new(55, 1)), 4 => Some(D::new(56, 1)), 5 => Some(D::new(57, 1)), _ => Some(D::new(58, 1)) };
    let old = matches!(version, Some(v) if v <= D::new(54, 1));
    let opt = |rng: &mut Rng| rng.chance(1, 3);
    let size = rng.below(4);
    let mut lib = LefLibrary::default();
    lib.version = version;
    if old && opt(rng) { lib.names_case_sensitive = Some(*rng.pick(&[LefOnOff::On, LefOnOff::Off])); }
    if opt(rng) { lib.no_wire_extension_at_pin = Some(*rng.pick(&[LefOnOff::On, LefOnOff::Off])); }
    if opt(rng) { lib.bus_bit_chars = Some(*rng.pick(&[('[', ']'), ('<', '>'), ('(', ')'), ('{', '}')])); }
    if opt(rng) { lib.divider_char = Some(*rng.pick(&['/', '|', '.', ':'])); }
    if rng.coin() {
        let o = |rng: &mut Rng| if rng.chance(1, 3) { Some(posdec(rng)) } else { None };
        lib.units = Some(LefUnits {
            database_microns: if rng.coin() { Some(LefDbuPerMicron(*rng.pick(&[100u32, 200, 400, 800, 1000, 2000, 4000, 8000, 10000, 20000]))) } else { None },
            time_ns: o(rng), capacitance_pf: o(rng), resistance_ohms: o(rng), power_mw: o(rng), current_ma: o(rng), voltage_volts: o(rng), frequency_mhz: o(rng),
        });
    }
    lib.fixed_mask = rng.chance(1, 5);
    if opt(rng) { lib.clearance_measure = Some(*rng.pick(&[LefClearanceStyle::MaxXY, LefClearanceStyle::Euclidean])); }
    if opt(rng) { lib.manufacturing_grid = Some(posdec(rng)); }
    if opt(rng) { lib.use_min_spacing = Some(*rng.pick(&[LefOnOff::On, LefOnOff::Off])); }
    lib.property_definitions = (0..if opt(rng) { 1 + rng.below(4) } else { 0 }).map(|_| propdef(rng)).collect();
    lib.extensions = (0..if rng.chance(1, 4) { 1 + rng.below(2) } else { 0 }).map(|_| {
        // extension tokens carry no blanks of their own: the reader keeps the token texts, joined by one blank each
        let toks: Vec<String> = (0..rng.below(6)).map(|_| match rng.below(5) { 0 => ";".to_string(), 1 => ["\"abc\"", "\"\"", "\"größe\"", "\"x#y\""][rng.below(4) as usize].to_string(), 2 => ["1.50", "-2", ".5"][rng.below(3) as usize].to_string(), _ => plain_name(rng) }).collect();
        LefExtension { name: strlit(rng), data: toks.iter().map(|t| format!("{} ", t)).collect() }
    }).collect();
    lib.sites = (0..rng.below(size + 1)).map(|_| LefSite { name: name(rng), class: *rng.pick(&[LefSiteClass::Pad, LefSiteClass::Core]), size: (posdec(rng), posdec(rng)), symmetry: symmetry(rng), row_pattern: None }).collect();
    lib.vias = (0..rng.below(size + 1)).map(|_| viadef(rng)).collect();
    lib.macros = (0..rng.below(size + 2)).map(|_| mac(rng, old)).collect();
    lib
}

// ------------------------------------------------------------------------------------------------
// independent renderer: library -> tokens
fn r_pt(p: &LefPoint, o: &mut Vec<T>) { o.push(d(&p.x)); o.push(d(&p.y)); }
fn r_mask(m: &Option<LefMask>, o: &mut Vec<T>) { if let Some(m) = m { o.push(k("MASK")); o.push(d(&m.mask)); } }
fn r_symmetry(s: &Vec<LefSymmetry>) -> Vec<T> {
    let mut o = vec![k("SYMMETRY")];
    for x in s { o.push(k(match x { LefSymmetry::X => "X", LefSymmetry::Y => "Y", LefSymmetry::R90 => "R90" })); }
    o.push(T::Semi);
    o
}
fn r_shape(s: &LefShape, iterate: bool, o: &mut Vec<T>) {
    let (kw, m, pts): (&'static str, &Option<LefMask>, Vec<&LefPoint>) = match s {
        LefShape::Rect(m, a, b) => ("RECT", m, vec![a, b]),
        LefShape::Polygon(m, p) => ("POLYGON", m, p.iter().collect()),
        LefShape::Path(m, p) => ("PATH", m, p.iter().collect()),
    };
    o.push(k(kw));
    r_mask(m, o);
    if iterate { o.push(k("ITERATE")); }
    for p in pts { r_pt(p, o); }
}
fn r_geometry(g: &LefGeometry) -> Vec<T> {
    let mut o = vec![];
    match g {
        LefGeometry::Shape(s) => r_shape(s, false, &mut o),
        LefGeometry::Iterate { shape, pattern } => {
            r_shape(shape, true, &mut o);
            o.extend([k("DO"), d(&pattern.numx), k("BY"), d(&pattern.numy), k("STEP"), d(&pattern.spacex), d(&pattern.spacey)]);
        }
    }
    o.push(T::Semi);
    o
}
fn r_layer_geoms(lg: &LefLayerGeometries, rng: &mut Rng, permute: bool) -> Vec<T> {
    let mut o = vec![k("LAYER"), n(&lg.layer_name)];
    if lg.except_pg_net == Some(true) { o.push(k("EXCEPTPGNET")); }
    match &lg.spacing {
        Some(LefLayerSpacing::Spacing(s)) => { o.push(k("SPACING")); o.push(d(s)); }
        Some(LefLayerSpacing::DesignRuleWidth(s)) => { o.push(k("DESIGNRULEWIDTH")); o.push(d(s)); }
        None => {}
    }
    o.push(T::Semi);
    let mut items: Vec<(u32, Vec<T>)> = vec![];
    if let Some(w) = &lg.width { items.push((0, vec![k("WIDTH"), d(w), T::Semi])); }
    for g in &lg.geometries { items.push((1, r_geometry(g))); }
    for v in &lg.vias {
        let mut t = vec![k("VIA")];
        r_pt(&v.pt, &mut t);
        t.push(n(&v.via_name));
        t.push(T::Semi);
        items.push((2, t));
    }
    // LEF: [WIDTH …;] then the shapes, then VIA statements — a fixed order inside one LAYER block
    let _ = permute;
    o.extend(interleave(rng, items, false));
    o
}
fn r_props(ps: &[LefProperty], rng: &mut Rng) -> Vec<Vec<T>> {
    // consecutive properties may share one PROPERTY statement
    let mut out: Vec<Vec<T>> = vec![];
    let mut cur: Vec<T> = vec![];
    for p in ps {
        if cur.is_empty() { cur.push(k("PROPERTY")); }
        cur.push(n(&p.name));
        cur.push(if p.value.starts_with('"') { T::S(p.value.clone()) } else { n(&p.value) });
        if rng.coin() { cur.push(T::Semi); out.push(std::mem::take(&mut cur)); }
    }
    if !cur.is_empty() { cur.push(T::Semi); out.push(cur); }
    out
}
fn r_pin(p: &LefPin, rng: &mut Rng, permute: bool) -> Vec<T> {
    let mut items: Vec<(u32, Vec<T>)> = vec![];
    let mut kind = 10;
    let mut single = |items: &mut Vec<(u32, Vec<T>)>, t: Vec<T>| { kind += 1; items.push((kind, t)); };
    if let Some(dir) = &p.direction {
        let mut t = vec![k("DIRECTION")];
        match dir {
            LefPinDirection::Input => t.push(k("INPUT")),
            LefPinDirection::Output { tristate } => { t.push(k("OUTPUT")); if *tristate { t.push(k("TRISTATE")); } }
            LefPinDirection::Inout => t.push(k("INOUT")),
            LefPinDirection::FeedThru => t.push(k("FEEDTHRU")),
        }
        t.push(T::Semi);
        single(&mut items, t);
    }
    if let Some(u) = &p.use_ { single(&mut items, vec![k("USE"), k(match u { LefPinUse::Signal => "SIGNAL", LefPinUse::Analog => "ANALOG", LefPinUse::Power => "POWER", LefPinUse::Ground => "GROUND", LefPinUse::Clock => "CLOCK" }), T::Semi]); }
    if let Some(s) = &p.shape { single(&mut items, vec![k("SHAPE"), k(match s { LefPinShape::Abutment => "ABUTMENT", LefPinShape::Ring => "RING", LefPinShape::FeedThru => "FEEDTHRU" }), T::Semi]); }
    if let Some(m) = &p.antenna_model { single(&mut items, vec![k("ANTENNAMODEL"), k(match m { LefAntennaModel::Oxide1 => "OXIDE1", LefAntennaModel::Oxide2 => "OXIDE2", LefAntennaModel::Oxide3 => "OXIDE3", LefAntennaModel::Oxide4 => "OXIDE4" }), T::Semi]); }
    for a in &p.antenna_attrs {
        let kw: &'static str = ANTENNA_KEYS.iter().find(|x| **x == a.key).copied().unwrap_or("ANTENNAGATEAREA");
        let mut t = vec![k(kw), d(&a.val)];
        if let Some(l) = &a.layer { t.push(k("LAYER")); t.push(n(l)); }
        t.push(T::Semi);
        items.push((1, t));
    }
    if let Some(v) = &p.taper_rule { single(&mut items, vec![k("TAPERRULE"), n(v), T::Semi]); }
    if let Some(v) = &p.supply_sensitivity { single(&mut items, vec![k("SUPPLYSENSITIVITY"), n(v), T::Semi]); }
    if let Some(v) = &p.ground_sensitivity { single(&mut items, vec![k("GROUNDSENSITIVITY"), n(v), T::Semi]); }
    if let Some(v) = &p.must_join { single(&mut items, vec![k("MUSTJOIN"), n(v), T::Semi]); }
    if let Some(v) = &p.net_expr { single(&mut items, vec![k("NETEXPR"), T::S(v.clone()), T::Semi]); }
    for t in r_props(&p.properties, rng) { items.push((2, t)); }
    for port in &p.ports {
        let mut t = vec![k("PORT")];
        // LEF: PORT [CLASS …;] {layer geometries}… END — the class comes first
        if let Some(c) = &port.class { t.extend([k("CLASS"), k(match c { LefPortClass::None => "NONE", LefPortClass::Core => "CORE", LefPortClass::Bump => "BUMP" }), T::Semi]); }
        for lg in &port.layers { t.extend(r_layer_geoms(lg, rng, permute)); }
        t.push(k("END"));
        items.push((3, t));
    }
    let mut o = vec![k("PIN"), n(&p.name)];
    o.extend(interleave(rng, items, permute));
    o.push(k("END"));
    o.push(n(&p.name));
    o
}
fn r_macro(m: &LefMacro, rng: &mut Rng, permute: bool) -> Vec<T> {
    let mut items: Vec<(u32, Vec<T>)> = vec![];
    let mut kind = 10;
    let mut single = |items: &mut Vec<(u32, Vec<T>)>, t: Vec<T>| { kind += 1; items.push((kind, t)); };
    if let Some(c) = &m.class {
        let mut t = vec![k("CLASS")];
        match c {
            LefMacroClass::Cover { bump } => { t.push(k("COVER")); if *bump { t.push(k("BUMP")); } }
            LefMacroClass::Ring => t.push(k("RING")),
            LefMacroClass::Block { tp } => { t.push(k("BLOCK")); if let Some(x) = tp { t.push(k(match x { LefBlockClassType::BlackBox => "BLACKBOX", LefBlockClassType::Soft => "SOFT" })); } }
            LefMacroClass::Pad { tp } => { t.push(k("PAD")); if let Some(x) = tp { t.push(k(match x { LefPadClassType::Input => "INPUT", LefPadClassType::Output => "OUTPUT", LefPadClassType::Inout => "INOUT", LefPadClassType::Power => "POWER", LefPadClassType::Spacer => "SPACER", LefPadClassType::AreaIo => "AREAIO" })); } }
            LefMacroClass::Core { tp } => { t.push(k("CORE")); if let Some(x) = tp { t.push(k(match x { LefCoreClassType::FeedThru => "FEEDTHRU", LefCoreClassType::TieHigh => "TIEHIGH", LefCoreClassType::TieLow => "TIELOW", LefCoreClassType::Spacer => "SPACER", LefCoreClassType::AntennaCell => "ANTENNACELL", LefCoreClassType::WellTap => "WELLTAP" })); } }
            LefMacroClass::EndCap { tp } => { t.push(k("ENDCAP")); t.push(k(match tp { LefEndCapClassType::Pre => "PRE", LefEndCapClassType::Post => "POST", LefEndCapClassType::TopLeft => "TOPLEFT", LefEndCapClassType::TopRight => "TOPRIGHT", LefEndCapClassType::BottomLeft => "BOTTOMLEFT", LefEndCapClassType::BottomRight => "BOTTOMRIGHT" })); }
        }
        t.push(T::Semi);
        single(&mut items, t);
    }
    if m.fixed_mask { single(&mut items, vec![k("FIXEDMASK"), T::Semi]); }
    if let Some(f) = &m.foreign {
        let mut t = vec![k("FOREIGN"), n(&f.cell_name)];
        if let Some(p) = &f.pt { r_pt(p, &mut t); }
        if let Some(o) = &f.orient { t.push(k(match o { LefOrient::N => "N", LefOrient::S => "S", LefOrient::E => "E", LefOrient::W => "W", LefOrient::FN => "FN", LefOrient::FS => "FS", LefOrient::FE => "FE", LefOrient::FW => "FW" })); }
        t.push(T::Semi);
        single(&mut items, t);
    }
    if let Some(p) = &m.origin { let mut t = vec![k("ORIGIN")]; r_pt(p, &mut t); t.push(T::Semi); single(&mut items, t); }
    if let Some(s) = &m.source { single(&mut items, vec![k("SOURCE"), k(match s { LefDefSource::Netlist => "NETLIST", LefDefSource::Dist => "DIST", LefDefSource::Timing => "TIMING", LefDefSource::User => "USER" }), T::Semi]); }
    if let Some(e) = &m.eeq { single(&mut items, vec![k("EEQ"), n(e), T::Semi]); }
    if let Some((w, h)) = &m.size { single(&mut items, vec![k("SIZE"), d(w), k("BY"), d(h), T::Semi]); }
    if let Some(s) = &m.symmetry { single(&mut items, r_symmetry(s)); }
    if let Some(s) = &m.site { single(&mut items, vec![k("SITE"), n(s), T::Semi]); }
    for p in &m.pins { items.push((1, r_pin(p, rng, permute))); }
    if !m.obs.is_empty() {
        let mut t = vec![k("OBS")];
        for lg in &m.obs { t.extend(r_layer_geoms(lg, rng, permute)); }
        t.push(k("END"));
        single(&mut items, t);
    }
    for t in r_props(&m.properties, rng) { items.push((2, t)); }
    if let Some(dens) = &m.density {
        let mut t = vec![k("DENSITY")];
        for lg in dens {
            t.extend([k("LAYER"), n(&lg.layer_name), T::Semi]);
            for r in &lg.geometries { t.push(k("RECT")); r_pt(&r.pt1, &mut t); r_pt(&r.pt2, &mut t); t.push(d(&r.density_value)); t.push(T::Semi); }
        }
        t.push(k("END"));
        single(&mut items, t);
    }
    let mut o = vec![k("MACRO"), n(&m.name)];
    o.extend(interleave(rng, items, permute));
    o.push(k("END"));
    o.push(n(&m.name));
    o
}
fn r_via(v: &LefViaDef, rng: &mut Rng, permute: bool) -> Vec<T> {
    let mut o = vec![k("VIA"), n(&v.name)];
    if v.default { o.push(k("DEFAULT")); }
    match &v.data {
        LefViaDefData::Fixed(f) => {
            if let Some(r) = &f.resistance_ohms { o.extend([k("RESISTANCE"), d(r), T::Semi]); }
            for l in &f.layers {
                o.extend([k("LAYER"), n(&l.layer_name), T::Semi]);
                for s in &l.shapes {
                    match s {
                        LefViaShape::Rect(m, a, b) => { o.push(k("RECT")); r_mask(m, &mut o); r_pt(a, &mut o); r_pt(b, &mut o); }
                        LefViaShape::Polygon(m, ps) => { o.push(k("POLYGON")); r_mask(m, &mut o); for p in ps { r_pt(p, &mut o); } }
                    }
                    o.push(T::Semi);
                }
            }
        }
        LefViaDefData::Generated(g) => {
            o.extend([k("VIARULE"), n(&g.via_rule_name), T::Semi]);
            let mut items: Vec<(u32, Vec<T>)> = vec![
                (1, vec![k("CUTSIZE"), d(&g.cut_size_x), d(&g.cut_size_y), T::Semi]),
                (2, vec![k("LAYERS"), n(&g.bot_metal_layer), n(&g.cut_layer), n(&g.top_metal_layer), T::Semi]),
                (3, vec![k("CUTSPACING"), d(&g.cut_spacing_x), d(&g.cut_spacing_y), T::Semi]),
                (4, vec![k("ENCLOSURE"), d(&g.bot_enc_x), d(&g.bot_enc_y), d(&g.top_enc_x), d(&g.top_enc_y), T::Semi]),
            ];
            if let Some(rc) = &g.rowcol { items.push((5, vec![k("ROWCOL"), d(&rc.rows), d(&rc.cols), T::Semi])); }
            if let Some(p) = &g.origin { let mut t = vec![k("ORIGIN")]; r_pt(p, &mut t); t.push(T::Semi); items.push((6, t)); }
            if let Some(f) = &g.offset { items.push((7, vec![k("OFFSET"), d(&f.bot_x), d(&f.bot_y), d(&f.top_x), d(&f.top_y), T::Semi])); }
            o.extend(interleave(rng, items, permute));
        }
    }
    o.push(k("END"));
    o.push(n(&v.name));
    o
}
fn r_propdefs(pds: &[LefPropertyDefinition]) -> Vec<T> {
    let mut o = vec![k("PROPERTYDEFINITIONS")];
    let ot = |t: &LefPropertyDefinitionObjectType| -> T {
        use LefPropertyDefinitionObjectType::*;
        k(match t { Layer => "LAYER", Library => "LIBRARY", Macro => "MACRO", NonDefaultRule => "NONDEFAULTRULE", Pin => "PIN", Via => "VIA", ViaRule => "VIARULE" })
    };
    for pd in pds {
        match pd {
            LefPropertyDefinition::LefString(t, name, v) => {
                o.extend([ot(t), n(name), k("STRING")]);
                if let Some(v) = v { o.push(T::S(v.clone())); }
            }
            LefPropertyDefinition::LefReal(t, name, v, r) | LefPropertyDefinition::LefInteger(t, name, v, r) => {
                o.extend([ot(t), n(name), k(if matches!(pd, LefPropertyDefinition::LefReal(..)) { "REAL" } else { "INTEGER" })]);
                if let Some(r) = r { o.extend([k("RANGE"), d(&r.begin), d(&r.end)]); }
                if let Some(v) = v { o.push(d(v)); }
            }
        }
        o.push(T::Semi);
    }
    o.extend([k("END"), k("PROPERTYDEFINITIONS")]);
    o
}
fn onoff(v: &LefOnOff) -> T { k(match v { LefOnOff::On => "ON", LefOnOff::Off => "OFF" }) }
pub fn render_tokens(lib: &LefLibrary, rng: &mut Rng, style: &Style) -> Vec<T> {
    let permute = style.permute;
    let mut o: Vec<T> = vec![];
    if let Some(v) = &lib.version { o.extend([k("VERSION"), d(v), T::Semi]); }
    let mut items: Vec<(u32, Vec<T>)> = vec![];
    let mut kind = 10;
    let mut single = |items: &mut Vec<(u32, Vec<T>)>, t: Vec<T>| { kind += 1; items.push((kind, t)); };
    if let Some(v) = &lib.names_case_sensitive { single(&mut items, vec![k("NAMESCASESENSITIVE"), onoff(v), T::Semi]); }
    if let Some(v) = &lib.no_wire_extension_at_pin { single(&mut items, vec![k("NOWIREEXTENSIONATPIN"), onoff(v), T::Semi]); }
    if let Some((a, b)) = &lib.bus_bit_chars { single(&mut items, vec![k("BUSBITCHARS"), T::S(format!("\"{}{}\"", a, b)), T::Semi]); }
    if let Some(c) = &lib.divider_char { single(&mut items, vec![k("DIVIDERCHAR"), T::S(format!("\"{}\"", c)), T::Semi]); }
    if let Some(u) = &lib.units {
        let mut sub: Vec<(u32, Vec<T>)> = vec![];
        if let Some(v) = &u.database_microns { sub.push((0, vec![k("DATABASE"), k("MICRONS"), d(&D::new(v.0 as i64, 0)), T::Semi])); }
        if let Some(v) = &u.time_ns { sub.push((1, vec![k("TIME"), k("NANOSECONDS"), d(v), T::Semi])); }
        if let Some(v) = &u.capacitance_pf { sub.push((2, vec![k("CAPACITANCE"), k("PICOFARADS"), d(v), T::Semi])); }
        if let Some(v) = &u.resistance_ohms { sub.push((3, vec![k("RESISTANCE"), k("OHMS"), d(v), T::Semi])); }
        if let Some(v) = &u.power_mw { sub.push((4, vec![k("POWER"), k("MILLIWATTS"), d(v), T::Semi])); }
        if let Some(v) = &u.current_ma { sub.push((5, vec![k("CURRENT"), k("MILLIAMPS"), d(v), T::Semi])); }
        if let Some(v) = &u.voltage_volts { sub.push((6, vec![k("VOLTAGE"), k("VOLTS"), d(v), T::Semi])); }
        if let Some(v) = &u.frequency_mhz { sub.push((7, vec![k("FREQUENCY"), k("MEGAHERTZ"), d(v), T::Semi])); }
        let mut t = vec![k("UNITS")];
        t.extend(interleave(rng, sub, permute));
        t.extend([k("END"), k("UNITS")]);
        single(&mut items, t);
    }
    if let Some(v) = &lib.manufacturing_grid { single(&mut items, vec![k("MANUFACTURINGGRID"), d(v), T::Semi]); }
    if let Some(v) = &lib.use_min_spacing { single(&mut items, vec![k("USEMINSPACING"), k("OBS"), onoff(v), T::Semi]); }
    if let Some(v) = &lib.clearance_measure { single(&mut items, vec![k("CLEARANCEMEASURE"), k(match v { LefClearanceStyle::MaxXY => "MAXXY", LefClearanceStyle::Euclidean => "EUCLIDEAN" }), T::Semi]); }
    if lib.fixed_mask { single(&mut items, vec![k("FIXEDMASK"), T::Semi]); }
    if !lib.property_definitions.is_empty() {
        // one block, or split in two blocks (the definitions keep their order)
        let pds = &lib.property_definitions;
        if pds.len() >= 2 && rng.coin() {
            let cut = 1 + rng.below(pds.len() as u64 - 1) as usize;
            items.push((1, r_propdefs(&pds[..cut])));
            items.push((1, r_propdefs(&pds[cut..])));
        } else {
            items.push((1, r_propdefs(pds)));
        }
    }
    for v in &lib.vias { items.push((2, r_via(v, rng, permute))); }
    for s in &lib.sites {
        let mut sub: Vec<(u32, Vec<T>)> = vec![
            (0, vec![k("CLASS"), k(match s.class { LefSiteClass::Pad => "PAD", LefSiteClass::Core => "CORE" }), T::Semi]),
            (1, vec![k("SIZE"), d(&s.size.0), k("BY"), d(&s.size.1), T::Semi]),
        ];
        if let Some(sy) = &s.symmetry { sub.push((2, r_symmetry(sy))); }
        let mut t = vec![k("SITE"), n(&s.name)];
        t.extend(interleave(rng, sub, permute));
        t.extend([k("END"), n(&s.name)]);
        items.push((3, t));
    }
    for m in &lib.macros { items.push((4, r_macro(m, rng, permute))); }
    for e in &lib.extensions {
        let mut t = vec![k("BEGINEXT"), T::S(e.name.clone())];
        for w in e.data.split(' ').filter(|w| !w.is_empty()) { t.push(n(w)); }
        t.push(k("ENDEXT"));
        items.push((5, t));
    }
    o.extend(interleave(rng, items, permute));
    let need_end = matches!(lib.version, Some(v) if v < D::new(56, 1));
    if need_end || style.end_library { o.extend([k("END"), k("LIBRARY")]); }
    o
}
pub fn render(lib: &LefLibrary, styleseed: u64) -> String {
    let mut rng = Rng::new(styleseed ^ 0x5717e);
    let style = Style {
        kwcase: (styleseed % 3) as u8,
        numstyle: ((styleseed / 3) % 2) as u8,
        spacing: ((styleseed / 6) % 2) as u8,
        comments: ((styleseed / 12) % 3) as u8,
        permute: (styleseed / 36) % 2 == 1,
        end_library: (styleseed / 72) % 2 == 1,
    };
    let toks = render_tokens(lib, &mut rng, &style);
    layout(&toks, &mut rng, &style)
}

// ------------------------------------------------------------------------------------------------
// ops
fn text_arg(a: Option<&Sexp>) -> Option<String> {
    String::from_utf8(a?.bytes()?).ok()
}
pub fn op_lex(args: &[Sexp]) -> String {
    let txt = match text_arg(args.get(0)) { Some(t) => t, None => return "bad-op".into() };
    match lef21::verif_hooks::lex(&txt) {
        Ok(toks) => {
            let items: Vec<String> = toks.iter().map(|(t, s, e)| {
                let tt = match t.as_str() { "Name" => "name", "Number" => "number", "SemiColon" => "semi", "StringLiteral" => "string", other => other };
                format!("({} {} {})", tt, s, e)
            }).collect();
            format!("ok ({})", items.join(" "))
        }
        Err(_) => "err".into(),
    }
}
/// `LefParser::state` (the error report) at every parser position, through the hook `verif_hooks::states`
pub fn op_states(args: &[Sexp]) -> String {
    let txt = match text_arg(args.get(0)) { Some(t) => t, None => return "bad-op".into() };
    match lef21::verif_hooks::states(&txt) {
        Ok(sts) => {
            let items: Vec<String> = sts.iter().map(|(lc, ln, tok, pos)| format!("({} {} {} {})", of_bytes(lc.as_bytes()), ln, of_bytes(tok.as_bytes()), pos)).collect();
            format!("ok ({})", items.join(" "))
        }
        Err(_) => "err".into(),
    }
}
macro_rules! enum_tables {
    ($name:expr, $txt:expr, $($t:ident),*) => {
        match $name {
            $( stringify!($t) => Some(<$t as EnumStr>::from_str(&$txt.to_ascii_uppercase()).map(|v| format!("{:?}", v))), )*
            _ => None,
        }
    };
}
pub fn op_enum(args: &[Sexp]) -> String {
    let (name, txt) = match (args.get(0).and_then(|a| a.atom()), text_arg(args.get(1))) { (Some(n), Some(t)) => (n, t), _ => return "bad-op".into() };
    let r = enum_tables!(name, txt, LefKey, LefOnOff, LefClearanceStyle, LefDefSource, LefSymmetry, LefOrient, LefPinUse, LefPinShape, LefMacroClassName, LefPadClassType, LefEndCapClassType, LefBlockClassType, LefCoreClassType, LefPortClass, LefSiteClass, LefAntennaModel, LefPropertyDefinitionObjectType);
    match r {
        Some(Some(v)) => format!("ok {}", v),
        Some(None) => "ok none".into(),
        None => "bad-op".into(),
    }
}
pub fn op_dbu(args: &[Sexp]) -> String {
    let (m, s) = match (args.get(0).and_then(|a| a.int()), args.get(1).and_then(|a| a.int())) { (Some(m), Some(s)) if (0..=28).contains(&s) => (m, s as u32), _ => return "bad-op".into() };
    match LefDbuPerMicron::try_new(D::new(m, s)) { Ok(v) => format!("ok {}", v.0), Err(_) => "err".into() }
}
// canonical printing of a library (shared format with lean/L21/Driver/LefIO.lean: `sLib`)
fn f() -> Sexp { a("#f") }
fn s_str(s: &str) -> Sexp { of_bytes(s.as_bytes()) }
fn s_dec(d: &D) -> Sexp { let n = d.normalize(); a(format!("d{}e{}", n.mantissa(), n.scale())) }
fn s_opt<T>(o: &Option<T>, g: impl Fn(&T) -> Sexp) -> Sexp { match o { Some(x) => g(x), None => f() } }
fn s_enum<T: std::fmt::Debug>(e: &T) -> Sexp { a(format!("{:?}", e)) }
fn s_pt(p: &LefPoint) -> Vec<Sexp> { vec![s_dec(&p.x), s_dec(&p.y)] }
fn s_pts(ps: &[LefPoint]) -> Vec<Sexp> { ps.iter().map(|p| l(s_pt(p))).collect() }
fn s_mask(m: &Option<LefMask>) -> Sexp { s_opt(m, |m| s_dec(&m.mask)) }
fn s_shape(s: &LefShape) -> Sexp {
    match s {
        LefShape::Rect(m, p, q) => l([vec![a("rect"), s_mask(m)], s_pt(p), s_pt(q)].concat()),
        LefShape::Polygon(m, ps) => l([vec![a("poly"), s_mask(m)], s_pts(ps)].concat()),
        LefShape::Path(m, ps) => l([vec![a("path"), s_mask(m)], s_pts(ps)].concat()),
    }
}
fn s_geom(g: &LefGeometry) -> Sexp {
    match g {
        LefGeometry::Shape(s) => s_shape(s),
        LefGeometry::Iterate { shape, pattern } => l(vec![a("iter"), s_shape(shape), s_dec(&pattern.numx), s_dec(&pattern.numy), s_dec(&pattern.spacex), s_dec(&pattern.spacey)]),
    }
}
fn s_lg(g: &LefLayerGeometries) -> Sexp {
    l(vec![a("lg"), s_str(&g.layer_name), s_opt(&g.except_pg_net, |b| of_bool(*b)),
        s_opt(&g.spacing, |s| match s { LefLayerSpacing::Spacing(d) => l(vec![a("sp"), s_dec(d)]), LefLayerSpacing::DesignRuleWidth(d) => l(vec![a("drw"), s_dec(d)]) }),
        s_opt(&g.width, s_dec), l(std::iter::once(a("geoms")).chain(g.geometries.iter().map(s_geom)).collect()),
        l(std::iter::once(a("vias")).chain(g.vias.iter().map(|v| l([vec![s_str(&v.via_name)], s_pt(&v.pt)].concat()))).collect())])
}
fn s_props(ps: &[LefProperty]) -> Sexp { l(std::iter::once(a("props")).chain(ps.iter().map(|p| l(vec![s_str(&p.name), s_str(&p.value)]))).collect()) }
fn s_pin(p: &LefPin) -> Sexp {
    let dir = s_opt(&p.direction, |d| match d {
        LefPinDirection::Input => l(vec![a("dir"), a("Input"), of_bool(false)]), LefPinDirection::Inout => l(vec![a("dir"), a("Inout"), of_bool(false)]),
        LefPinDirection::FeedThru => l(vec![a("dir"), a("FeedThru"), of_bool(false)]), LefPinDirection::Output { tristate } => l(vec![a("dir"), a("Output"), of_bool(*tristate)]) });
    l(vec![a("pin"), s_str(&p.name), dir, s_opt(&p.use_, s_enum), s_opt(&p.shape, s_enum), s_opt(&p.antenna_model, s_enum),
        l(std::iter::once(a("ant")).chain(p.antenna_attrs.iter().map(|x| l(vec![s_str(&x.key), s_dec(&x.val), s_opt(&x.layer, |s| s_str(s))]))).collect()),
        s_opt(&p.taper_rule, |s| s_str(s)), s_opt(&p.supply_sensitivity, |s| s_str(s)), s_opt(&p.ground_sensitivity, |s| s_str(s)), s_opt(&p.must_join, |s| s_str(s)), s_opt(&p.net_expr, |s| s_str(s)),
        s_props(&p.properties),
        l(std::iter::once(a("ports")).chain(p.ports.iter().map(|pt| l([vec![a("port"), s_opt(&pt.class, s_enum)], pt.layers.iter().map(s_lg).collect()].concat()))).collect())])
}
fn s_macro(m: &LefMacro) -> Sexp {
    let cls = s_opt(&m.class, |c| match c {
        LefMacroClass::Cover { bump } => l(vec![a("cls"), a("Cover"), f(), of_bool(*bump)]),
        LefMacroClass::Ring => l(vec![a("cls"), a("Ring"), f(), of_bool(false)]),
        LefMacroClass::Block { tp } => l(vec![a("cls"), a("Block"), s_opt(tp, s_enum), of_bool(false)]),
        LefMacroClass::Pad { tp } => l(vec![a("cls"), a("Pad"), s_opt(tp, s_enum), of_bool(false)]),
        LefMacroClass::Core { tp } => l(vec![a("cls"), a("Core"), s_opt(tp, s_enum), of_bool(false)]),
        LefMacroClass::EndCap { tp } => l(vec![a("cls"), a("EndCap"), s_enum(tp), of_bool(false)]) });
    l(vec![a("macro"), s_str(&m.name), cls,
        s_opt(&m.foreign, |x| l(vec![a("foreign"), s_str(&x.cell_name), s_opt(&x.pt, |p| l(s_pt(p))), s_opt(&x.orient, s_enum)])),
        s_opt(&m.origin, |p| l(s_pt(p))), s_opt(&m.size, |s| l(vec![s_dec(&s.0), s_dec(&s.1)])), s_opt(&m.symmetry, |v| l(v.iter().map(s_enum).collect())),
        s_opt(&m.site, |s| s_str(s)), s_opt(&m.source, s_enum), s_opt(&m.eeq, |s| s_str(s)), of_bool(m.fixed_mask), s_props(&m.properties),
        s_opt(&m.density, |d| l(std::iter::once(a("density")).chain(d.iter().map(|x| l([vec![a("dl"), s_str(&x.layer_name)], x.geometries.iter().map(|r| l([vec![a("dr")], s_pt(&r.pt1), s_pt(&r.pt2), vec![s_dec(&r.density_value)]].concat())).collect()].concat()))).collect())),
        l(std::iter::once(a("obs")).chain(m.obs.iter().map(s_lg)).collect()), l(std::iter::once(a("pins")).chain(m.pins.iter().map(s_pin)).collect())])
}
fn s_via(v: &LefViaDef) -> Sexp {
    let d2 = |x: &D, y: &D| l(vec![s_dec(x), s_dec(y)]);
    let data = match &v.data {
        LefViaDefData::Fixed(x) => l([vec![a("fixed"), s_opt(&x.resistance_ohms, s_dec)], x.layers.iter().map(|ly| l([vec![a("vl"), s_str(&ly.layer_name)], ly.shapes.iter().map(|s| match s {
            LefViaShape::Rect(m, p, q) => l([vec![a("vrect"), s_mask(m)], s_pt(p), s_pt(q)].concat()), LefViaShape::Polygon(m, ps) => l([vec![a("vpoly"), s_mask(m)], s_pts(ps)].concat()) }).collect()].concat())).collect()].concat()),
        LefViaDefData::Generated(g) => l(vec![a("gen"), s_str(&g.via_rule_name), d2(&g.cut_size_x, &g.cut_size_y), l(vec![s_str(&g.bot_metal_layer), s_str(&g.cut_layer), s_str(&g.top_metal_layer)]),
            d2(&g.cut_spacing_x, &g.cut_spacing_y), l(vec![s_dec(&g.bot_enc_x), s_dec(&g.bot_enc_y), s_dec(&g.top_enc_x), s_dec(&g.top_enc_y)]),
            s_opt(&g.rowcol, |r| d2(&r.rows, &r.cols)), s_opt(&g.origin, |p| l(s_pt(p))), s_opt(&g.offset, |o| l(vec![s_dec(&o.bot_x), s_dec(&o.bot_y), s_dec(&o.top_x), s_dec(&o.top_y)]))]),
    };
    l(vec![a("via"), s_str(&v.name), of_bool(v.default), data])
}
pub fn lib_s(lb: &LefLibrary) -> Sexp {
    let ch = |c: &char| s_str(&c.to_string());
    let units = s_opt(&lb.units, |u| l(vec![a("units"), s_opt(&u.database_microns, |d| of_int(d.0 as i64)), s_opt(&u.time_ns, s_dec), s_opt(&u.capacitance_pf, s_dec), s_opt(&u.resistance_ohms, s_dec),
        s_opt(&u.power_mw, s_dec), s_opt(&u.current_ma, s_dec), s_opt(&u.voltage_volts, s_dec), s_opt(&u.frequency_mhz, s_dec)]));
    let pd = |p: &LefPropertyDefinition| match p {
        LefPropertyDefinition::LefString(o, n, v) => l(vec![a("pstr"), s_enum(o), s_str(n), s_opt(v, |s| s_str(s))]),
        LefPropertyDefinition::LefReal(o, n, v, r) => l(vec![a("preal"), s_enum(o), s_str(n), s_opt(v, s_dec), s_opt(r, |r| l(vec![s_dec(&r.begin), s_dec(&r.end)]))]),
        LefPropertyDefinition::LefInteger(o, n, v, r) => l(vec![a("pint"), s_enum(o), s_str(n), s_opt(v, s_dec), s_opt(r, |r| l(vec![s_dec(&r.begin), s_dec(&r.end)]))]),
    };
    l(vec![a("lib"), s_opt(&lb.version, s_dec), s_opt(&lb.names_case_sensitive, s_enum), s_opt(&lb.no_wire_extension_at_pin, s_enum),
        s_opt(&lb.bus_bit_chars, |p| l(vec![ch(&p.0), ch(&p.1)])), s_opt(&lb.divider_char, ch), units, of_bool(lb.fixed_mask), s_opt(&lb.clearance_measure, s_enum),
        s_opt(&lb.manufacturing_grid, s_dec), s_opt(&lb.use_min_spacing, s_enum),
        l(std::iter::once(a("propdefs")).chain(lb.property_definitions.iter().map(pd)).collect()),
        l(std::iter::once(a("exts")).chain(lb.extensions.iter().map(|e| l(vec![s_str(&e.name), s_str(&e.data)]))).collect()),
        l(std::iter::once(a("vias")).chain(lb.vias.iter().map(s_via)).collect()),
        l(std::iter::once(a("sites")).chain(lb.sites.iter().map(|s| l(vec![a("site"), s_str(&s.name), s_enum(&s.class), l(vec![s_dec(&s.size.0), s_dec(&s.size.1)]), s_opt(&s.symmetry, |v| l(v.iter().map(s_enum).collect()))]))).collect()),
        l(std::iter::once(a("macros")).chain(lb.macros.iter().map(s_macro)).collect())])
}
/// text -> library -> writer's text -> its tokens (type, text)
pub fn op_wtokens(args: &[Sexp]) -> String {
    let txt = match text_arg(args.get(0)) { Some(t) => t, None => return "bad-op".into() };
    let lb = match lef21::verif_hooks::parse_str(&txt) { Ok(l) => l, Err(_) => return "err".into() };
    let w = match lb.to_string() { Ok(w) => w, Err(_) => return "err-write".into() };
    match lef21::verif_hooks::lex(&w) {
        Ok(toks) => {
            let items: Vec<Sexp> = toks.iter().map(|(t, s, e)| {
                let tt = match t.as_str() { "Name" => "name", "Number" => "number", "SemiColon" => "semi", "StringLiteral" => "string", other => other };
                l(vec![a(tt), s_str(&w[*s..*e])])
            }).collect();
            format!("ok {}", l(items))
        }
        Err(_) => "err-lex".into(),
    }
}
pub fn op_parse(args: &[Sexp]) -> String {
    let txt = match text_arg(args.get(0)) { Some(t) => t, None => return "bad-op".into() };
    match lef21::verif_hooks::parse_str(&txt) { Ok(lb) => format!("ok {}", lib_s(&lb)), Err(_) => "err".into() }
}
/// `lef.open x<text>`: the same text through a FILE — `LefLibrary::open(path)` — printed like `lef.parse`
pub fn op_open(args: &[Sexp]) -> String {
    let txt = match text_arg(args.get(0)) { Some(t) => t, None => return "bad-op".into() };
    let path = std::env::temp_dir().join(format!("l21h-open-{}.lef", std::process::id()));
    if std::fs::write(&path, txt.as_bytes()).is_err() { return "bad-op".into(); }
    let r = LefLibrary::open(&path);
    let _ = std::fs::remove_file(&path);
    match r { Ok(lb) => format!("ok {}", lib_s(&lb)), Err(_) => "err".into() }
}
/// `lef.wfail <libseed>`: a generated library made UNWRITABLE after some of its text (a 5.4-only MACRO SOURCE
/// statement in a 5.8 library): `to_string` must refuse it — and leave nothing behind for the next call
pub fn op_wfail(args: &[Sexp]) -> String {
    let seed = match args.get(0).and_then(|a| a.int()) { Some(s) => s as u64, None => return "bad-op".into() };
    let mut lib = gen_lib(seed);
    lib.version = Some(D::new(58, 1));
    lib.names_case_sensitive = None;
    let mut m = LefMacro::default();
    m.name = "legacy".into();
    m.source = Some(LefDefSource::User);
    lib.macros.push(m);
    match lib.to_string() { Ok(_) => "ok written".into(), Err(_) => "err".into() }
}
fn first_diff(a: &LefLibrary, b: &LefLibrary) -> String {
    let (ja, jb) = (serde_json::to_string(a).unwrap_or_default(), serde_json::to_string(b).unwrap_or_default());
    if ja == jb { return "(differs only in a field the JSON view does not show: fixed_mask)".into(); }
    let i = ja.bytes().zip(jb.bytes()).position(|(x, y)| x != y).unwrap_or(ja.len().min(jb.len()));
    let cut = |s: &str| { let lo = (0..=i.saturating_sub(60)).rev().find(|&j| s.is_char_boundary(j)).unwrap_or(0); let hi = (i + 60).min(s.len()); let hi = (hi..=s.len()).find(|&j| s.is_char_boundary(j)).unwrap_or(s.len()); s[lo..hi].to_string() };
    format!("read …{}… expected …{}…", cut(&ja), cut(&jb))
}
pub fn op_read(args: &[Sexp]) -> String {
    let (seed, txt) = match (args.get(0).and_then(|a| a.int()), text_arg(args.get(1))) { (Some(s), Some(t)) => (s as u64, t), _ => return "bad-op".into() };
    let want = gen_lib(seed);
    match lef21::verif_hooks::parse_str(&txt) {
        Ok(got) => if got == want { "ok #t".into() } else { "ok #f".into() },
        Err(_) => "err".into(),
    }
}
pub fn op_wr(args: &[Sexp]) -> String {
    let txt = match text_arg(args.get(0)) { Some(t) => t, None => return "bad-op".into() };
    let lib = match lef21::verif_hooks::parse_str(&txt) { Ok(l) => l, Err(_) => return "ok unreadable".into() };
    let written = match lib.to_string() { Ok(s) => s, Err(_) => return "err-write".into() };
    match lef21::verif_hooks::parse_str(&written) {
        Ok(l2) => if l2 == lib { "ok #t".into() } else { "ok #f".into() },
        Err(_) => "err-reread".into(),
    }
}
pub fn op_crash(args: &[Sexp]) -> String {
    let txt = match text_arg(args.get(0)) { Some(t) => t, None => return "bad-op".into() };
    match lef21::verif_hooks::parse_str(&txt) {
        Ok(lib) => {
            // any library the reader returns can be written and read again without a crash
            if let Ok(s) = lib.to_string() { let _ = lef21::verif_hooks::parse_str(&s); }
            "ok lib".into()
        }
        Err(e) => {
            // the error report is built and formatted too
            let _ = format!("{:?}", e);
            "ok err".into()
        }
    }
}
fn big_text(n: usize, bad_tail: bool, shape: i64) -> String {
    let mut s = String::from("VERSION 5.8 ;\n");
    match shape {
        1 => {
            // one extension block of n lines of tokens that are not keywords
            s.push_str("BEGINEXT \"tag\"\n");
            for i in 0..n { s.push_str(&format!("  item{} 1.5 \"s{}\" ;\n", i, i)); }
            s.push_str(if bad_tail { "\n" } else { "ENDEXT\n" });
        }
        2 => {
            // n small macros
            for i in 0..n { s.push_str(&format!("MACRO m{}\n  CLASS CORE ;\n  SIZE 1 BY 2 ;\nEND m{}\n", i, i)); }
            if bad_tail { s.push_str("MACRO x\n"); }
        }
        3 => {
            // n comment lines and blank lines, then one macro; and one very long line of coordinates
            for i in 0..n { s.push_str(&format!("# comment {} é\n\n", i)); }
            s.push_str("MACRO m\n  OBS LAYER l ; POLYGON");
            for i in 0..n { s.push_str(&format!(" {} {}", i, i + 1)); }
            s.push_str(if bad_tail { " x ; END\nEND m\n" } else { " ; END\nEND m\n" });
        }
        4 => {
            // one macro with n properties in one statement and n property definitions
            s.push_str("PROPERTYDEFINITIONS\n");
            for i in 0..n { s.push_str(&format!("  MACRO p{} REAL RANGE 0 {} 1.5 ;\n", i, i + 1)); }
            s.push_str("END PROPERTYDEFINITIONS\nMACRO m\n  PROPERTY");
            for i in 0..n { s.push_str(&format!(" p{} {}", i, i)); }
            s.push_str(if bad_tail { " ;\nEND mm\n" } else { " ;\nEND m\n" });
        }
        _ => {
            s.push_str("MACRO big\n");
            for i in 0..n {
                s.push_str(&format!("  PIN p{} DIRECTION INPUT ; PORT LAYER m1 ; RECT {} 0.5 {}.25 1 ; END END p{}\n", i, i, i, i));
            }
            s.push_str(if bad_tail { "END bigg\n" } else { "END big\n" });
        }
    }
    s
}
pub fn op_big(args: &[Sexp]) -> String {
    let n = match args.get(0).and_then(|a| a.int()) { Some(n) if n > 0 && n <= 400_000 => n as usize, _ => return "bad-op".into() };
    let bad = args.get(1).and_then(|a| a.boolean()).unwrap_or(false);
    let shape = args.get(2).and_then(|a| a.int()).unwrap_or(0);
    // shapes 5..9: the same statements as 0..4 written on ONE line (line structure matters to the
    // error-report builder, which slices the current source line)
    let txt = if shape >= 5 { big_text(n, bad, shape - 5).lines().filter(|l| !l.trim_start().starts_with('#')).collect::<Vec<_>>().join(" ") } else { big_text(n, bad, shape) };
    // CPU time of this thread, so that a loaded machine does not look like a slow reader; wall clock only where /proc is missing
    let cpu_ms = crate::rng::thread_cpu_ms;
    let (c0, t0) = (cpu_ms(), std::time::Instant::now());
    let r = lef21::verif_hooks::parse_str(&txt);
    let ms = match (c0, cpu_ms()) { (Some(a), Some(b)) if b >= a => b - a, _ => t0.elapsed().as_millis() };
    // generous: 50 µs per statement line + 2 s (a quadratic reader needs minutes at n = 100000)
    let bound = 2000 + (n as u128) / 20;
    format!("ok {} {}", if r.is_ok() { "lib" } else { "err" }, if ms <= bound { "linear".to_string() } else { format!("slow-{}ms", ms) })
}

// ------------------------------------------------------------------------------------------------
// oracles
fn parsed(line: &str) -> Option<Vec<Sexp>> { Sexp::parse_all(line).filter(|p| !p.is_empty()) }
pub fn oracle_c04(line: &str) -> String {
    let p = match parsed(line) { Some(p) => p, None => return "na".into() };
    let res = crate::ops::run_line(line);
    match p[0].atom().unwrap_or("") {
        "lef.read" => match res.as_str() {
            "ok #t" => "pass".into(),
            "ok #f" => {
                let want = gen_lib(p[1].int().unwrap_or(0) as u64);
                let got = lef21::verif_hooks::parse_str(&text_arg(p.get(2)).unwrap_or_default()).unwrap();
                format!("fail the library read differs from the library rendered: {}", first_diff(&got, &want))
            }
            "err" => {
                let e = lef21::verif_hooks::parse_str(&text_arg(p.get(2)).unwrap_or_default()).err();
                let msg: String = format!("{:?}", e).chars().take(300).collect();
                format!("fail the reader rejected a rendered library: {}", msg)
            }
            other => format!("fail {}", other),
        },
        "lef.open" => {
            // reading a file gives what reading its text gives
            let direct = op_parse(&p[1..]);
            if res == direct { "pass".into() } else { format!("fail LefLibrary::open of a file differs from reading its text: {} vs {}", &res[..res.len().min(60)], &direct[..direct.len().min(60)]) }
        }
        "lef.lex" | "lef.enum" | "lef.dbu" | "lef.parse" | "lef.wtokens" => if res == "panic" { "fail panic".into() } else { "pass".into() },
        _ => "na".into(),
    }
}
pub fn oracle_c05(line: &str) -> String {
    let p = match parsed(line) { Some(p) => p, None => return "na".into() };
    let res = crate::ops::run_line(line);
    match p[0].atom().unwrap_or("") {
        "lef.wr" => match res.as_str() {
            "ok #t" => "pass".into(),
            "ok unreadable" => "na".into(),
            "err-write" => "fail the writer refused a library the reader produced".into(),
            "err-reread" => {
                let lib = lef21::verif_hooks::parse_str(&text_arg(p.get(1)).unwrap_or_default()).unwrap();
                let w = lib.to_string().unwrap();
                let e: String = format!("{:?}", lef21::verif_hooks::parse_str(&w).err()).chars().take(300).collect();
                format!("fail the written text is not accepted by the reader: {}", e)
            }
            "ok #f" => {
                let lib = lef21::verif_hooks::parse_str(&text_arg(p.get(1)).unwrap_or_default()).unwrap();
                let l2 = lef21::verif_hooks::parse_str(&lib.to_string().unwrap()).unwrap();
                format!("fail write-then-read changed the library: {}", first_diff(&l2, &lib))
            }
            other => format!("fail {}", other),
        },
        "lef.wfail" => if res == "err" { "pass".into() } else { "na".into() },
        "lef.lex" | "lef.parse" | "lef.wtokens" => if res == "panic" { "fail panic".into() } else { "pass".into() },
        _ => "na".into(),
    }
}
pub fn oracle_c11(line: &str) -> String {
    let p = match parsed(line) { Some(p) => p, None => return "na".into() };
    let res = crate::ops::run_line(line);
    match p[0].atom().unwrap_or("") {
        "lef.states" => if res == "panic" { "fail building the error report panicked at some parser position".into() } else if res.starts_with("ok") || res == "err" { "pass".into() } else { format!("fail {}", res) },
        "lef.crash" | "lef.lex" | "lef.parse" => if res == "panic" { "fail the reader panicked".into() } else if res.starts_with("ok") || res == "err" { "pass".into() } else { format!("fail {}", res) },
        "lef.big" => if res.ends_with("linear") { "pass".into() } else { format!("fail reading time is not proportional to the input length: {}", res) },
        _ => "na".into(),
    }
}
pub fn tag(line: &str) -> String {
    let p = match parsed(line) { Some(p) => p, None => return "-".into() };
    let op = p[0].atom().unwrap_or("-").to_string();
    match op.as_str() {
        "lef.read" | "lef.wr" | "lef.crash" => {
            let txt = text_arg(p.last()).unwrap_or_default();
            let up = txt.to_ascii_uppercase();
            let mut feats = vec![];
            for (kw, t) in [("MACRO", "macro"), ("VIARULE", "genvia"), ("ITERATE", "iterate"), ("PROPERTYDEFINITIONS", "propdefs"), ("BEGINEXT", "ext"), ("DENSITY", "density"), ("ANTENNA", "antenna")] {
                if up.contains(kw) { feats.push(t); }
            }
            if !txt.is_ascii() { feats.push("non-ascii"); }
            let r = crate::ops::run_line(line);
            format!("{}:{}:{}", op, r.split(' ').take(2).collect::<Vec<_>>().join("-"), if feats.is_empty() { "plain".to_string() } else { feats.join("+") })
        }
        "lef.enum" => format!("{}:{}", op, p.get(1).and_then(|a| a.atom()).unwrap_or("-")),
        _ => op,
    }
}

// ------------------------------------------------------------------------------------------------
// generators
fn text_hex(s: &str) -> Sexp { of_bytes(s.as_bytes()) }
const ENUM_TABLES: &[&str] = &["LefKey", "LefOnOff", "LefClearanceStyle", "LefDefSource", "LefSymmetry", "LefOrient", "LefPinUse", "LefPinShape", "LefMacroClassName", "LefPadClassType", "LefEndCapClassType", "LefBlockClassType", "LefCoreClassType", "LefPortClass", "LefSiteClass", "LefAntennaModel", "LefPropertyDefinitionObjectType"];
const ENUM_WORDS: &[&str] = &["on", "OFF", "Macro", "end", "LIBRARY", "x", "r90", "fn", "Signal", "abutment", "cover", "AreaIO", "topleft", "blackbox", "welltap", "none", "pad", "oxide3", "viarule", "maxxy", "dist", "é", "ON ", "", "ONN", "input", "feedthru", "Bump", "core", "NonDefaultRule"];
pub fn gen_c04(thorough: bool, rng: &mut Rng, out: &mut Vec<String>) {
    let nlib = if thorough { 5000 } else { 500 };
    for i in 0..nlib {
        let libseed = LIBSEED_V2 + rng.next() % 1_000_000_007;
        let lib = gen_lib(libseed);
        let styles = if thorough { 3 } else { 2 };
        for j in 0..styles {
            let styleseed = if j == 0 { (i as u64) % 144 } else { rng.below(1 << 40) };
            let txt = render(&lib, styleseed);
            out.push(format!("lef.read {} {}", libseed, text_hex(&txt)));
            if (i + j) % 6 == 0 {
                // through a file: first a text the reader rejects (cut after a statement, 5.5+ so END LIBRARY is missed,
                // or with a stray word), then the good one — a rejected file must leave nothing behind
                let cut = txt.char_indices().nth(txt.chars().count() * 2 / 3).map(|(k, _)| k).unwrap_or(txt.len());
                out.push(format!("lef.open {}", text_hex(&format!("{} MACRO half_written CLASS CORE ;", &txt[..cut]))));
                out.push(format!("lef.open {}", text_hex(&txt)));
            }
            out.push(format!("lef.parse {}", text_hex(&txt)));
            if (i + j) % 5 == 0 { out.push(format!("lef.lex {}", text_hex(&txt))); }
        }
    }
    for t in ENUM_TABLES {
        for w in ENUM_WORDS { out.push(format!("lef.enum {} {}", t, text_hex(w))); }
    }
    for (m, s) in [(2000, 0), (20000, 1), (2000000, 3), (100, 0), (20000, 0), (200000, 1), (3000, 0), (20005, 1), (150, 0), (1000, 1), (0, 0), (-2000, 0), (1, 0), (40000, 1), (8000, 0), (80000, 1)] {
        out.push(format!("lef.dbu {} {}", m, s));
    }
}
/// a long quoted literal with blanks inside: 1.5k … 6k bytes, longer than any line length a writer might wrap at
fn long_literal(rng: &mut Rng) -> String {
    let n = 1500 + rng.below(4500) as usize;
    let mut b = String::new();
    while b.len() < n {
        let w: &str = *rng.pick(&["lorem", "w", "größe", "x1", "#", ";", "END"]);
        b.push_str(w);
        b.push(' ');
        if rng.chance(1, 9) { b.push(' '); }
    }
    format!("\"{}\"", b)
}
/// put long literals where the library holds quoted strings (the ops of C05 carry the text, so `gen_lib(seed)` stays as it was)
fn lengthen(lib: &mut LefLibrary, rng: &mut Rng) {
    for m in lib.macros.iter_mut() {
        for p in m.properties.iter_mut() { if rng.coin() { p.value = long_literal(rng); } }
        for pin in m.pins.iter_mut() {
            if pin.net_expr.is_some() && rng.coin() { pin.net_expr = Some(long_literal(rng)); }
            for p in pin.properties.iter_mut() { if rng.coin() { p.value = long_literal(rng); } }
        }
    }
    for pd in lib.property_definitions.iter_mut() {
        if let LefPropertyDefinition::LefString(_, _, Some(v)) = pd { if rng.coin() { *v = long_literal(rng); } }
    }
    for e in lib.extensions.iter_mut() { if rng.coin() { e.data = format!("{} {}", long_literal(rng), e.data); } }
}
pub fn gen_c05(thorough: bool, rng: &mut Rng, out: &mut Vec<String>) {
    let nlib = if thorough { 8000 } else { 800 };
    for i in 0..nlib {
        let libseed = LIBSEED_V2 + rng.next() % 1_000_000_007;
        let mut lib = gen_lib(libseed);
        if i % 16 == 5 { lengthen(&mut lib, rng); }
        let txt = render(&lib, if i % 2 == 0 { 0 } else { rng.below(1 << 40) });
        // every fifth library is written right after a library the writer refuses half-way
        if i % 5 == 2 { out.push(format!("lef.wfail {}", LIBSEED_V2 + rng.next() % 1_000_000_007)); }
        out.push(format!("lef.wr {}", text_hex(&txt)));
        out.push(format!("lef.wtokens {}", text_hex(&txt)));
        if i % 10 == 0 {
            // the writer's own output is lexed by the model too
            if let Ok(w) = lib.to_string() { out.push(format!("lef.lex {}", text_hex(&w))); }
        }
        if i % 2 == 0 {
            // the model parser reads the writer's own output
            if let Ok(w) = lib.to_string() { out.push(format!("lef.parse {}", text_hex(&w))); }
        }
        if i % 3 == 0 {
            // the reader accepts header statements more than once (the last one wins), in any
            // position between definitions: libraries read from such texts are in its image too
            let t = repeated_headers(&txt, rng);
            out.push(format!("lef.wr {}", text_hex(&t)));
            out.push(format!("lef.parse {}", text_hex(&t)));
        }
    }
}
/// `txt` with further header statements (VERSION of any supported value included) put in front of
/// it and after its last definition
fn repeated_headers(txt: &str, rng: &mut Rng) -> String {
    const HEADERS: &[&str] = &["VERSION 5.3 ;", "VERSION 5.4 ;", "VERSION 5.5 ;", "VERSION 5.6 ;", "VERSION 5.7 ;", "VERSION 5.8 ;",
        "NAMESCASESENSITIVE ON ;", "NAMESCASESENSITIVE OFF ;", "NOWIREEXTENSIONATPIN ON ;", "BUSBITCHARS \"<>\" ;", "DIVIDERCHAR \":\" ;",
        "MANUFACTURINGGRID 0.005 ;", "USEMINSPACING OBS OFF ;", "CLEARANCEMEASURE EUCLIDEAN ;", "FIXEDMASK ;",
        "UNITS DATABASE MICRONS 1000 ; END UNITS", "MACRO extra SOURCE USER ; END extra", "MACRO extra2 SIZE 1 BY 2 ; END extra2"];
    let body = {
        // drop a trailing END LIBRARY so that statements can follow the last definition
        let t = txt.trim_end();
        let up = t.to_ascii_uppercase();
        if up.ends_with("LIBRARY") {
            let cut = up[..up.len() - 7].trim_end();
            if cut.ends_with("END") { t[..cut.len() - 3].to_string() } else { t.to_string() }
        } else { t.to_string() }
    };
    let mut o = String::new();
    for _ in 0..rng.below(3) { o.push_str(HEADERS[rng.below(HEADERS.len() as u64) as usize]); o.push('\n'); }
    o.push_str(&body);
    o.push('\n');
    for _ in 0..(1 + rng.below(3)) { o.push_str(HEADERS[rng.below(HEADERS.len() as u64) as usize]); o.push('\n'); }
    o.push_str("END LIBRARY\n");
    o
}
const FAULT_WORDS: &[&str] = &["MACRO", "END", "PIN", "LAYER", ";", "1.5", "-", "\"unterminated", "RECT", "LIBRARY", "PROPERTY", "BEGINEXT", "VERSION", "9.9", "UNITS", "é", "VIA", "ITERATE", "DO", "+", ".", "#", "\"", "OBS", "PORT", "DENSITY", "VIARULE", "PROPERTYDEFINITIONS", "RANGE", "MASK",
    // numbers at and beyond the limits of the decimal type (96-bit mantissa, 28 fraction digits)
    "79228162514264337593543950335", "9999999999999999999999999999", "-79228162514264337593543950335", "0.0000000000000000000000000001", "7922816251426433759354395033.5", "99999999999999999999999999999999",
    // words around every length a keyword table might be cut at, in characters AND in bytes: 16 … 40 letters of one, two, three and four bytes each
    "ANTENNAPARTIALMETALSIDEAREA", "antennapartialmetalsidearea", "ANTENNAPARTIALMETALSIDEAREAS", "ANTENNAPARTIALMETALSIDEARE", "ABCDEFGHIJKLMNOPQRSTUVWXYZABCDEF", "ABCDEFGHIJKLMNOPQRSTUVWXYZABCDEFG", "ABCDEFGHIJKLMNOPQRSTUVWXYZABCDE",
    "абвгдежзийклмнопр", "абвгдежзийклмнопрстуфхцчшщъыьэюя", "абвгдежзийклмнопрстуфхцчшщъыьэю", "абвгдежзийклмнопрстуфхцчшщъыьэюяа", "ééééééééééééééééé", "ABCDEFGHIJKLMNOPQRSTUVWXYZABCDEé",
    "中文中文中文中文中文中", "中文中文中文中文中文中文中文中文中文中文中文中文中文中文中文中文", "😀😀😀😀😀😀😀😀😀", "😀😀😀😀😀😀😀😀", "𝄞𝄞𝄞𝄞𝄞𝄞𝄞𝄞𝄞𝄞𝄞𝄞𝄞𝄞𝄞𝄞", "ßßßßßßßßßßßßßßßßßßßßßßßßßßßßßßßß", "İİİİİİİİİİİİİİİİİİİİİİİİİİİ"];
pub fn gen_c11(thorough: bool, rng: &mut Rng, out: &mut Vec<String>) {
    let nbase = if thorough { 400 } else { 60 };
    let per = if thorough { 60 } else { 40 };
    let push = |out: &mut Vec<String>, s: &str, lex: bool| {
        out.push(format!("lef.crash {}", text_hex(s)));
        out.push(format!("lef.parse {}", text_hex(s)));
        if lex {
            out.push(format!("lef.lex {}", text_hex(s)));
            // the error report at every parser position (on a prefix of at most 1200 characters: the
            // answer lists up to 200 characters per position)
            let cut = s.char_indices().nth(1200).map(|(i, _)| i).unwrap_or(s.len());
            out.push(format!("lef.states {}", text_hex(&s[..cut])));
        }
    };
    // degenerate texts first
    for s in ["", " ", "\n", "#", "# é", "\"", "\"é", ";", "é", "中文", "-", "+", ".", "1", "1e", "VERSION", "VERSION 5.8", "VERSION 5.8 ;", "MACRO", "MACRO é", "END", "END LIBRARY", "BEGINEXT", "BEGINEXT \"x\"", "BEGINEXT \"x\" é", "UNITS", "PROPERTYDEFINITIONS", "VIA v", "SITE s", "\u{a0}", "\u{2028}MACRO", "a\u{3000}b", "𝄞", "\r", "\r\n\r\n", "\t\t", "MACRO a\nFOREIGN é 1 ;", "VERSION é ;", "MACRO m PIN p PORT LAYER l ; RECT 0 0 é 1 ;", "MACRO m SIZE 1 BY", "MACRO m\n  SIZE é BY 2 ;\nEND m", "NAMESCASESENSITIVE ON ;", "VERSION 5.4 ; NAMESCASESENSITIVE ü ;",
        "VERSION 9999999999999999999999999999 ;", "VERSION 79228162514264337593543950335 ;", "VERSION 7922816251426433759354395034 ;", "VERSION 0.0000000000000000000000000001 ;", "VERSION -5.8 ;",
        "MANUFACTURINGGRID 79228162514264337593543950335 ;", "UNITS DATABASE MICRONS 79228162514264337593543950335 ; END UNITS", "UNITS DATABASE MICRONS 7922816251426433759354395033.5 ; END UNITS",
        "MACRO m SIZE 79228162514264337593543950335 BY 9999999999999999999999999999 ; END m", "MACRO m ORIGIN -79228162514264337593543950335 0.0000000000000000000000000001 ; END m"] {
        push(out, s, true);
    }
    // Unicode class sweep: one character of every kind that a classification function might treat
    // specially (digits and numerics of other scripts, letters, marks, symbols, every White_Space
    // character, zero-width and BOM), as the first / only / last character of a token, followed by
    // end of input, by ASCII and by another multi-byte character.
    for c in ["٣", "２", "²", "½", "Ⅷ", "௧", "𝟙", "é", "ß", "中", "Ω", "µ", "\u{301}", "€", "→", "«", "—", "𝄞", "\u{a0}", "\u{85}", "\u{1680}", "\u{2003}", "\u{2028}", "\u{2029}", "\u{202f}", "\u{205f}", "\u{3000}", "\u{200b}", "\u{feff}", "\u{b}", "\u{c}", "\u{0}", "\u{7f}", "\u{10ffff}"] {
        for form in [format!("{}", c), format!("{}é", c), format!("{}x", c), format!("a {}", c), format!("{}{}", c, c), format!("1{}", c), format!("-{}", c), format!("\"{}", c), format!("#{}", c),
                     format!("VERSION 5.8 ;\nMACRO {}nand\nEND {}nand", c, c), format!("MACRO m SIZE {}1 BY 2 ;", c), format!("MACRO {}", c), format!("MACRO m\nEND m{}", c)] {
            push(out, &form, true);
        }
    }
    // error reports quote at most 200 characters of the offending line: lines around that length,
    // filled with 1-, 2-, 3- and 4-byte characters at every alignment
    for ch in ["é", "中", "𝄞", "a"] {
        for pad in 0..9usize {
            for n in [40usize, 70, 100, 199, 200, 201] {
                let filler: String = std::iter::repeat(ch).take(n).collect();
                push(out, &format!("{} \"{}\" ;", "a".repeat(pad), filler), pad % 4 == 0);
                push(out, &format!("VERSION 5.8 ;\nMACRO m\n{}SIZE 1 BY # {}\n", " ".repeat(pad), filler), false);
            }
        }
    }
    for b in 0..nbase {
        let libseed = LIBSEED_V2 + rng.next() % 1_000_000_007;
        let lib = gen_lib(libseed);
        let txt = render(&lib, rng.below(1 << 40));
        // every fourth base text is also used as ONE long line (no comments, blanks only)
        let txt = if b % 4 == 3 { render(&lib, 3 * (b as u64 % 2)).replace('\n', " ") } else { txt };
        let toks: Vec<(usize, usize)> = lef21::verif_hooks::lex(&txt).map(|v| v.iter().map(|(_, s, e)| (*s, *e)).collect()).unwrap_or_default();
        push(out, &txt, true);
        if toks.is_empty() { continue; }
        let bounds: Vec<usize> = txt.char_indices().map(|(i, _)| i).collect();
        for f in 0..per {
            let ti = rng.below(toks.len() as u64) as usize;
            let (s, e) = toks[ti];
            let mutated = match f % 10 {
                0 => txt[..toks[ti].1].to_string(),                                   // prefix ending after a token
                1 => txt[..bounds[rng.below(bounds.len() as u64) as usize]].to_string(), // prefix at any character
                2 => format!("{}{}", &txt[..s], &txt[e..]),                            // token deleted
                3 => format!("{}{} {}", &txt[..e], " ", &txt[s..]),                    // token duplicated
                4 => {
                    if ti + 1 < toks.len() { let (s2, e2) = toks[ti + 1]; format!("{}{}{}{}{}", &txt[..s], &txt[s2..e2], &txt[e..s2], &txt[s..e], &txt[e2..]) } else { txt[..s].to_string() }
                }
                5 | 6 => format!("{}{}{}", &txt[..s], rng.pick(FAULT_WORDS), &txt[e..]),  // token replaced
                7 => {
                    // non-ASCII characters inserted inside a token (name, number, string) …
                    let inner: Vec<usize> = txt[s..e].char_indices().map(|(i, _)| s + i).collect();
                    let at = inner[rng.below(inner.len() as u64) as usize];
                    format!("{}{}{}", &txt[..at], rng.pick(&["é", "中", "𝄞", "\u{a0}", "\u{2003}", "ß"]), &txt[at..])
                }
                8 => {
                    // … or at any character position (comments, white space)
                    let at = bounds[rng.below(bounds.len() as u64) as usize];
                    format!("{}{}{}", &txt[..at], rng.pick(&["é", "# ü\n", "\"ö", "\u{85}", "\u{feff}", "µ"]), &txt[at..])
                }
                _ => format!("{}\"{}", &txt[..s], &txt[s..]),                          // a quote opens an unterminated / shifted string
            };
            push(out, &mutated, (b + f) % 7 == 0);
        }
        let _ = b;
    }
    // big inputs of five shapes (pins, one extension block, many macros, comments + one long line,
    // property lists), valid and failing at the very end: reading time must stay proportional
    let n = if thorough { 100000 } else { 20000 };
    for shape in 0..5 {
        out.push(format!("lef.big 2000 #f {}", shape));
        out.push(format!("lef.big {} #f {}", n, shape));
        out.push(format!("lef.big {} #t {}", n, shape));
    }
    // … and the same statements on a single line (no line breaks at all)
    let n1 = if thorough { 100000 } else { 60000 };
    for shape in 5..10 {
        out.push(format!("lef.big 2000 #f {}", shape));
        out.push(format!("lef.big {} #f {}", n1, shape));
        out.push(format!("lef.big {} #t {}", n1, shape));
    }
}
