//! The layer / purpose tables (`layout21raw::{Layer, Layers}`) driven through a HISTORY of operations:
//!   layers.ops (add num name|#f (n purpose)...) (goi layernum purposenum) (addp key num purpose) (num key purpose)
//!              (purpose key num) (keynum n) (keyname name) (getname key) (nextnum)
//! keys are printed as creation indices. Result: `ok (r ...)`, one answer per operation.
use crate::rng::Rng;
use crate::sexp::*;
use layout21raw as raw;
use raw::LayerPurpose as P;

fn p_purpose(s: &Sexp) -> Option<P> {
    if let Some(a) = s.atom() {
        return Some(match a { "drawing" => P::Drawing, "pin" => P::Pin, "label" => P::Label, "obstruction" => P::Obstruction, "outline" => P::Outline, _ => return None });
    }
    let v = s.list()?;
    match v[0].atom()? {
        "named" => Some(P::Named(String::from_utf8(v[1].bytes()?).ok()?, v[2].int()? as i16)),
        "other" => Some(P::Other(v[1].int()? as i16)),
        _ => None,
    }
}
fn purpose_s(p: &P) -> String {
    match p {
        P::Drawing => "drawing".into(), P::Pin => "pin".into(), P::Label => "label".into(), P::Obstruction => "obstruction".into(), P::Outline => "outline".into(),
        P::Named(s, k) => format!("(named {} {})", of_bytes(s.as_bytes()), k),
        P::Other(k) => format!("(other {})", k),
    }
}
pub fn op_ops(args: &[Sexp]) -> String {
    let r = (|| -> Option<String> {
        let mut layers = raw::Layers::default();
        let mut keys: Vec<raw::LayerKey> = vec![];
        let mut out: Vec<String> = vec![];
        for op in args {
            let v = op.list()?;
            match v[0].atom()? {
                "add" => {
                    let num = v[1].int()? as i16;
                    let mut layer = if v[2].atom() == Some("#f") { raw::Layer::from_num(num) } else { raw::Layer::new(num, String::from_utf8(v[2].bytes()?).ok()?) };
                    let mut ok = true;
                    for pr in &v[3..] { let pv = pr.list()?; if layer.add_purpose(pv[0].int()? as i16, p_purpose(&pv[1])?).is_err() { ok = false; break; } }
                    if ok { let k = layers.add(layer); keys.push(k); out.push(format!("{}", keys.len() - 1)); } else { out.push("err".into()); }
                }
                "goi" => match layers.get_or_insert(v[1].int()? as i16, v[2].int()? as i16) {
                    Ok((k, p)) => { let i = match keys.iter().position(|x| *x == k) { Some(i) => i, None => { keys.push(k); keys.len() - 1 } }; out.push(format!("(k {} {})", i, purpose_s(&p))); }
                    Err(_) => out.push("err".into()),
                },
                "addp" => {
                    let k = *keys.get(v[1].int()? as usize)?;
                    let layer = layers.slots.get_mut(k)?;
                    out.push(if layer.add_purpose(v[2].int()? as i16, p_purpose(&v[3])?).is_ok() { "ok".into() } else { "err".into() });
                }
                "num" => { let k = *keys.get(v[1].int()? as usize)?; out.push(layers.get(k)?.num(&p_purpose(&v[2])?).map(|n| n.to_string()).unwrap_or("#f".into())); }
                "purpose" => { let k = *keys.get(v[1].int()? as usize)?; out.push(layers.get(k)?.purpose(v[2].int()? as i16).map(purpose_s).unwrap_or("#f".into())); }
                "keynum" => out.push(layers.keynum(v[1].int()? as i16).and_then(|k| keys.iter().position(|x| *x == k)).map(|i| i.to_string()).unwrap_or("#f".into())),
                "keyname" => out.push(layers.keyname(String::from_utf8(v[1].bytes()?).ok()?).and_then(|k| keys.iter().position(|x| *x == k)).map(|i| i.to_string()).unwrap_or("#f".into())),
                "getname" => { let k = *keys.get(v[1].int()? as usize)?; out.push(layers.get_name(k).map(|s| of_bytes(s.as_bytes()).to_string()).unwrap_or("#f".into())); }
                "byname" => {
                    // the calls `LefImporter::import_layer` makes, in its order (the translator checks that shape of the source)
                    let name = String::from_utf8(v[1].bytes()?).ok()?;
                    let k = match layers.keyname(name.clone()) { Some(k) => Some(k), None => match layers.nextnum() { Ok(n) => Some(layers.add(raw::Layer::new(n, name))), Err(_) => None } };
                    match k { Some(k) => { let i = match keys.iter().position(|x| *x == k) { Some(i) => i, None => { keys.push(k); keys.len() - 1 } }; out.push(i.to_string()); } None => out.push("err".into()) }
                }
                "nextnum" => out.push(layers.nextnum().map(|n| n.to_string()).unwrap_or("err".into())),
                _ => return None,
            }
        }
        Some(format!("ok ({})", out.join(" ")))
    })();
    r.unwrap_or("bad-op".into())
}
/// property-level oracle on the real tables: a purpose that was ever registered on a layer still has a number at the end
/// of the history, and it is the number of its LAST registration; a key / purpose handed out by `get_or_insert` on a table
/// built only by `add` (distinct purposes per layer) and `get_or_insert` looks up to the requested numbers again.
pub fn oracle(line: &str) -> String {
    let p = match Sexp::parse_all(line) { Some(p) if !p.is_empty() && p[0].atom() == Some("layers.ops") => p, _ => return "na".into() };
    let mut layers = raw::Layers::default();
    let mut keys: Vec<raw::LayerKey> = vec![];
    let mut last: std::collections::HashMap<(usize, String), i16> = Default::default();
    let mut edited = false; // an `addp` happened: the table may hold one purpose under two numbers from then on
    for op in &p[1..] {
        let v = match op.list() { Some(v) => v, None => return "na".into() };
        match v[0].atom().unwrap_or("") {
            "add" => {
                let num = v[1].int().unwrap() as i16;
                let mut layer = if v[2].atom() == Some("#f") { raw::Layer::from_num(num) } else { raw::Layer::new(num, String::from_utf8(v[2].bytes().unwrap()).unwrap()) };
                let mut regs = vec![]; let mut ok = true;
                for pr in &v[3..] { let pv = pr.list().unwrap(); let (n, q) = (pv[0].int().unwrap() as i16, p_purpose(&pv[1]).unwrap()); if layer.add_purpose(n, q.clone()).is_err() { ok = false; break; } regs.push((n, q)); }
                if ok {
                    let mut seen_n = std::collections::HashSet::new(); let mut seen_p = std::collections::HashSet::new();
                    for (n, q) in &regs { if !seen_n.insert(*n) || !seen_p.insert(purpose_s(q)) { edited = true; } }
                    let k = layers.add(layer); keys.push(k);
                    for (n, q) in regs { last.insert((keys.len() - 1, purpose_s(&q)), n); }
                }
            }
            "goi" => {
                let (ln, pn) = (v[1].int().unwrap() as i16, v[2].int().unwrap() as i16);
                if let Ok((k, q)) = layers.get_or_insert(ln, pn) {
                    let i = match keys.iter().position(|x| *x == k) { Some(i) => i, None => { keys.push(k); keys.len() - 1 } };
                    let layer = layers.get(k).unwrap();
                    if !edited {
                        if layer.layernum != ln { return format!("fail get_or_insert({}, {}) returned a layer numbered {}", ln, pn, layer.layernum); }
                        if layer.num(&q) != Some(pn) { return format!("fail get_or_insert({}, {}) returned purpose {} which stands under number {:?}", ln, pn, purpose_s(&q), layer.num(&q)); }
                    }
                    if let P::Other(_) = q { last.entry((i, purpose_s(&q))).or_insert(pn); }
                }
            }
            "byname" => {
                let name = String::from_utf8(v[1].bytes().unwrap()).unwrap();
                let k = match layers.keyname(name.clone()) { Some(k) => Some(k), None => layers.nextnum().ok().map(|n| layers.add(raw::Layer::new(n, name.clone()))) };
                if let Some(k) = k {
                    if !keys.contains(&k) { keys.push(k); }
                    if layers.get_name(k) != Some(&name) { return format!("fail the layer found / created for name {:?} is named {:?}", name, layers.get_name(k)); }
                }
            }
            "addp" => {
                let i = v[1].int().unwrap() as usize;
                let k = match keys.get(i) { Some(k) => *k, None => return "na".into() };
                let (n, q) = (v[2].int().unwrap() as i16, p_purpose(&v[3]).unwrap());
                if layers.slots.get_mut(k).unwrap().add_purpose(n, q.clone()).is_ok() { last.insert((i, purpose_s(&q)), n); edited = true; }
            }
            _ => {}
        }
        // after every step: nothing registered has lost its number
        for ((i, ps), n) in &last {
            let layer = layers.get(keys[*i]).unwrap();
            let q = p_purpose(&Sexp::parse_all(ps).unwrap()[0]).unwrap();
            match layer.num(&q) { Some(m) if m == *n => {}, other => return format!("fail purpose {} of layer object {} was last registered under {} and now has {:?}", ps, i, n, other) }
        }
    }
    "pass".into()
}
pub fn gen(thorough: bool, rng: &mut Rng, out: &mut Vec<String>) {
    let n = if thorough { 6000 } else { 600 };
    let purposes = ["drawing", "pin", "label", "obstruction", "outline"];
    for _ in 0..n {
        let mut ops: Vec<String> = vec![];
        let mut nkeys = 0usize;
        let steps = 2 + rng.below(10);
        let nums: Vec<i64> = vec![0, 1, 5, 20, 68, 68, 20];
        let pick_purpose = |rng: &mut Rng| -> String {
            match rng.below(8) { 0..=4 => purposes[rng.below(5) as usize].to_string(), 5 => format!("(named {} {})", of_bytes(b"m"), nums[rng.below(5) as usize]), _ => format!("(other {})", nums[rng.below(5) as usize]) }
        };
        for _ in 0..steps {
            match rng.below(10) {
                0 | 1 => {
                    let np = rng.below(4);
                    let pairs: Vec<String> = (0..np).map(|_| { let q = pick_purpose(rng); let n = if q.starts_with("(other ") { q[7..q.len() - 1].parse::<i64>().unwrap() } else if q.starts_with("(named") && rng.chance(4, 5) { q[q.rfind(' ').unwrap() + 1..q.len() - 1].parse::<i64>().unwrap() } else { nums[rng.below(7) as usize] }; format!("({} {})", n, q) }).collect();
                    let name = if rng.coin() { "#f".to_string() } else { of_bytes(format!("L{}", rng.below(3)).as_bytes()).to_string() };
                    ops.push(format!("(add {} {} {})", nums[rng.below(7) as usize], name, pairs.join(" ")).replace(" )", ")"));
                    nkeys += 1; // an upper bound (a refused add creates none): later indices are taken modulo what exists
                }
                2 | 3 | 4 => ops.push(format!("(goi {} {})", nums[rng.below(7) as usize], nums[rng.below(7) as usize])),
                5 if nkeys > 0 => { let q = pick_purpose(rng); let n = if q.starts_with("(other ") && rng.chance(9, 10) { q[7..q.len() - 1].to_string() } else { nums[rng.below(7) as usize].to_string() }; ops.push(format!("(addp 0 {} {})", n, q)); }
                6 if nkeys > 0 => ops.push(format!("(num 0 {})", pick_purpose(rng))),
                7 if nkeys > 0 => ops.push(format!("(purpose 0 {})", nums[rng.below(7) as usize])),
                8 => ops.push(if rng.coin() { format!("(keynum {})", nums[rng.below(7) as usize]) } else { format!("(byname {})", of_bytes(format!("L{}", rng.below(4)).as_bytes())) }),
                _ => ops.push(match rng.below(3) { 0 => format!("(keyname {})", of_bytes(format!("L{}", rng.below(3)).as_bytes())), 1 => "(nextnum)".to_string(), _ => format!("(goi {} {})", nums[rng.below(7) as usize], nums[rng.below(7) as usize]) }),
            }
        }
        // queries over everything at the end
        ops.push("(getname 0)".into());
        for q in ["drawing", "label", "(other 20)", "(other 5)"] { ops.push(format!("(num 0 {})", q)); }
        for k in [0, 5, 20] { ops.push(format!("(purpose 0 {})", k)); }
        // the case is valid only if key 0 exists: start with a guaranteed layer
        out.push(format!("layers.ops (goi 68 20) {}", ops.join(" ")));
    }
}
