//! C09: tetris placer. Ops:
//!   place (cells (sx sy)...) (insts (cellidx <loc> rh rv)...)   loc := (abs x y) | (rel to side align sep); sep := none | (pp h|v n) | (sizeof cellidx)
//!       -> ok ((idx x y rh rv)...)   in the placed order | err
//!   place.array <arrdef> x y rh rv   arrdef := (leaf cell count sx sy) | (nested <arrdef> count sx sy)
//!       -> ok ((cell x y rh rv)...)
use crate::rng::Rng;
use crate::sexp::*;
use layout21raw as raw;
use layout21raw::utils::Ptr;
use layout21tetris as t;
use t::array::{Array, ArrayInstance, Arrayable};
use t::coords::{PrimPitches, UnitSpeced, Xy};
use t::instance::Instance;
use t::placement::{Align, Place, Placeable, RelativePlace, SepBy, Separation, Side};

fn empty_stack() -> t::validate::ValidStack {
    let mut rawlayers = raw::Layers::default();
    let boundary_layer = Some(rawlayers.add(raw::Layer::from_pairs(0, &[(0, raw::LayerPurpose::Outline)]).unwrap()));
    let stack = t::stack::Stack { units: raw::Units::default(), boundary_layer, prim: t::stack::PrimitiveLayer::new((100, 100).into()), metals: Vec::new(), vias: Vec::new(), rawlayers: Some(Ptr::new(rawlayers)) };
    stack.validate().unwrap()
}
fn side(s: &str) -> Option<Side> {
    Some(match s { "top" => Side::Top, "bottom" => Side::Bottom, "left" => Side::Left, "right" => Side::Right, _ => return None })
}
fn make_cells(v: &[Sexp], lib: &mut t::library::Library) -> Option<Vec<Ptr<t::cell::Cell>>> {
    let mut cells = vec![];
    for (i, c) in v.iter().enumerate() {
        let cv = c.list()?;
        // odd-numbered cells of at least 2 x 2 have a STEPPED outline with the same extent (one unit missing at the top right
        // corner): sizes are the outline's extent, not its first step
        let (w, h) = (cv[0].int()? as isize, cv[1].int()? as isize);
        let outline = if i % 2 == 1 && w >= 2 && h >= 2 { t::outline::Outline::new(&[w, w - 1], &[h - 1, h]).ok()? } else { t::outline::Outline::rect(w, h).ok()? };
        let lay = t::layout::Layout::new(format!("c{}", i), 0, outline);
        cells.push(lib.cells.add(lay));
    }
    Some(cells)
}
pub fn op_place(args: &[Sexp], retry: bool) -> String {
    let r = (|| -> Option<String> {
        let mut lib = t::library::Library::new("lib");
        let cells = make_cells(&args.get(0)?.list()?[1..], &mut lib)?;
        let specs = &args.get(1)?.list()?[1..];
        // first pass: instances with placeholder locations
        let mut insts: Vec<Ptr<Instance>> = vec![];
        let mut sizeof_cell: Option<usize> = None;
        for (i, s) in specs.iter().enumerate() {
            let sv = s.list()?;
            insts.push(Ptr::new(Instance { inst_name: format!("{}", i), cell: cells.get(sv[0].int()? as usize)?.clone(), loc: (0, 0).into(), reflect_horiz: sv[2].boolean()?, reflect_vert: sv[3].boolean()? }));
        }
        for (i, s) in specs.iter().enumerate() {
            let lv = s.list()?[1].list()?;
            let loc: Place<Xy<PrimPitches>> = match lv[0].atom()? {
                "abs" => (lv[1].int()? as isize, lv[2].int()? as isize).into(),
                "rel" => {
                    let sep = if lv[4].atom() == Some("none") { Separation::default() } else {
                        let sl = lv[4].list()?;
                        let by = match sl[0].atom()? {
                            "pp" => SepBy::UnitSpeced(UnitSpeced::PrimPitches(if sl[1].atom()? == "h" { PrimPitches::x(sl[2].int()? as isize) } else { PrimPitches::y(sl[2].int()? as isize) })),
                            "sizeof" => { sizeof_cell = Some(sl[1].int()? as usize); SepBy::SizeOf(cells.get(sl[1].int()? as usize)?.clone()) }
                            _ => return None,
                        };
                        // the separation goes in the axis of the placement side
                        let sd = side(lv[2].atom()?)?;
                        match sd { Side::Left | Side::Right => Separation::x(by), _ => Separation::y(by) }
                    };
                    Place::Rel(RelativePlace { to: Placeable::Instance(insts.get(lv[1].int()? as usize)?.clone()), side: side(lv[2].atom()?)?, align: Align::Side(side(lv[3].atom()?)?), sep })
                }
                _ => return None,
            };
            insts[i].write().unwrap().loc = loc;
        }
        // another cell of the same library, listed (hence placed) first, whose instances carry the SAME names but
        // other cells and positions, each placed relative to the one before: nothing of it may leak into `top`
        let mut decoy_insts: Vec<Ptr<Instance>> = vec![];
        let mut decoy_ptr: Option<Ptr<t::cell::Cell>> = None;
        let mut outer_ptr: Option<(Ptr<t::cell::Cell>, Ptr<Instance>)> = None;
        if specs.len() % 3 != 0 && !cells.is_empty() {
            let mut decoy = t::layout::Layout::new("decoy", 0, t::outline::Outline::rect(3000, 3000).ok()?);
            for i in 0..specs.len() {
                let loc: Place<Xy<PrimPitches>> = if i == 0 { (500isize, 300isize).into() } else {
                    Place::Rel(RelativePlace { to: Placeable::Instance(decoy_insts[i - 1].clone()), side: Side::Right, align: Align::Side(Side::Bottom), sep: Separation::default() })
                };
                let inst = Ptr::new(Instance { inst_name: format!("{}", i), cell: cells[(i + 1) % cells.len()].clone(), loc, reflect_horiz: false, reflect_vert: false });
                decoy.instances.push(inst.clone());
                decoy_insts.push(inst);
            }
            decoy_ptr = Some(lib.cells.add(decoy));
        }
        let mut top = t::layout::Layout::new("top", 0, t::outline::Outline::rect(1000, 1000).ok()?);
        // retried placements, every other case: an array instance (three copies of cell 0, far away from everything) stands
        // FIRST in `places` and the instances follow it there (`places` may hold plain instances too), so that the array is
        // expanded before the placement that fails; it must come out expanded exactly once after the retry
        let with_array = retry && specs.len() % 2 == 0 && !cells.is_empty();
        let mk_array = || -> Placeable {
            let arr = Ptr::new(Array { name: "arr".into(), unit: Arrayable::Instance(cells[0].clone()), count: 3,
                sep: Separation::new(Some(SepBy::UnitSpeced(UnitSpeced::PrimPitches(PrimPitches::x(40)))), None, None) });
            Placeable::Array(Ptr::new(ArrayInstance { name: "a".into(), array: arr, loc: (700isize, 700isize).into(), reflect_horiz: false, reflect_vert: false }))
        };
        if with_array {
            top.places.push(mk_array());
            for i in &insts { top.places.push(Placeable::Instance(i.clone())); }
        } else {
            for i in &insts { top.instances.push(i.clone()); }
        }
        // every other case, the cell holding the placements is NOT registered in the library: it is
        // reachable only through an instance of a registered outer cell (as the crate's own ring
        // oscillator examples build their unit cells) and must be placed all the same
        let topptr = if specs.len() % 2 == 1 {
            let mid = Ptr::new(t::cell::Cell::from(top));
            let mut outer = t::layout::Layout::new("outer", 0, t::outline::Outline::rect(2000, 2000).ok()?);
            let midinst = Ptr::new(Instance { inst_name: "mid".into(), cell: mid.clone(), loc: (0, 0).into(), reflect_horiz: false, reflect_vert: false });
            outer.instances.push(midinst.clone());
            outer_ptr = Some((lib.cells.add(outer), midinst));
            mid
        } else { lib.cells.add(top) };
        // a FAILED first attempt: the cell a `sizeof` separation measures has no view yet, so the placer gives up part-way;
        // the view is then supplied and the same library (the same instance objects) is placed again — the failure must
        // leave nothing behind
        if let Some(k) = sizeof_cell {
            if retry {
                let saved = cells[k].write().unwrap().layout.take();
                let _ = t::placer::Placer::place(lib.clone(), empty_stack());
                cells[k].write().unwrap().layout = saved;
                // a failed run leaves the instance lists of the layouts it touched drained: the user puts the instances back
                let refill = |cell: &Ptr<t::cell::Cell>, list: &Vec<Ptr<Instance>>| {
                    let mut c = cell.write().unwrap();
                    if let Some(ly) = c.layout.as_mut() { ly.instances = Default::default(); ly.places.clear(); for i in list { ly.instances.push(i.clone()); } }
                };
                if with_array {
                    // the user looks at what the failed call left: an emptied layout is filled again as it was built; a layout
                    // that still holds its content is simply placed again
                    let mut c = topptr.write().unwrap();
                    if let Some(ly) = c.layout.as_mut() {
                        let held = |i: &Ptr<Instance>| ly.instances.iter().any(|x| x == i) || ly.places.iter().any(|p| matches!(p, Placeable::Instance(x) if x == i));
                        let complete = insts.iter().all(held) && ly.places.iter().any(|p| matches!(p, Placeable::Array(_)));
                        if !complete {
                            ly.instances = Default::default();
                            ly.places.clear();
                            ly.places.push(mk_array());
                            for i in &insts { ly.places.push(Placeable::Instance(i.clone())); }
                        }
                    }
                } else {
                    refill(&topptr, &insts);
                }
                if let Some(d) = &decoy_ptr { refill(d, &decoy_insts); }
                if let Some((o, mi)) = &outer_ptr { refill(o, &vec![mi.clone()]); }
            }
        }
        let res = t::placer::Placer::place(lib, empty_stack());
        let out = match res {
            Err(_) => "err".to_string(),
            Ok(_) => {
                let c = topptr.read().unwrap();
                let ly = c.layout.as_ref()?;
                let mut v = vec![];
                let mut listed: Vec<Ptr<Instance>> = ly.instances.iter().cloned().collect();
                if retry { listed.sort_by_key(|i| i.read().unwrap().inst_name.parse::<usize>().unwrap_or(usize::MAX)); }
                // the copies of the array: exactly `count` of them, at successive multiples of the pitch
                let copies: Vec<(isize, isize)> = listed.iter().filter(|i| i.read().unwrap().inst_name.parse::<usize>().is_err())
                    .filter_map(|i| i.read().unwrap().loc.abs().ok().map(|xy| (xy.x.num, xy.y.num))).collect();
                listed.retain(|i| i.read().unwrap().inst_name.parse::<usize>().is_ok());
                if with_array {
                    let mut c = copies.clone(); c.sort();
                    if c != vec![(700, 700), (740, 700), (780, 700)] { v.push(format!("(array-copies {:?})", copies).replace(',', "")); }
                } else if !copies.is_empty() { v.push("(stray-instances)".into()); }
                for i in listed.iter() {
                    let i = i.read().unwrap();
                    match &i.loc { Place::Abs(xy) => v.push(format!("({} {} {} {} {})", i.inst_name, xy.x.num, xy.y.num, of_bool(i.reflect_horiz), of_bool(i.reflect_vert))), Place::Rel(_) => v.push(format!("({} rel)", i.inst_name)) }
                }
                format!("ok ({})", v.join(" "))
            }
        };
        // break Ptr cycles (relative placements referring to each other)
        for i in &insts { i.write().unwrap().loc = (0, 0).into(); }
        for i in &decoy_insts { i.write().unwrap().loc = (0, 0).into(); }
        Some(out)
    })();
    r.unwrap_or("bad-op".into())
}
fn make_array(s: &Sexp, cells: &Vec<Ptr<t::cell::Cell>>) -> Option<Ptr<Array>> {
    let v = s.list()?;
    // a zero pitch is spelled as "no separation on that axis" (as users do), a non-zero one in primitive pitches
    let (sx, sy) = (v[3].int()? as isize, v[4].int()? as isize);
    let sep = Separation::new(
        if sx == 0 { None } else { Some(SepBy::UnitSpeced(UnitSpeced::PrimPitches(PrimPitches::x(sx)))) },
        if sy == 0 { None } else { Some(SepBy::UnitSpeced(UnitSpeced::PrimPitches(PrimPitches::y(sy)))) },
        None,
    );
    let unit = match v[0].atom()? { "leaf" => Arrayable::Instance(cells.get(v[1].int()? as usize)?.clone()), "nested" => Arrayable::Array(make_array(&v[1], cells)?), _ => return None };
    Some(Ptr::new(Array { name: "arr".into(), unit, count: v[2].int()? as usize, sep }))
}
pub fn op_array(args: &[Sexp]) -> String {
    let r = (|| -> Option<String> {
        let mut lib = t::library::Library::new("lib");
        let cells: Vec<Ptr<t::cell::Cell>> = (0..4).map(|i| lib.cells.add(t::layout::Layout::new(format!("c{}", i), 0, t::outline::Outline::rect(2 + i, 3).unwrap()))).collect();
        let arr = make_array(args.get(0)?, &cells)?;
        let ai = ArrayInstance { name: "a".into(), array: arr, loc: (args[1].int()? as isize, args[2].int()? as isize).into(), reflect_horiz: args[3].boolean()?, reflect_vert: args[4].boolean()? };
        let mut top = t::layout::Layout::new("top", 0, t::outline::Outline::rect(1000, 1000).ok()?);
        top.places.push(Placeable::Array(Ptr::new(ai)));
        let topptr = lib.cells.add(top);
        match t::placer::Placer::place(lib, empty_stack()) {
            Err(_) => Some("err".into()),
            Ok(_) => {
                let c = topptr.read().unwrap();
                let ly = c.layout.as_ref()?;
                let mut v = vec![];
                for i in ly.instances.iter() {
                    let i = i.read().unwrap();
                    let cn: usize = i.cell.read().unwrap().name[1..].parse().ok()?;
                    let xy = i.loc.abs().ok()?;
                    v.push(format!("({} {} {} {} {})", cn, xy.x.num, xy.y.num, of_bool(i.reflect_horiz), of_bool(i.reflect_vert)));
                }
                Some(format!("ok ({})", v.join(" ")))
            }
        }
    })();
    r.unwrap_or("bad-op".into())
}

// ---------------------------------------------------------------- oracle: the touch / flush predicates on the real result
fn bbox(x: i64, y: i64, sx: i64, sy: i64, rh: bool, rv: bool) -> (i64, i64, i64, i64) {
    (if rh { x - sx } else { x }, if rv { y - sy } else { y }, if rh { x } else { x + sx }, if rv { y } else { y + sy })
}
fn edge(b: (i64, i64, i64, i64), s: &str) -> i64 {
    match s { "left" => b.0, "bottom" => b.1, "right" => b.2, _ => b.3 }
}
fn horiz(s: &str) -> bool { s == "left" || s == "right" }
pub fn oracle(line: &str) -> String {
    let p = match Sexp::parse_all(line) { Some(p) if !p.is_empty() => p, _ => return "na".into() };
    match p[0].atom().unwrap_or("") {
        "place" | "place.retry" => {
            let cells: Vec<(i64, i64)> = p[1].list().unwrap()[1..].iter().map(|c| { let c = c.list().unwrap(); (c[0].int().unwrap(), c[1].int().unwrap()) }).collect();
            let specs: Vec<&[Sexp]> = p[2].list().unwrap()[1..].iter().map(|s| s.list().unwrap()).collect();
            let n = specs.len();
            // domain: orthogonal alignments, separation in the side axis
            let mut cyclic = false;
            for (i, s) in specs.iter().enumerate() {
                let lv = s[1].list().unwrap();
                if lv[0].atom() == Some("rel") {
                    if horiz(lv[2].atom().unwrap()) == horiz(lv[3].atom().unwrap()) { return "na".into(); }
                    if let Some(sl) = lv[4].list() { if sl[0].atom() == Some("pp") && (sl[1].atom() == Some("h")) != horiz(lv[2].atom().unwrap()) { return "na".into(); } }
                    // follow the chain
                    let mut k = i; let mut steps = 0;
                    loop { let l = specs[k][1].list().unwrap(); if l[0].atom() != Some("rel") { break; } k = l[1].int().unwrap() as usize; steps += 1; if steps > n { cyclic = true; break; } }
                }
            }
            let res = crate::ops::run_line(line);
            if cyclic { return if res == "err" { "pass".into() } else { format!("fail cyclic relations placed: {}", &res[..res.len().min(80)]) }; }
            if res.contains("(array-copies") { return format!("fail after a failed placement and a retry the array is not expanded to exactly its count copies at multiples of its pitch: {}", &res[..res.len().min(160)]); }
            if res.contains("(stray-instances)") { return "fail the placed layout holds instances nobody asked for".into(); }
            let lst = match Sexp::parse_all(&res) { Some(r) if r.len() == 2 && r[0].atom() == Some("ok") => r[1].list().unwrap().to_vec(), _ => return format!("fail placement of an acyclic program failed: {}", res) };
            let mut loc: Vec<Option<(i64, i64)>> = vec![None; n];
            for e in &lst { let e = e.list().unwrap(); if e.len() != 5 { return "fail instance left without an absolute location".into(); } let i = e[0].int().unwrap() as usize; if loc[i].is_some() { return "fail instance placed twice".into(); } loc[i] = Some((e[1].int().unwrap(), e[2].int().unwrap())); }
            if loc.iter().any(|l| l.is_none()) { return "fail instance missing from the placed layout".into(); }
            for (i, s) in specs.iter().enumerate() {
                let lv = s[1].list().unwrap();
                let (sx, sy) = cells[s[0].int().unwrap() as usize];
                let me = bbox(loc[i].unwrap().0, loc[i].unwrap().1, sx, sy, s[2].boolean().unwrap(), s[3].boolean().unwrap());
                match lv[0].atom().unwrap() {
                    "abs" => if loc[i] != Some((lv[1].int().unwrap(), lv[2].int().unwrap())) { return "fail absolute instance moved".into(); },
                    _ => {
                        let to = lv[1].int().unwrap() as usize;
                        let ts = specs[to];
                        let (rsx, rsy) = cells[ts[0].int().unwrap() as usize];
                        let rb = bbox(loc[to].unwrap().0, loc[to].unwrap().1, rsx, rsy, ts[2].boolean().unwrap(), ts[3].boolean().unwrap());
                        let (sd, al) = (lv[2].atom().unwrap(), lv[3].atom().unwrap());
                        let sep = match lv[4].list() { None => 0, Some(sl) => if sl[0].atom() == Some("pp") { sl[2].int().unwrap() } else { let c = cells[sl[1].int().unwrap() as usize]; if horiz(sd) { c.0 } else { c.1 } } };
                        let opp = match sd { "left" => "right", "right" => "left", "top" => "bottom", _ => "top" };
                        let want = edge(rb, sd) + if sd == "top" || sd == "right" { sep } else { -sep };
                        if edge(me, opp) != want { return format!("fail instance {} does not touch its reference on side {} at separation {} (edge {} vs {})", i, sd, sep, edge(me, opp), want); }
                        if edge(me, al) != edge(rb, al) { return format!("fail instance {} not flush with its reference on {}", i, al); }
                    }
                }
            }
            "pass".into()
        }
        "place.array" => {
            // reference expansion
            fn flat(s: &Sexp) -> Vec<(i64, i64, i64, bool, bool)> {
                let v = s.list().unwrap();
                let (count, sx, sy) = (v[2].int().unwrap(), v[3].int().unwrap(), v[4].int().unwrap());
                let mut out = vec![];
                for k in 0..count {
                    if v[0].atom() == Some("leaf") { out.push((v[1].int().unwrap(), k * sx, k * sy, false, false)); } else { for c in flat(&v[1]) { out.push((c.0, c.1 + k * sx, c.2 + k * sy, c.3, c.4)); } }
                }
                out
            }
            let (x, y, rh, rv) = (p[2].int().unwrap(), p[3].int().unwrap(), p[4].boolean().unwrap(), p[5].boolean().unwrap());
            let want: Vec<String> = flat(&p[1]).iter().map(|c| format!("({} {} {} {} {})", c.0, (if rh { -c.1 } else { c.1 }) + x, (if rv { -c.2 } else { c.2 }) + y, of_bool(c.3 != rh), of_bool(c.4 != rv))).collect();
            let res = crate::ops::run_line(line);
            if res == format!("ok ({})", want.join(" ")) { "pass".into() } else { format!("fail array expansion differs: {}", &res[..res.len().min(120)]) }
        }
        _ => "na".into(),
    }
}
pub fn tag(line: &str) -> String {
    let p = match Sexp::parse_all(line) { Some(p) if !p.is_empty() => p, _ => return "-".into() };
    match p[0].atom().unwrap_or("") {
        "place" => { let n = p[2].list().map(|l| l.len() - 1).unwrap_or(0); let rels = p[2].to_string().matches("(rel").count(); format!("place:n{}:rel{}", n.min(8), rels.min(8)) }
        "place.array" => format!("array:{}", if p[1].to_string().contains("nested") { "nested" } else { "leaf" }),
        _ => "-".into(),
    }
}
// ---------------------------------------------------------------- generation
const SIDES: [&str; 4] = ["top", "bottom", "left", "right"];
pub fn gen(thorough: bool, rng: &mut Rng, out: &mut Vec<String>) {
    let cells = "(cells (3 7) (5 2) (1 1) (10 4))";
    // exhaustive: 4 sides x 2 orthogonal alignments x reflections of placed and reference (16) x 3 separation kinds
    for sd in SIDES { for al in SIDES { if horiz(sd) == horiz(al) { continue; } for refl in 0..16 { for sep in 0..3 {
        let sp = match sep { 0 => "none".to_string(), 1 => format!("(pp {} {})", if horiz(sd) { "h" } else { "v" }, 4), _ => "(sizeof 3)".to_string() };
        let b = |k: u32| if refl >> k & 1 == 1 { "#t" } else { "#f" };
        out.push(format!("place {} (insts (0 (abs 20 30) {} {}) (1 (rel 0 {} {} {}) {} {}))", cells, b(0), b(1), sd, al, sp, b(2), b(3)));
        out.push(format!("place {} (insts (1 (rel 1 {} {} {}) {} {}) (0 (abs -5 8) {} {}))", cells, sd, al, sp, b(2), b(3), b(0), b(1)));
    } } } }
    // random chains / trees in random listing order, incl. cycles and self-references, non-orthogonal alignments (outside the domain)
    for i in 0..(if thorough { 60000 } else { 6000 }) {
        let n = 1 + rng.below(8) as usize;
        // parent[i] < i in a hidden order; then shuffle the listing
        let mut perm: Vec<usize> = (0..n).collect();
        for k in (1..n).rev() { let j = rng.below(k as u64 + 1) as usize; perm.swap(k, j); }
        let mut specs = vec![String::new(); n];
        for k in 0..n {
            let me = perm[k];
            let rh = if rng.coin() { "#t" } else { "#f" }; let rv = if rng.coin() { "#t" } else { "#f" };
            let loc = if k == 0 || rng.chance(1, 5) { format!("(abs {} {})", rng.range(-50, 50), rng.range(-50, 50)) } else {
                let to = if i % 9 == 4 && rng.chance(1, 3) { perm[rng.range(k as i64, n as i64 - 1) as usize] } else { perm[rng.below(k as u64) as usize] }; // sometimes forward/self: cycles
                let sd = SIDES[rng.below(4) as usize];
                let al = if i % 13 == 5 { SIDES[rng.below(4) as usize] } else { let o: Vec<&str> = SIDES.iter().cloned().filter(|a| horiz(a) != horiz(sd)).collect(); o[rng.below(2) as usize] };
                let sp = match rng.below(4) { 0 => "none".to_string(), 1 => format!("(pp {} {})", if horiz(sd) { "h" } else { "v" }, rng.range(-4, 9)), 2 => format!("(sizeof {})", rng.below(4)), _ => "none".to_string() };
                format!("(rel {} {} {} {})", to, sd, al, sp)
            };
            specs[me] = format!("({} {} {} {})", rng.below(4), loc, rh, rv);
        }
        out.push(format!("place {} (insts {})", cells, specs.join(" ")));
        // the same program after a failed first attempt (the cell a `sizeof` separation measures has no view yet), a repair
        // and a second run on the same objects
        let joined = specs.join(" ");
        if joined.contains("sizeof") && i % 2 == 0 { out.push(format!("place.retry {} (insts {})", cells, joined)); }
    }
    for _ in 0..(if thorough { 10000 } else { 1500 }) {
        let depth = rng.below(3);
        let pitch = |rng: &mut Rng, r: i64| -> (i64, i64) { match rng.below(3) { 0 => (rng.range(-r, r), 0), 1 => (0, rng.range(-r, r)), _ => (rng.range(-r, r), rng.range(-r, r)) } };
        let (px, py) = pitch(rng, 6);
        let mut a = format!("(leaf {} {} {} {})", rng.below(4), rng.below(5), px, py);
        for _ in 0..depth { let (qx, qy) = pitch(rng, 20); a = format!("(nested {} {} {} {})", a, rng.below(4), qx, qy); }
        out.push(format!("place.array {} {} {} {} {}", a, rng.range(-30, 30), rng.range(-30, 30), if rng.coin() { "#t" } else { "#f" }, if rng.coin() { "#t" } else { "#f" }));
    }
}
