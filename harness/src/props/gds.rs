//! C01 / C02 / C03 / C10: the GDSII stack.
//! Ops (implemented in gdsio.rs): `gds.write <lib>`, `gds.read x<bytes>`, `gds.c03 x<bytes> <lib|unsupported>`
use crate::gdsio::*;
use crate::rng::Rng;
use crate::sexp::*;
use gds21::*;

// ------------------------------------------------------------------ generators

pub fn gen_string(rng: &mut Rng, allow_long: bool) -> String {
    let alphabet = ["a", "B", "z", "_", "0", "9", " ", "$", "é", "ß", "中", "𝄞", "\u{a0}", "\"", ":", "#", "\\", "\n", "\t", "~"];
    let n = match rng.below(20) {
        0 => 0,
        1 => 1,
        2 => 2,
        3 => 3,
        4..=12 => 1 + rng.below(12) as usize,
        13 => 31,
        14 => 32,
        15 if allow_long => [32766usize, 65530, 65531, 65532, 70000][rng.below(5) as usize],
        _ => 4 + rng.below(30) as usize,
    };
    let mut s = String::new();
    if n > 1000 {
        for _ in 0..n {
            s.push('x');
        }
        return s;
    }
    while s.len() < n {
        let c = if rng.chance(4, 5) { alphabet[rng.below(6) as usize] } else { alphabet[rng.below(alphabet.len() as u64) as usize] };
        if s.len() + c.len() <= n {
            s.push_str(c);
        } else {
            s.push('q');
        }
    }
    // trailing NUL, odd and even length
    if rng.chance(1, 25) {
        s.push('\0');
    }
    s
}
fn gen_i32(rng: &mut Rng) -> i32 {
    match rng.below(8) {
        0 => 0,
        1 => 1,
        2 => -1,
        3 => i32::MAX,
        4 => i32::MIN,
        _ => rng.next() as i32 >> (rng.below(28) as u32),
    }
}
fn gen_i16(rng: &mut Rng) -> i16 {
    match rng.below(6) {
        0 => 0,
        1 => i16::MAX,
        2 => i16::MIN,
        3 => -1,
        _ => rng.next() as i16 >> (rng.below(12) as u32),
    }
}
pub fn gen_real(rng: &mut Rng, wild: bool) -> f64 {
    let nice = [1.0, 1e-3, 1e-9, 1e-6, 90.0, 180.0, 270.0, 0.5, 2.0, -1.0, 0.0, -0.0, 45.0, 1e-10, 16.0, 1.0 / 16.0];
    match rng.below(10) {
        0..=4 => nice[rng.below(nice.len() as u64) as usize],
        5 => {
            // just below / at / above a power of sixteen
            let e = rng.range(-64, 62);
            let b = 16f64.powi(e as i32).to_bits();
            f64::from_bits((b as i64 + rng.range(-2, 2)) as u64)
        }
        6 if wild => [f64::NAN, f64::INFINITY, -f64::INFINITY, 1e300, 1e-300, f64::MIN_POSITIVE, 5e-324, 16f64.powi(63)][rng.below(8) as usize],
        _ => {
            let be = 1023 - 255 + rng.below(500);
            f64::from_bits((rng.next() & 0x800F_FFFF_FFFF_FFFF) | (be << 52))
        }
    }
}
fn gen_pts(rng: &mut Rng, n: usize) -> Vec<GdsPoint> {
    (0..n).map(|_| GdsPoint::new(gen_i32(rng), gen_i32(rng))).collect()
}
fn gen_xy_len(rng: &mut Rng, allow_long: bool) -> usize {
    match rng.below(24) {
        0 => 0,
        1 => 1,
        2 => 2,
        3 if allow_long => [8190usize, 8191, 8192, 9000][rng.below(4) as usize],
        _ => 3 + rng.below(6) as usize,
    }
}
fn opt<T>(rng: &mut Rng, f: impl FnOnce(&mut Rng) -> T) -> Option<T> {
    if rng.coin() {
        Some(f(rng))
    } else {
        None
    }
}
fn gen_strans(rng: &mut Rng, wild: bool) -> GdsStrans {
    GdsStrans { reflected: rng.coin(), abs_mag: rng.chance(1, 4), abs_angle: rng.chance(1, 4), mag: opt(rng, |r| gen_real(r, wild)), angle: opt(rng, |r| gen_real(r, wild)) }
}
fn gen_props(rng: &mut Rng, long: bool) -> Vec<GdsProperty> {
    (0..rng.below(4)).map(|_| GdsProperty { attr: gen_i16(rng), value: gen_string(rng, long) }).collect()
}
pub fn gen_elem(rng: &mut Rng, kind: u64, long: bool, wild: bool) -> GdsElement {
    let elflags = opt(rng, |r| GdsElemFlags(r.next() as u8, r.next() as u8));
    let plex = opt(rng, |r| GdsPlex(gen_i32(r)));
    let properties = gen_props(rng, long);
    match kind % 7 {
        0 => {
            let n = gen_xy_len(rng, long);
            GdsElement::GdsBoundary(GdsBoundary { layer: gen_i16(rng), datatype: gen_i16(rng), xy: gen_pts(rng, n), elflags, plex, properties })
        }
        1 => {
            let n = gen_xy_len(rng, long);
            GdsElement::GdsPath(GdsPath {
                layer: gen_i16(rng),
                datatype: gen_i16(rng),
                xy: gen_pts(rng, n),
                width: opt(rng, gen_i32),
                path_type: opt(rng, gen_i16),
                begin_extn: opt(rng, gen_i32),
                end_extn: opt(rng, gen_i32),
                elflags,
                plex,
                properties,
            })
        }
        2 => GdsElement::GdsStructRef(GdsStructRef { name: gen_string(rng, long), xy: gen_pts(rng, 1)[0].clone(), strans: opt(rng, |r| gen_strans(r, wild)), elflags, plex, properties }),
        3 => {
            let p = gen_pts(rng, 3);
            GdsElement::GdsArrayRef(GdsArrayRef { name: gen_string(rng, long), xy: [p[0].clone(), p[1].clone(), p[2].clone()], cols: gen_i16(rng), rows: gen_i16(rng), strans: opt(rng, |r| gen_strans(r, wild)), elflags, plex, properties })
        }
        4 => GdsElement::GdsTextElem(GdsTextElem {
            string: gen_string(rng, long),
            layer: gen_i16(rng),
            texttype: gen_i16(rng),
            xy: gen_pts(rng, 1)[0].clone(),
            presentation: opt(rng, |r| GdsPresentation(r.next() as u8, r.next() as u8)),
            path_type: opt(rng, gen_i16),
            width: opt(rng, gen_i32),
            strans: opt(rng, |r| gen_strans(r, wild)),
            elflags,
            plex,
            properties,
        }),
        5 => {
            let n = gen_xy_len(rng, long);
            GdsElement::GdsNode(GdsNode { layer: gen_i16(rng), nodetype: gen_i16(rng), xy: gen_pts(rng, n), elflags, plex, properties })
        }
        _ => {
            let p = gen_pts(rng, 5);
            GdsElement::GdsBox(GdsBox { layer: gen_i16(rng), boxtype: gen_i16(rng), xy: [p[0].clone(), p[1].clone(), p[2].clone(), p[3].clone(), p[4].clone()], elflags, plex, properties })
        }
    }
}
fn gen_dates(rng: &mut Rng) -> GdsDateTimes {
    let mut d = || GdsDateTime { year: gen_i16(rng), month: gen_i16(rng), day: gen_i16(rng), hour: gen_i16(rng), minute: gen_i16(rng), second: gen_i16(rng) };
    GdsDateTimes { modified: d(), accessed: d() }
}
pub fn gen_lib(rng: &mut Rng, long: bool, wild: bool) -> GdsLibrary {
    let mut lib = GdsLibrary::new(gen_string(rng, long));
    lib.version = gen_i16(rng);
    lib.dates = gen_dates(rng);
    lib.units = GdsUnits(gen_real(rng, wild), gen_real(rng, wild));
    for _ in 0..rng.below(4) {
        let mut s = GdsStruct::new(gen_string(rng, long));
        s.dates = gen_dates(rng);
        for _ in 0..rng.below(6) {
            let k = rng.below(7);
            s.elems.push(gen_elem(rng, k, long, wild));
        }
        lib.structs.push(s);
    }
    lib
}

fn real_in_range(x: f64) -> bool {
    let b = x.to_bits();
    let be = (b >> 52) & 0x7FF;
    (be == 0 && b << 12 == 0) || (be >= 763 && be <= 1274)
}
fn for_each_real(lib: &GdsLibrary, f: &mut impl FnMut(f64)) {
    f(lib.units.0);
    f(lib.units.1);
    for s in &lib.structs {
        for e in &s.elems {
            let st = match e {
                GdsElement::GdsStructRef(x) => &x.strans,
                GdsElement::GdsArrayRef(x) => &x.strans,
                GdsElement::GdsTextElem(x) => &x.strans,
                _ => &None,
            };
            if let Some(st) = st {
                if let Some(m) = st.mag {
                    f(m)
                }
                if let Some(a) = st.angle {
                    f(a)
                }
            }
        }
    }
}
fn reals_in_range(lib: &GdsLibrary) -> bool {
    let mut ok = true;
    for_each_real(lib, &mut |x| ok &= real_in_range(x));
    ok
}

// ------------------------------------------------------------------ independent GDSII spec decoder (C02)
// Transcribed from the GDSII Stream Format Manual (record numbers, data types, payload sizes, BNF).
// rtype -> (name, dtype, fixed payload length or None)
const SPEC: &[(u8, &str, u8, Option<usize>)] = &[
    (0x00, "HEADER", 2, Some(2)),
    (0x01, "BGNLIB", 2, Some(24)),
    (0x02, "LIBNAME", 6, None),
    (0x03, "UNITS", 5, Some(16)),
    (0x04, "ENDLIB", 0, Some(0)),
    (0x05, "BGNSTR", 2, Some(24)),
    (0x06, "STRNAME", 6, None),
    (0x07, "ENDSTR", 0, Some(0)),
    (0x08, "BOUNDARY", 0, Some(0)),
    (0x09, "PATH", 0, Some(0)),
    (0x0A, "SREF", 0, Some(0)),
    (0x0B, "AREF", 0, Some(0)),
    (0x0C, "TEXT", 0, Some(0)),
    (0x0D, "LAYER", 2, Some(2)),
    (0x0E, "DATATYPE", 2, Some(2)),
    (0x0F, "WIDTH", 3, Some(4)),
    (0x10, "XY", 3, None),
    (0x11, "ENDEL", 0, Some(0)),
    (0x12, "SNAME", 6, None),
    (0x13, "COLROW", 2, Some(4)),
    (0x15, "NODE", 0, Some(0)),
    (0x16, "TEXTTYPE", 2, Some(2)),
    (0x17, "PRESENTATION", 1, Some(2)),
    (0x19, "STRING", 6, None),
    (0x1A, "STRANS", 1, Some(2)),
    (0x1B, "MAG", 5, Some(8)),
    (0x1C, "ANGLE", 5, Some(8)),
    (0x21, "PATHTYPE", 2, Some(2)),
    (0x26, "ELFLAGS", 1, Some(2)),
    (0x2A, "NODETYPE", 2, Some(2)),
    (0x2B, "PROPATTR", 2, Some(2)),
    (0x2C, "PROPVALUE", 6, None),
    (0x2D, "BOX", 0, Some(0)),
    (0x2E, "BOXTYPE", 2, Some(2)),
    (0x2F, "PLEX", 3, Some(4)),
    (0x30, "BGNEXTN", 3, Some(4)),
    (0x31, "ENDEXTN", 3, Some(4)),
];
struct SRec<'a> {
    name: &'static str,
    body: &'a [u8],
}
fn spec_frames(bytes: &[u8]) -> Result<Vec<SRec>, String> {
    let mut out = vec![];
    let mut i = 0;
    while i < bytes.len() {
        if i + 4 > bytes.len() {
            return Err(format!("truncated header at {}", i));
        }
        let len = ((bytes[i] as usize) << 8) | bytes[i + 1] as usize;
        if len < 4 || len % 2 != 0 {
            return Err(format!("bad record length {} at {}", len, i));
        }
        if i + len > bytes.len() {
            return Err(format!("record at {} longer than the bytes present", i));
        }
        let (rt, dt) = (bytes[i + 2], bytes[i + 3]);
        let row = SPEC.iter().find(|r| r.0 == rt).ok_or(format!("record type {:#x} not in spec table", rt))?;
        if row.2 != dt {
            return Err(format!("record {} written with data type {} (spec: {})", row.1, dt, row.2));
        }
        if let Some(n) = row.3 {
            if len - 4 != n {
                return Err(format!("record {} payload {} (spec: {})", row.1, len - 4, n));
            }
        }
        out.push(SRec { name: row.1, body: &bytes[i + 4..i + len] });
        i += len;
    }
    Ok(out)
}
fn be_i16(b: &[u8]) -> i64 {
    i16::from_be_bytes([b[0], b[1]]) as i64
}
fn be_i32(b: &[u8]) -> i64 {
    i32::from_be_bytes([b[0], b[1], b[2], b[3]]) as i64
}
/// exact value of an eight-byte real, converted to the f64 with that value (the writer only emits such)
fn spec_real(b: &[u8]) -> Result<u64, String> {
    let sign = b[0] >> 7;
    let e = (b[0] & 0x7F) as i32;
    let mut m: u64 = 0;
    for k in 1..8 {
        m = (m << 8) | b[k] as u64;
    }
    if m == 0 {
        return Ok(0);
    }
    if m >> 52 == 0 {
        // denormalised: allowed only below the normalised range (exponent field 0)
        if e != 0 {
            return Err("real not normalised".into());
        }
    }
    let tz = m.trailing_zeros();
    let mm = m >> tz;
    if mm >> 53 != 0 {
        return Err("real has more than 53 significant bits".into());
    }
    let exp2 = 4 * (e - 64) - 56 + tz as i32;
    // mm * 2^exp2 exactly
    let v = (mm as f64) * 2f64.powi(exp2.max(-1000)) * if exp2 < -1000 { 2f64.powi(exp2 + 1000) } else { 1.0 };
    Ok(v.to_bits() | ((sign as u64) << 63))
}
fn spec_str(b: &[u8]) -> Result<Sexp, String> {
    // strings are NUL-padded to even length: an odd-length string carries exactly one NUL
    if b.len() % 2 != 0 {
        return Err("odd string payload".into());
    }
    let s = if !b.is_empty() && b[b.len() - 1] == 0 { &b[..b.len() - 1] } else { b };
    Ok(of_bytes(s))
}
struct Cur<'a> {
    recs: Vec<SRec<'a>>,
    i: usize,
}
impl<'a> Cur<'a> {
    fn peek(&self) -> &'static str {
        self.recs.get(self.i).map(|r| r.name).unwrap_or("<end>")
    }
    fn take(&mut self, name: &str) -> Result<&'a [u8], String> {
        if self.peek() == name {
            self.i += 1;
            Ok(self.recs[self.i - 1].body)
        } else {
            Err(format!("grammar: expected {} found {} (record {})", name, self.peek(), self.i))
        }
    }
    fn opt(&mut self, name: &str) -> Option<&'a [u8]> {
        if self.peek() == name {
            self.i += 1;
            Some(self.recs[self.i - 1].body)
        } else {
            None
        }
    }
}
fn s_i16o(b: Option<&[u8]>) -> Sexp {
    b.map(|b| of_int(be_i16(b))).unwrap_or(a("#f"))
}
fn s_i32o(b: Option<&[u8]>) -> Sexp {
    b.map(|b| of_int(be_i32(b))).unwrap_or(a("#f"))
}
fn s_bits(b: Option<&[u8]>) -> Sexp {
    b.map(|b| l(vec![of_int(b[0] as i64), of_int(b[1] as i64)])).unwrap_or(a("#f"))
}
fn s_xy(b: &[u8]) -> Result<Sexp, String> {
    if b.len() % 8 != 0 {
        return Err("XY payload not a whole number of points".into());
    }
    Ok(l(b.chunks(4).map(|c| of_int(be_i32(c))).collect()))
}
fn s_strans(c: &mut Cur) -> Result<Sexp, String> {
    match c.opt("STRANS") {
        None => Ok(a("#f")),
        Some(b) => {
            let w = ((b[0] as u16) << 8) | b[1] as u16;
            // bit 0 (MSB) reflection, bit 13 absolute magnification, bit 14 absolute angle; all others zero
            if w & !(0x8000 | 0x0004 | 0x0002) != 0 {
                return Err("STRANS reserved bits set".into());
            }
            let mag = match c.opt("MAG") {
                Some(m) => of_f64(spec_real(m)?),
                None => a("#f"),
            };
            let ang = match c.opt("ANGLE") {
                Some(m) => of_f64(spec_real(m)?),
                None => a("#f"),
            };
            Ok(l(vec![a("st"), of_bool(w & 0x8000 != 0), of_bool(w & 4 != 0), of_bool(w & 2 != 0), mag, ang]))
        }
    }
}
fn s_props(c: &mut Cur) -> Result<Sexp, String> {
    let mut ps = vec![];
    while let Some(at) = c.opt("PROPATTR") {
        let v = c.take("PROPVALUE")?;
        ps.push(l(vec![of_int(be_i16(at)), spec_str(v)?]));
    }
    Ok(l(ps))
}
/// strict BNF decoder: HEADER BGNLIB LIBNAME UNITS {structure}* ENDLIB (the subset the writer may emit)
pub fn spec_decode(bytes: &[u8]) -> Result<Sexp, String> {
    let recs = spec_frames(bytes)?;
    if recs.last().map(|r| r.name) != Some("ENDLIB") {
        return Err("stream does not end with ENDLIB".into());
    }
    let mut c = Cur { recs, i: 0 };
    let version = be_i16(c.take("HEADER")?);
    let dates = c.take("BGNLIB")?;
    let name = spec_str(c.take("LIBNAME")?)?;
    let u = c.take("UNITS")?;
    let units = l(vec![of_f64(spec_real(&u[0..8])?), of_f64(spec_real(&u[8..16])?)]);
    let mut structs = vec![];
    while c.peek() == "BGNSTR" {
        let sd = c.take("BGNSTR")?;
        let sname = spec_str(c.take("STRNAME")?)?;
        let mut elems = vec![];
        loop {
            let kind = c.peek();
            let mut v: Vec<Sexp>;
            match kind {
                "BOUNDARY" | "NODE" | "BOX" => {
                    c.i += 1;
                    let (ef, px) = (s_bits(c.opt("ELFLAGS")), s_i32o(c.opt("PLEX")));
                    let layer = of_int(be_i16(c.take("LAYER")?));
                    let xt = of_int(be_i16(c.take(match kind {
                        "BOUNDARY" => "DATATYPE",
                        "NODE" => "NODETYPE",
                        _ => "BOXTYPE",
                    })?));
                    let xy = s_xy(c.take("XY")?)?;
                    v = vec![a(kind.to_lowercase()), layer, xt, xy, ef, px, s_props(&mut c)?];
                }
                "PATH" => {
                    c.i += 1;
                    let (ef, px) = (s_bits(c.opt("ELFLAGS")), s_i32o(c.opt("PLEX")));
                    let layer = of_int(be_i16(c.take("LAYER")?));
                    let dt = of_int(be_i16(c.take("DATATYPE")?));
                    let pt = s_i16o(c.opt("PATHTYPE"));
                    let w = s_i32o(c.opt("WIDTH"));
                    let be = s_i32o(c.opt("BGNEXTN"));
                    let ee = s_i32o(c.opt("ENDEXTN"));
                    let xy = s_xy(c.take("XY")?)?;
                    v = vec![a("path"), layer, dt, xy, w, pt, be, ee, ef, px, s_props(&mut c)?];
                }
                "SREF" | "AREF" => {
                    c.i += 1;
                    let (ef, px) = (s_bits(c.opt("ELFLAGS")), s_i32o(c.opt("PLEX")));
                    let name = spec_str(c.take("SNAME")?)?;
                    let st = s_strans(&mut c)?;
                    if kind == "AREF" {
                        let cr = c.take("COLROW")?;
                        let xy = s_xy(c.take("XY")?)?;
                        v = vec![a("aref"), name, xy, of_int(be_i16(&cr[0..2])), of_int(be_i16(&cr[2..4])), st, ef, px, s_props(&mut c)?];
                    } else {
                        let xy = s_xy(c.take("XY")?)?;
                        v = vec![a("sref"), name, xy, st, ef, px, s_props(&mut c)?];
                    }
                }
                "TEXT" => {
                    c.i += 1;
                    let (ef, px) = (s_bits(c.opt("ELFLAGS")), s_i32o(c.opt("PLEX")));
                    let layer = of_int(be_i16(c.take("LAYER")?));
                    let tt = of_int(be_i16(c.take("TEXTTYPE")?));
                    let pres = s_bits(c.opt("PRESENTATION"));
                    let pt = s_i16o(c.opt("PATHTYPE"));
                    let w = s_i32o(c.opt("WIDTH"));
                    let st = s_strans(&mut c)?;
                    let xy = s_xy(c.take("XY")?)?;
                    let s = spec_str(c.take("STRING")?)?;
                    v = vec![a("text"), s, layer, tt, xy, pres, pt, w, st, ef, px, s_props(&mut c)?];
                }
                _ => break,
            }
            c.take("ENDEL")?;
            let _ = &mut v;
            elems.push(l(v));
        }
        c.take("ENDSTR")?;
        structs.push(l(vec![a("struct"), sname, l(sd.chunks(2).map(|x| of_int(be_i16(x))).collect()), l(elems)]));
    }
    c.take("ENDLIB")?;
    if c.i != c.recs.len() {
        return Err("records after ENDLIB".into());
    }
    Ok(l(vec![a("lib"), name, of_int(version), l(dates.chunks(2).map(|x| of_int(be_i16(x))).collect()), units, l(structs)]))
}
/// the library with -0.0 reals replaced by +0.0 (GDSII has one zero)
fn canon_zero(lib: &GdsLibrary) -> GdsLibrary {
    let mut l2 = lib.clone();
    let cz = |x: f64| if x == 0.0 { 0.0 } else { x };
    l2.units = GdsUnits(cz(l2.units.0), cz(l2.units.1));
    for s in l2.structs.iter_mut() {
        for e in s.elems.iter_mut() {
            let st = match e {
                GdsElement::GdsStructRef(x) => &mut x.strans,
                GdsElement::GdsArrayRef(x) => &mut x.strans,
                GdsElement::GdsTextElem(x) => &mut x.strans,
                _ => continue,
            };
            if let Some(st) = st {
                st.mag = st.mag.map(cz);
                st.angle = st.angle.map(cz);
            }
        }
    }
    l2
}

// ------------------------------------------------------------------ independent reference encoder (C03)
fn enc_rec(out: &mut Vec<u8>, rt: u8, dt: u8, body: &[u8]) {
    let len = body.len() + 4;
    out.push((len >> 8) as u8);
    out.push(len as u8);
    out.push(rt);
    out.push(dt);
    out.extend_from_slice(body);
}
fn enc_str(out: &mut Vec<u8>, rt: u8, s: &str) {
    let mut b = s.as_bytes().to_vec();
    if b.len() % 2 == 1 {
        b.push(0);
    }
    enc_rec(out, rt, 6, &b);
}
fn i16b(v: i16) -> [u8; 2] {
    v.to_be_bytes()
}
/// exact eight-byte real of a double that has one (reference implementation: repeated division)
fn ref_real(x: f64) -> [u8; 8] {
    if x == 0.0 {
        return [0; 8];
    }
    let sign = if x < 0.0 { 0x80u8 } else { 0 };
    let mut v = x.abs();
    let mut e: i32 = 64;
    // scale into [1/16, 1) by exact multiplications/divisions by 16
    while v >= 1.0 {
        v /= 16.0;
        e += 1;
    }
    while v < 1.0 / 16.0 {
        v *= 16.0;
        e -= 1;
    }
    let m = (v * 2f64.powi(56)) as u64; // exact: v has <= 53 significant bits
    let mut b = [0u8; 8];
    b[0] = sign | (e as u8);
    for k in 0..7 {
        b[7 - k] = (m >> (8 * k)) as u8;
    }
    b
}
pub struct Choices {
    pub trailing: Vec<u8>,
    pub lib_extra: Option<u8>, // an unsupported library-level record to insert
}
fn enc_common_head(out: &mut Vec<u8>, ef: &Option<GdsElemFlags>, px: &Option<GdsPlex>) {
    if let Some(e) = ef {
        enc_rec(out, 0x26, 1, &[e.0, e.1]);
    }
    if let Some(p) = px {
        enc_rec(out, 0x2F, 3, &p.0.to_be_bytes());
    }
}
fn enc_props(out: &mut Vec<u8>, ps: &[GdsProperty]) {
    for p in ps {
        enc_rec(out, 0x2B, 2, &i16b(p.attr));
        enc_str(out, 0x2C, &p.value);
    }
}
fn enc_xy(out: &mut Vec<u8>, pts: &[GdsPoint]) {
    let mut b = vec![];
    for p in pts {
        b.extend_from_slice(&p.x.to_be_bytes());
        b.extend_from_slice(&p.y.to_be_bytes());
    }
    enc_rec(out, 0x10, 3, &b);
}
fn enc_strans(out: &mut Vec<u8>, st: &Option<GdsStrans>) {
    if let Some(s) = st {
        let w: u16 = if s.reflected { 0x8000 } else { 0 } | if s.abs_mag { 4 } else { 0 } | if s.abs_angle { 2 } else { 0 };
        enc_rec(out, 0x1A, 1, &w.to_be_bytes());
        if let Some(m) = s.mag {
            enc_rec(out, 0x1B, 5, &ref_real(m));
        }
        if let Some(a) = s.angle {
            enc_rec(out, 0x1C, 5, &ref_real(a));
        }
    }
}
fn enc_dates(d: &GdsDateTimes) -> Vec<u8> {
    let mut b = vec![];
    for dt in [&d.modified, &d.accessed] {
        for v in [dt.year, dt.month, dt.day, dt.hour, dt.minute, dt.second] {
            b.extend_from_slice(&i16b(v));
        }
    }
    b
}
pub fn ref_encode(lib: &GdsLibrary, ch: &Choices) -> Vec<u8> {
    let mut o = vec![];
    enc_rec(&mut o, 0x00, 2, &i16b(lib.version));
    enc_rec(&mut o, 0x01, 2, &enc_dates(&lib.dates));
    // [LIBDIRSIZE] [SRFNAME] [LIBSECUR] LIBNAME [REFLIBS] [FONTS] [ATTRTABLE] [GENERATIONS] [<FormatType>] UNITS
    match ch.lib_extra {
        Some(0x39) => enc_rec(&mut o, 0x39, 2, &i16b(3)),
        Some(0x3A) => enc_str(&mut o, 0x3A, "spacing.rules"),
        Some(0x3B) => enc_rec(&mut o, 0x3B, 2, &[0, 1, 0, 2, 0, 3]),
        _ => {}
    }
    enc_str(&mut o, 0x02, &lib.name);
    match ch.lib_extra {
        Some(0x1F) => enc_rec(&mut o, 0x1F, 6, &[b'r'; 90]),
        Some(0x20) => enc_rec(&mut o, 0x20, 6, &[b'f'; 176]),
        Some(0x23) => enc_rec(&mut o, 0x23, 6, &[b'a'; 44]),
        Some(0x22) => enc_rec(&mut o, 0x22, 2, &i16b(3)),
        Some(0x36) => enc_rec(&mut o, 0x36, 2, &i16b(0)),
        _ => {}
    }
    let mut u = vec![];
    u.extend_from_slice(&ref_real(lib.units.0));
    u.extend_from_slice(&ref_real(lib.units.1));
    enc_rec(&mut o, 0x03, 5, &u);
    for s in &lib.structs {
        enc_rec(&mut o, 0x05, 2, &enc_dates(&s.dates));
        enc_str(&mut o, 0x06, &s.name);
        for e in &s.elems {
            match e {
                GdsElement::GdsBoundary(x) => {
                    enc_rec(&mut o, 0x08, 0, &[]);
                    enc_common_head(&mut o, &x.elflags, &x.plex);
                    enc_rec(&mut o, 0x0D, 2, &i16b(x.layer));
                    enc_rec(&mut o, 0x0E, 2, &i16b(x.datatype));
                    enc_xy(&mut o, &x.xy);
                    enc_props(&mut o, &x.properties);
                }
                GdsElement::GdsPath(x) => {
                    enc_rec(&mut o, 0x09, 0, &[]);
                    enc_common_head(&mut o, &x.elflags, &x.plex);
                    enc_rec(&mut o, 0x0D, 2, &i16b(x.layer));
                    enc_rec(&mut o, 0x0E, 2, &i16b(x.datatype));
                    if let Some(v) = x.path_type {
                        enc_rec(&mut o, 0x21, 2, &i16b(v));
                    }
                    if let Some(v) = x.width {
                        enc_rec(&mut o, 0x0F, 3, &v.to_be_bytes());
                    }
                    if let Some(v) = x.begin_extn {
                        enc_rec(&mut o, 0x30, 3, &v.to_be_bytes());
                    }
                    if let Some(v) = x.end_extn {
                        enc_rec(&mut o, 0x31, 3, &v.to_be_bytes());
                    }
                    enc_xy(&mut o, &x.xy);
                    enc_props(&mut o, &x.properties);
                }
                GdsElement::GdsStructRef(x) => {
                    enc_rec(&mut o, 0x0A, 0, &[]);
                    enc_common_head(&mut o, &x.elflags, &x.plex);
                    enc_str(&mut o, 0x12, &x.name);
                    enc_strans(&mut o, &x.strans);
                    enc_xy(&mut o, &[x.xy.clone()]);
                    enc_props(&mut o, &x.properties);
                }
                GdsElement::GdsArrayRef(x) => {
                    enc_rec(&mut o, 0x0B, 0, &[]);
                    enc_common_head(&mut o, &x.elflags, &x.plex);
                    enc_str(&mut o, 0x12, &x.name);
                    enc_strans(&mut o, &x.strans);
                    let mut cr = vec![];
                    cr.extend_from_slice(&i16b(x.cols));
                    cr.extend_from_slice(&i16b(x.rows));
                    enc_rec(&mut o, 0x13, 2, &cr);
                    enc_xy(&mut o, &x.xy);
                    enc_props(&mut o, &x.properties);
                }
                GdsElement::GdsTextElem(x) => {
                    enc_rec(&mut o, 0x0C, 0, &[]);
                    enc_common_head(&mut o, &x.elflags, &x.plex);
                    enc_rec(&mut o, 0x0D, 2, &i16b(x.layer));
                    enc_rec(&mut o, 0x16, 2, &i16b(x.texttype));
                    if let Some(p) = &x.presentation {
                        enc_rec(&mut o, 0x17, 1, &[p.0, p.1]);
                    }
                    if let Some(v) = x.path_type {
                        enc_rec(&mut o, 0x21, 2, &i16b(v));
                    }
                    if let Some(v) = x.width {
                        enc_rec(&mut o, 0x0F, 3, &v.to_be_bytes());
                    }
                    enc_strans(&mut o, &x.strans);
                    enc_xy(&mut o, &[x.xy.clone()]);
                    enc_str(&mut o, 0x19, &x.string);
                    enc_props(&mut o, &x.properties);
                }
                GdsElement::GdsNode(x) => {
                    enc_rec(&mut o, 0x15, 0, &[]);
                    enc_common_head(&mut o, &x.elflags, &x.plex);
                    enc_rec(&mut o, 0x0D, 2, &i16b(x.layer));
                    enc_rec(&mut o, 0x2A, 2, &i16b(x.nodetype));
                    enc_xy(&mut o, &x.xy);
                    enc_props(&mut o, &x.properties);
                }
                GdsElement::GdsBox(x) => {
                    enc_rec(&mut o, 0x2D, 0, &[]);
                    enc_common_head(&mut o, &x.elflags, &x.plex);
                    enc_rec(&mut o, 0x0D, 2, &i16b(x.layer));
                    enc_rec(&mut o, 0x2E, 2, &i16b(x.boxtype));
                    enc_xy(&mut o, &x.xy);
                    enc_props(&mut o, &x.properties);
                }
            }
            enc_rec(&mut o, 0x11, 0, &[]);
        }
        enc_rec(&mut o, 0x07, 0, &[]);
    }
    enc_rec(&mut o, 0x04, 0, &[]);
    o.extend_from_slice(&ch.trailing);
    o
}
/// libraries the reference encoder can express: short strings without trailing NUL, in-range non-negative-zero reals
fn gen_spec_lib(rng: &mut Rng) -> GdsLibrary {
    loop {
        let mut lib = gen_lib(rng, false, false);
        let mut ok = true;
        // a trailing NUL of an EVEN-length string cannot be told from padding — removed; an ODD-length string ending in
        // NUL stays: its record is `…\0` + one NUL of padding, and only the padding may be stripped. No -0.0
        let fix = |s: &mut String| {
            while s.ends_with('\0') && s.len() % 2 == 0 {
                s.pop();
            }
        };
        fix(&mut lib.name);
        for s in lib.structs.iter_mut() {
            fix(&mut s.name);
            for e in s.elems.iter_mut() {
                match e {
                    GdsElement::GdsBoundary(x) => x.properties.iter_mut().for_each(|p| fix(&mut p.value)),
                    GdsElement::GdsPath(x) => x.properties.iter_mut().for_each(|p| fix(&mut p.value)),
                    GdsElement::GdsStructRef(x) => {
                        fix(&mut x.name);
                        x.properties.iter_mut().for_each(|p| fix(&mut p.value))
                    }
                    GdsElement::GdsArrayRef(x) => {
                        fix(&mut x.name);
                        x.properties.iter_mut().for_each(|p| fix(&mut p.value))
                    }
                    GdsElement::GdsTextElem(x) => {
                        fix(&mut x.string);
                        x.properties.iter_mut().for_each(|p| fix(&mut p.value))
                    }
                    GdsElement::GdsNode(x) => x.properties.iter_mut().for_each(|p| fix(&mut p.value)),
                    GdsElement::GdsBox(x) => x.properties.iter_mut().for_each(|p| fix(&mut p.value)),
                }
            }
        }
        lib = canon_zero(&lib);
        for_each_real(&lib, &mut |x| ok &= real_in_range(x) && x.to_bits() >> 52 & 0x7FF >= 770);
        if ok {
            return lib;
        }
    }
}

// ------------------------------------------------------------------ case generation

pub fn gen_c01(thorough: bool, rng: &mut Rng, out: &mut Vec<String>) {
    let n = if thorough { 60000 } else { 6000 };
    for i in 0..n {
        let long = i % 40 == 7;
        let wild = i % 9 == 4;
        let lib = gen_lib(rng, long, wild);
        out.push(format!("gds.write {}", lib_s(&lib)));
    }
    // every single-option toggle of each element kind (exhaustive over option subsets of the head options)
    for kind in 0..7u64 {
        for _ in 0..(if thorough { 400 } else { 60 }) {
            let mut lib = GdsLibrary::new("opt");
            lib.dates = gen_dates(rng);
            let mut s = GdsStruct::new("s");
            s.dates = gen_dates(rng);
            s.elems.push(gen_elem(rng, kind, false, false));
            lib.structs.push(s);
            out.push(format!("gds.write {}", lib_s(&lib)));
        }
    }
}
/// an eight-byte real as a FOREIGN writer may emit it: normalised (top hex digit of the mantissa non-zero)
/// with up to 56 significant mantissa bits — more than a double holds, so the reader has to round
fn foreign_real(rng: &mut Rng) -> [u8; 8] {
    let sign: u64 = if rng.below(4) == 0 { 1 } else { 0 };
    let e: u64 = 40 + rng.below(50);
    let top: u64 = 1 + rng.below(15); // top hex digit: decides how many of the 56 bits exceed 53 (0..3)
    let body: u64 = rng.next() & ((1u64 << 52) - 1);
    let mut m: u64 = (top << 52) | body;
    let shift = (64 - m.leading_zeros() as i64 - 53).max(0) as u32; // bits a double cannot hold
    match rng.below(6) {
        0 => {}                                                            // random tail
        1 if shift > 0 => m = (m >> shift << shift) | (1u64 << (shift - 1)),          // exactly half: tie, kept part even or odd
        2 if shift > 0 => m = (m >> shift << shift) | (1u64 << (shift - 1)) | 1,      // just above half (when shift > 1)
        3 if shift > 1 => m = (m >> shift << shift) | ((1u64 << (shift - 1)) - 1),    // just below half
        4 => m |= (1u64 << 53) - 1,                                        // all ones: rounding carries into the next binade / hex digit
        _ => m = m >> shift << shift,                                      // representable exactly
    }
    if rng.below(40) == 0 { return [0x3E, 0x41, 0x89, 0x37, 0x4B, 0xC6, 0xA7, 0xEF]; } // 1e-3 as most tools write it
    let w = (sign << 63) | (e << 56) | (m & ((1u64 << 56) - 1));
    w.to_be_bytes()
}
/// the double nearest to the exact value of a normalised eight-byte real (ties to even), by integer arithmetic
fn round_foreign(b: &[u8; 8]) -> f64 {
    let w = u64::from_be_bytes(*b);
    let neg = w >> 63 == 1;
    let e = ((w >> 56) & 0x7F) as i32;
    let m = w & ((1u64 << 56) - 1);
    if m == 0 { return 0.0; }
    let p = 63 - m.leading_zeros() as i32; // position of the top set bit
    let shift = (p - 52).max(0) as u32;
    let mut q = m >> shift;
    if shift > 0 {
        let rem = m & ((1u64 << shift) - 1);
        let half = 1u64 << (shift - 1);
        if rem > half || (rem == half && q & 1 == 1) { q += 1; }
    }
    let v = (q as f64) * 2f64.powi(4 * (e - 64) - 56 + shift as i32); // q <= 2^53 and the power of two are exact
    if neg { -v } else { v }
}
pub fn gen_c03(thorough: bool, rng: &mut Rng, out: &mut Vec<String>) {
    let n = if thorough { 40000 } else { 4000 };
    let extras: [u8; 8] = [0x39, 0x3A, 0x3B, 0x1F, 0x20, 0x23, 0x22, 0x36];
    for i in 0..n {
        let mut lib = gen_spec_lib(rng);
        if i % 40 == 12 {
            // records near the 16-bit length limit: XY with 4097 / 8190 / 8191 points, strings of 32766 / 40001 / 65530 bytes
            let npts = [4096usize, 4097, 8190, 8191][rng.below(4) as usize];
            let slen = [32766usize, 32768, 40001, 65530][rng.below(4) as usize];
            let mut st = GdsStruct::new("big");
            st.dates = lib.dates.clone();
            st.elems.push(GdsElement::GdsBoundary(GdsBoundary { layer: 1, datatype: 2, xy: (0..npts).map(|k| GdsPoint::new(k as i32, -(k as i32))).collect(), ..Default::default() }));
            st.elems.push(GdsElement::GdsTextElem(GdsTextElem { string: "s".repeat(slen), layer: 3, texttype: 4, xy: GdsPoint::new(1, 2), ..Default::default() }));
            lib.structs.push(st);
        }
        let trailing: Vec<u8> = match rng.below(6) {
            0 => vec![],
            1 => vec![0; 2 * rng.below(20) as usize],
            2 => vec![0; 2048 - 4],
            3 => (0..rng.below(40)).map(|_| rng.next() as u8).collect(),
            4 => vec![0, 4, 4, 0, 0xFF, 0xFF],
            _ => vec![0; 1 + rng.below(7) as usize],
        };
        let lib_extra = if i % 8 == 3 { Some(extras[rng.below(8) as usize]) } else { None };
        // a tenth of the streams carry reals written by a foreign tool: full 56-bit mantissas (the reader
        // must round to the nearest double, ties to even). The expected library holds the rounded values;
        // the stream is the reference encoding of it with each real patched, in stream order.
        let mut pats: Vec<[u8; 8]> = vec![];
        if i % 10 == 7 && lib_extra.is_none() {
            let mut slot = |x: &mut f64, rng: &mut Rng| { let p = foreign_real(rng); *x = round_foreign(&p); pats.push(p); };
            slot(&mut lib.units.0, rng);
            slot(&mut lib.units.1, rng);
            for st in lib.structs.iter_mut() {
                for e in st.elems.iter_mut() {
                    let strans = match e {
                        GdsElement::GdsStructRef(x) => x.strans.as_mut(),
                        GdsElement::GdsArrayRef(x) => x.strans.as_mut(),
                        GdsElement::GdsTextElem(x) => x.strans.as_mut(),
                        _ => None,
                    };
                    if let Some(t) = strans {
                        if let Some(m) = t.mag.as_mut() { slot(m, rng); }
                        if let Some(a) = t.angle.as_mut() { slot(a, rng); }
                    }
                }
            }
        }
        let mut bytes = ref_encode(&lib, &Choices { trailing, lib_extra });
        if !pats.is_empty() {
            let mut k = 0;
            for (off, len) in record_spans(&bytes) {
                if bytes[off + 3] == 5 {
                    for j in 0..(len - 4) / 8 {
                        bytes[off + 4 + 8 * j..off + 12 + 8 * j].copy_from_slice(&pats[k]);
                        k += 1;
                    }
                }
            }
            assert_eq!(k, pats.len(), "every real of the stream is patched exactly once");
        }
        let expect = if lib_extra.is_some() { a("unsupported") } else { lib_s(&lib) };
        // every eighth conformant stream is preceded by a read that FAILS part-way through a structure (the same
        // stream cut inside its last structure): nothing of a failed read may leak into the next one
        if i % 8 == 5 {
            let spans = record_spans(&bytes);
            if let Some(k) = spans.iter().rposition(|(off, _)| bytes[off + 2] == 0x11) { // the last ENDEL
                let cut = spans[k].0 + spans[k].1;
                out.push(format!("gds.read {}", of_bytes(&bytes[..cut])));
            }
        }
        out.push(format!("gds.c03 {} {}", of_bytes(&bytes), expect));
        if i % 16 == 6 { out.push(format!("gds.open {} {}", of_bytes(&bytes), expect)); }
    }
    // files of more than 64 KiB read through `open`: many text elements with strings of a few hundred bytes, so that
    // string payloads lie across every multiple of 65536 at varying alignments
    for k in 0..(if thorough { 24 } else { 6 }) {
        let mut lib = GdsLibrary::new("big");
        let mut st = GdsStruct::new("s");
        st.dates = lib.dates.clone();
        let mut total = 0usize;
        let mut j = 0;
        while total < 70_000 + 30_000 * (k % 3) {
            let len = 150 + (rng.below(700) as usize) + k;
            st.elems.push(GdsElement::GdsTextElem(GdsTextElem { string: format!("{:05}", j).repeat(len / 5 + 1)[..len].to_string(), layer: 1, texttype: 0, xy: GdsPoint::new(j, -j), ..Default::default() }));
            total += len + 40;
            j += 1;
        }
        lib.structs.push(st);
        let bytes = ref_encode(&lib, &Choices { trailing: vec![], lib_extra: None });
        out.push(format!("gds.open {} {}", of_bytes(&bytes), lib_s(&lib)));
    }
}
fn record_spans(bytes: &[u8]) -> Vec<(usize, usize)> {
    let mut v = vec![];
    let mut i = 0;
    while i + 4 <= bytes.len() {
        let len = ((bytes[i] as usize) << 8) | bytes[i + 1] as usize;
        if len < 4 || i + len > bytes.len() {
            break;
        }
        v.push((i, len));
        if bytes[i + 2] == 4 {
            break;
        }
        i += len;
    }
    v
}
pub fn gen_c10(thorough: bool, rng: &mut Rng, out: &mut Vec<String>) {
    let mut bases: Vec<Vec<u8>> = vec![];
    let nb = if thorough { 400 } else { 40 };
    while bases.len() < nb {
        let lib = gen_lib(rng, false, false);
        if let Ok(b) = write_bytes(&lib) {
            if b.len() < 1500 {
                bases.push(b);
            }
        }
    }
    // repository streams (small ones only; the big ones are covered by prefix sampling)
    for f in ["/repo/gds21/resources/sample1.gds", "/repo/layout21converters/resources/sample1.gds"] {
        if let Ok(b) = std::fs::read(f) {
            if b.len() < 3000 {
                bases.push(b);
            } else {
                // first records + a tail cut
                bases.push(b[..b.len().min(1200)].to_vec());
            }
        }
    }
    let push = |out: &mut Vec<String>, b: &[u8]| out.push(format!("gds.read {}", of_bytes(b)));
    // string records near the record-length limit, filled with bytes that are not UTF-8, with
    // multi-byte characters and with NULs: a reader that repairs or re-measures strings can return a
    // library the writer then refuses
    {
        let rec = |rt: u8, dt: u8, body: &[u8]| -> Vec<u8> { let l = body.len() + 4; let mut v = vec![(l >> 8) as u8, l as u8, rt, dt]; v.extend_from_slice(body); v };
        for (fill, n) in [(vec![0x80u8], 21846usize), (vec![0xFFu8], 30000), (vec![0xC3u8, 0xA9], 32764), (vec![0xE4u8, 0xB8, 0xAD], 21843), (vec![0u8], 1000), (vec![0x41u8], 65530), (vec![0xF0u8, 0x9D, 0x84, 0x9E], 16382)] {
            let body: Vec<u8> = fill.iter().cycle().take(n * fill.len() / fill.len()).cloned().collect::<Vec<u8>>();
            let body = if body.len() % 2 == 1 { let mut b = body; b.push(0); b } else { body };
            let mut b = vec![];
            b.extend(rec(0x00, 0x02, &[0, 3]));
            b.extend(rec(0x01, 0x02, &[0u8; 24]));
            b.extend(rec(0x02, 0x06, &body));
            b.extend(rec(0x03, 0x05, &[0x3E, 0x41, 0x89, 0x37, 0x4B, 0xC6, 0xA7, 0xEF, 0x39, 0x44, 0xB8, 0x2F, 0xA0, 0x9B, 0x5A, 0x54]));
            b.extend(rec(0x04, 0x00, &[]));
            push(out, &b);
        }
    }
    // string records whose payload ends in NULs, with EVEN and ODD record lengths (a record of odd length is not GDSII;
    // a reader that tolerates it — or strips padding differently — must still return only libraries the writer accepts)
    {
        let rec = |rt: u8, dt: u8, body: &[u8]| -> Vec<u8> { let l = body.len() + 4; let mut v = vec![(l >> 8) as u8, l as u8, rt, dt]; v.extend_from_slice(body); v };
        let units = [0x3E, 0x41, 0x89, 0x37, 0x4B, 0xC6, 0xA7, 0xEF, 0x39, 0x44, 0xB8, 0x2F, 0xA0, 0x9B, 0x5A, 0x54];
        for stem in [&b""[..], b"a", b"ab", b"abc"] {
            for nuls in 0..=4usize {
                let mut name = stem.to_vec();
                name.extend(std::iter::repeat(0u8).take(nuls));
                // (1) as the library name
                let mut b = vec![];
                b.extend(rec(0x00, 0x02, &[0, 3])); b.extend(rec(0x01, 0x02, &[0u8; 24])); b.extend(rec(0x02, 0x06, &name)); b.extend(rec(0x03, 0x05, &units)); b.extend(rec(0x04, 0x00, &[]));
                push(out, &b);
                // (2) as a structure name and a text string
                let mut b = vec![];
                b.extend(rec(0x00, 0x02, &[0, 3])); b.extend(rec(0x01, 0x02, &[0u8; 24])); b.extend(rec(0x02, 0x06, b"lib\0")); b.extend(rec(0x03, 0x05, &units));
                b.extend(rec(0x05, 0x02, &[0u8; 24])); b.extend(rec(0x06, 0x06, &name));
                b.extend(rec(0x0C, 0x00, &[])); b.extend(rec(0x0D, 0x02, &[0, 1])); b.extend(rec(0x16, 0x02, &[0, 0])); b.extend(rec(0x10, 0x03, &[0, 0, 0, 1, 0, 0, 0, 2])); b.extend(rec(0x19, 0x06, &name)); b.extend(rec(0x11, 0x00, &[]));
                b.extend(rec(0x07, 0x00, &[])); b.extend(rec(0x04, 0x00, &[]));
                push(out, &b);
            }
        }
    }
    // several LONG records in one stream, in rising, falling and mixed sizes (a reader that resizes or reuses a buffer
    // between records sees each combination), complete and cut inside the last long record
    {
        let runs: &[&[usize]] = &[&[5000, 6000, 7000], &[20000, 25000, 30000], &[4098, 4100, 8200], &[600, 1200, 2400, 4800, 9600, 19200, 38400], &[30000, 25000, 20000, 26000],
            &[4096, 4097, 4095, 8193, 8191], &[65000, 100, 65500, 64000], &[1000, 3000, 2000, 5000, 4000, 7000]];
        for sizes in runs {
            let mut lib = GdsLibrary::new("l");
            lib.name = "N".repeat(sizes[0] & !1);
            let mut st = GdsStruct::new("S".repeat(sizes[1] & !1));
            for (k, sz) in sizes[2..].iter().enumerate() {
                let n = (sz / 8).max(4).min(8190);
                let mut xy: Vec<GdsPoint> = (0..n as i32 - 1).map(|i| GdsPoint::new(i, (i * i) % 97)).collect();
                xy.push(xy[0].clone());
                if k % 2 == 0 { st.elems.push(GdsElement::GdsBoundary(GdsBoundary { layer: 1, datatype: 0, xy, ..Default::default() })); }
                else { st.elems.push(GdsElement::GdsPath(GdsPath { layer: 2, datatype: 0, xy, ..Default::default() })); }
                st.elems.push(GdsElement::GdsTextElem(GdsTextElem { string: "t".repeat((sz / 2) & !1).chars().take(500 + sz / 4).collect(), layer: 3, texttype: 0, xy: GdsPoint::new(0, 0), ..Default::default() }));
            }
            lib.structs.push(st);
            if let Ok(b) = write_bytes(&lib) {
                push(out, &b);
                push(out, &b[..b.len() - 9]);
                push(out, &b[..b.len() / 2]);
            }
        }
    }
    for base in &bases {
        push(out, base);
        // every truncation point
        let step = if thorough || base.len() < 400 { 1 } else { 3 };
        let mut k = 0;
        while k < base.len() {
            push(out, &base[..k]);
            k += step;
        }
        let spans = record_spans(base);
        for (ri, (off, len)) in spans.iter().enumerate() {
            // length-field faults
            for nl in [0usize, 2, 3, 5, len.wrapping_sub(2), len + 2, 0xFFFF, 4] {
                let mut b = base.clone();
                b[*off] = (nl >> 8) as u8;
                b[*off + 1] = nl as u8;
                push(out, &b);
            }
            // payload emptied
            let mut b = base[..*off].to_vec();
            b.extend_from_slice(&[0, 4, base[*off + 2], base[*off + 3]]);
            b.extend_from_slice(&base[*off + len..]);
            push(out, &b);
            // record deleted / duplicated / swapped with next / spliced from elsewhere
            let mut b = base[..*off].to_vec();
            b.extend_from_slice(&base[*off + len..]);
            push(out, &b);
            let mut b = base[..*off + len].to_vec();
            b.extend_from_slice(&base[*off..]);
            push(out, &b);
            if ri + 1 < spans.len() {
                let (o2, l2) = spans[ri + 1];
                let mut b = base[..*off].to_vec();
                b.extend_from_slice(&base[o2..o2 + l2]);
                b.extend_from_slice(&base[*off..*off + len]);
                b.extend_from_slice(&base[o2 + l2..]);
                push(out, &b);
            }
            let (o3, l3) = spans[rng.below(spans.len() as u64) as usize];
            let mut b = base[..*off].to_vec();
            b.extend_from_slice(&base[o3..o3 + l3]);
            b.extend_from_slice(&base[*off..]);
            push(out, &b);
            // record type / data type replaced by every other value, for a sample of records
            if thorough || rng.below(6) == 0 {
                for rt in 0..62u8 {
                    let mut b = base.clone();
                    b[*off + 2] = rt;
                    push(out, &b);
                }
                for dt in 0..8u8 {
                    let mut b = base.clone();
                    b[*off + 3] = dt;
                    push(out, &b);
                }
            }
        }
        // every eight-byte real of the stream replaced by boundary bit patterns (largest exponent with
        // mantissas that round up, smallest, unnormalised, denormalised, negative)
        for (off, len) in spans.iter() {
            if base[*off + 3] == 5 {
                for k in 0..(len - 4) / 8 {
                    for pat in [0x7FFF_FFFF_FFFF_FFFFu64, 0x7FFF_FFFF_FFFF_FFFC, 0x7FFF_FFFF_FFFF_FFFB, 0xFFFF_FFFF_FFFF_FFFF, 0x7F10_0000_0000_0000, 0x0010_0000_0000_0000,
                                0x0000_0000_0000_0001, 0x00FF_FFFF_FFFF_FFFF, 0x0001_0000_0000_0000, 0x4000_0000_0000_0001, 0x8000_0000_0000_0000, 0x3FFF_FFFF_FFFF_FFFF] {
                        let mut b = base.clone();
                        b[*off + 4 + 8 * k..*off + 12 + 8 * k].copy_from_slice(&pat.to_be_bytes());
                        push(out, &b);
                    }
                }
            }
        }
        // byte noise
        for _ in 0..(if thorough { 60 } else { 15 }) {
            let mut b = base.clone();
            for _ in 0..1 + rng.below(3) {
                let i = rng.below(b.len() as u64) as usize;
                b[i] = rng.next() as u8;
            }
            push(out, &b);
        }
    }
    for _ in 0..(if thorough { 20000 } else { 2000 }) {
        let n = rng.below(64) as usize;
        let b: Vec<u8> = (0..n).map(|_| if rng.coin() { rng.next() as u8 } else { [0u8, 4, 2, 6, 1, 5, 16, 17][rng.below(8) as usize] }).collect();
        push(out, &b);
    }
    // zero-length strings, denormalised and unnormalised reals
    push(out, &[0, 6, 0, 2, 0, 3, 0, 28, 1, 2, 0, 0, 0, 0, 0, 0, 0, 0, 0, 0, 0, 0, 0, 0, 0, 0, 0, 0, 0, 0, 0, 0, 0, 0, 0, 0, 0, 0, 0, 4, 2, 6, 0, 20, 3, 5, 0x3e, 0x41, 0x89, 0x37, 0x4b, 0xc6, 0xa7, 0xf0, 0x39, 0x44, 0xb8, 0x2f, 0xa0, 0x9b, 0x5a, 0x54, 0, 4, 4, 0]);
}

// ------------------------------------------------------------------ oracles

pub fn oracle_c01(line: &str) -> String {
    let p = match Sexp::parse_all(line) {
        Some(p) if p.len() == 2 && p[0].atom() == Some("gds.write") => p,
        _ => return "na".into(),
    };
    let lib = match p_lib(&p[1]) {
        Some(l) => l,
        None => return "na".into(),
    };
    if !reals_in_range(&lib) {
        return "na".into(); // the property speaks about reals inside the GDSII range
    }
    match std::panic::catch_unwind(|| write_bytes(&lib)) {
        Err(_) => "fail writer panicked".into(),
        Ok(Err(_)) => "pass".into(), // "either fails with an error …"
        Ok(Ok(bytes)) => match std::panic::catch_unwind(|| GdsLibrary::from_bytes(&bytes)) {
            Err(_) => "fail reader panicked on written bytes".into(),
            // the destination is any `Write`: one that takes only a few bytes per call must receive the same stream
            _ if { let k = 1 + bytes.len() % 7; crate::gdsio::write_bytes_chunky(&lib, k).ok().as_ref() != Some(&bytes) } =>
                format!("fail a destination that accepts {} bytes per write call received a different stream than a Vec", 1 + bytes.len() % 7),
            // … and one that FAILS part-way (device full) must make `write` fail: success with a truncated stream at the
            // destination is "bytes that do not read back"; a retry on a healthy destination then gives the stream again
            _ if { let lim = [bytes.len() / 2, bytes.len() - 1, 0][bytes.len() % 3]; let (ok, got) = crate::gdsio::write_bytes_faulty(&lib, lim); ok && got != bytes } =>
                format!("fail write() returned Ok although the destination failed after {} of {} bytes", [bytes.len() / 2, bytes.len() - 1, 0][bytes.len() % 3], bytes.len()),
            _ if write_bytes(&lib).ok().as_ref() != Some(&bytes) => "fail a second write of the same library (after a failed one) gives a different stream".into(),
            Ok(Err(e)) => format!("fail written bytes do not read back: {}", &format!("{:?}", e)[..60.min(format!("{:?}", e).len())]),
            Ok(Ok(lib2)) => {
                if lib2 == lib {
                    "pass".into()
                } else {
                    "fail read-back library differs from the one written".into()
                }
            }
        },
    }
}
/// `save` to a path that already holds a longer file: the file must end up holding exactly the stream
fn save_over_existing(lib: &GdsLibrary, bytes: &[u8]) -> Option<String> {
    if bytes.len() % 8 != 0 { return None; } // a sample of the cases: this one touches the disk
    let dir = std::env::temp_dir().join(format!("l21h-c02-{}", std::process::id()));
    let _ = std::fs::create_dir_all(&dir);
    let path = dir.join("over.gds");
    let r = (|| -> Result<Option<String>, String> {
        std::fs::write(&path, vec![0xEEu8; bytes.len() + 64]).map_err(|e| e.to_string())?;
        lib.save(&path).map_err(|e| format!("{:?}", e))?;
        let got = std::fs::read(&path).map_err(|e| e.to_string())?;
        Ok(if got == bytes { None } else { Some(format!("fail save() over an existing longer file leaves {} bytes, the stream has {}", got.len(), bytes.len())) })
    })();
    let _ = std::fs::remove_file(&path);
    let _ = std::fs::remove_dir(&dir);
    match r { Ok(m) => m, Err(e) => Some(format!("fail save() to an existing file failed: {}", &e[..e.len().min(80)])) }
}
pub fn oracle_c02(line: &str) -> String {
    let p = match Sexp::parse_all(line) {
        Some(p) if p.len() == 2 && p[0].atom() == Some("gds.write") => p,
        _ => return "na".into(),
    };
    let lib = match p_lib(&p[1]) {
        Some(l) => l,
        None => return "na".into(),
    };
    let bytes = match write_bytes(&lib) {
        Ok(b) => b,
        Err(_) => return "na".into(), // property quantifies over libraries for which writing succeeds
    };
    // the destination is any `Write`: a sink that takes only a few bytes per call gets the same stream
    let k = 1 + bytes.len() % 5;
    if crate::gdsio::write_bytes_chunky(&lib, k).ok().as_ref() != Some(&bytes) {
        return format!("fail a destination that accepts {} bytes per write call received a different (malformed) stream", k);
    }
    match spec_decode(&bytes) {
        Err(e) => format!("fail not a well-formed GDSII stream: {}", e),
        Ok(s) => {
            if s == lib_s(&canon_zero(&lib)) {
                if let Some(m) = save_over_existing(&lib, &bytes) { return m; }
                "pass".into()
            } else {
                "fail independent decoder recovers different content".into()
            }
        }
    }
}
pub fn oracle_c03(line: &str) -> String {
    let p = match Sexp::parse_all(line) {
        Some(p) if p.len() == 3 && (p[0].atom() == Some("gds.c03") || p[0].atom() == Some("gds.open")) => p,
        Some(p) if p.len() == 2 && p[0].atom() == Some("gds.read") => {
            // a failing read placed before a conformant stream: executed here too (same thread, same order), judged by the next case
            if let Some(b) = p[1].bytes() { let _ = std::panic::catch_unwind(|| GdsLibrary::from_bytes(&b)); }
            return "na".into();
        }
        _ => return "na".into(),
    };
    let bytes = match p[1].bytes() {
        Some(b) => b,
        None => return "na".into(),
    };
    let via_file = p[0].atom() == Some("gds.open");
    let res = match std::panic::catch_unwind(|| {
        if via_file {
            let path = std::env::temp_dir().join(format!("l21h-oracle-open-{}.gds", std::process::id()));
            let _ = std::fs::write(&path, &bytes);
            let r = GdsLibrary::open(&path);
            let _ = std::fs::remove_file(&path);
            r
        } else { GdsLibrary::from_bytes(&bytes) }
    }) {
        Err(_) => return "fail reader panicked".into(),
        Ok(r) => r,
    };
    if p[2].atom() == Some("unsupported") {
        return match res {
            Err(_) => "pass".into(),
            Ok(_) => "fail unsupported library-level record accepted".into(),
        };
    }
    match res {
        Err(e) => format!("fail conformant stream rejected: {}", &format!("{:?}", e)[..80.min(format!("{:?}", e).len())]),
        Ok(lib) => {
            if lib_s(&lib) == p[2] {
                "pass".into()
            } else {
                "fail read library differs from the encoded one".into()
            }
        }
    }
}
pub fn oracle_c10(line: &str) -> String {
    let p = match Sexp::parse_all(line) {
        Some(p) if p.len() >= 2 => p,
        _ => return "na".into(),
    };
    let bytes = match p[1].bytes() {
        Some(b) => b,
        None => return "na".into(),
    };
    let (c0, t0) = (crate::rng::thread_cpu_ms(), std::time::Instant::now());
    let res = match std::panic::catch_unwind(|| GdsLibrary::from_bytes(&bytes)) {
        Err(_) => return "fail reader panicked".into(),
        Ok(r) => r,
    };
    // CPU time of this thread where available (a loaded machine is not a slow reader), else wall clock
    let dt = match (c0, crate::rng::thread_cpu_ms()) { (Some(a), Some(b)) if b >= a => (b - a) as f64 / 1000.0, _ => t0.elapsed().as_secs_f64() };
    if dt > 2.0 + bytes.len() as f64 * 1e-4 {
        return format!("fail reading {} bytes took {:.2}s", bytes.len(), dt);
    }
    match res {
        Err(_) => "pass".into(),
        Ok(lib) => {
            // accepted: there must be an ENDLIB record on the record chain
            let spans = record_spans(&bytes);
            if spans.last().map(|(o, _)| bytes[*o + 2]) != Some(4) {
                return "fail stream without end-of-library record accepted".into();
            }
            match std::panic::catch_unwind(|| write_bytes(&lib)) {
                Err(_) => "fail writer panicked on a library the reader returned".into(),
                Ok(Err(_)) => "fail a library the reader returned cannot be written".into(),
                Ok(Ok(b2)) => match std::panic::catch_unwind(|| GdsLibrary::from_bytes(&b2)) {
                    Ok(Ok(lib2)) if lib2 == lib || lib_s(&lib2) == lib_s(&lib) => "pass".into(),
                    Ok(Ok(_)) => "fail re-written library reads back differently".into(),
                    _ => "fail re-written library does not read back".into(),
                },
            }
        }
    }
}
pub fn tag(line: &str) -> String {
    let p = match Sexp::parse_all(line) {
        Some(p) if p.len() >= 2 => p,
        _ => return "-".into(),
    };
    match p[0].atom().unwrap_or("") {
        "gds.write" => match p_lib(&p[1]) {
            Some(lib) => {
                let ne: usize = lib.structs.iter().map(|s| s.elems.len()).sum();
                let w = match write_bytes(&lib) {
                    Ok(_) => "ok",
                    Err(_) => "err",
                };
                format!("write:{}:structs{}:elems{}{}", w, lib.structs.len().min(3), ne.min(6), if reals_in_range(&lib) { "" } else { ":reals-out-of-range" })
            }
            None => "-".into(),
        },
        "gds.read" | "gds.c03" => {
            let b = p[1].bytes().unwrap_or_default();
            let r = match std::panic::catch_unwind(|| GdsLibrary::from_bytes(&b)) {
                Ok(Ok(_)) => "ok",
                Ok(Err(e)) => match e {
                    GdsError::RecordDecode(..) => "err:decode",
                    GdsError::RecordLen(..) => "err:len",
                    GdsError::InvalidDataType(..) => "err:dtype",
                    GdsError::InvalidRecordType(..) => "err:rtype",
                    GdsError::Unsupported(..) => "err:unsupported",
                    GdsError::Parse { .. } => "err:parse",
                    GdsError::Boxed(..) => "err:io/utf8",
                    GdsError::Str(..) => "err:str",
                },
                Err(_) => "panic",
            };
            format!("{}:{}", p[0].atom().unwrap(), r)
        }
        _ => "-".into(),
    }
}
