//! C15: GDSII real codec.  Ops `f.enc <f64 bits>` and `f.dec <gds bits>`.
use crate::rng::Rng;
use crate::sexp::*;
use gds21::GdsFloat64;

pub fn op_enc(args: &[Sexp]) -> String {
    let b = match args.get(0).and_then(|a| a.f64bits()) {
        Some(b) => b,
        None => return "bad-op".into(),
    };
    match GdsFloat64::try_encode(f64::from_bits(b)) {
        Ok(g) => format!("ok {}", of_f64(g)),
        Err(_) => "err".into(),
    }
}
pub fn op_dec(args: &[Sexp]) -> String {
    let g = match args.get(0).and_then(|a| a.f64bits()) {
        Some(b) => b,
        None => return "bad-op".into(),
    };
    format!("ok {}", of_f64(GdsFloat64::decode(g).to_bits()))
}

/// `f.decenc <gds bits>`: decode, then encode the double just decoded — the two calls in this order, nothing in between
pub fn op_decenc(args: &[Sexp]) -> String {
    let g = match args.get(0).and_then(|a| a.f64bits()) {
        Some(b) => b,
        None => return "bad-op".into(),
    };
    let d = GdsFloat64::decode(g);
    match GdsFloat64::try_encode(d) {
        Ok(g2) => format!("ok {} {}", of_f64(d.to_bits()), of_f64(g2)),
        Err(_) => format!("ok {} err", of_f64(d.to_bits())),
    }
}
fn decenc_case(g: u64) -> String {
    format!("f.decenc {}", of_f64(g))
}
fn enc_case(b: u64) -> String {
    format!("f.enc {}", of_f64(b))
}
fn dec_case(g: u64) -> String {
    format!("f.dec {}", of_f64(g))
}

pub fn gen(thorough: bool, rng: &mut Rng, out: &mut Vec<String>) {
    // (1) every binary exponent: values within +-4 ulp of each power of two (hence of sixteen)
    for be in 0..=2047u64 {
        for s in [0u64, 1] {
            for d in -4i64..=4 {
                let base = (be << 52) as i64;
                let v = base + d;
                if v < 0 {
                    continue;
                }
                out.push(enc_case((s << 63) | (v as u64 & 0x7FFF_FFFF_FFFF_FFFF)));
            }
        }
    }
    // (2) all one- and two-bit mantissa patterns x all 128 GDS exponents x both signs
    for e in 0..128u64 {
        for s in [0u64, 1] {
            for i in 0..56u64 {
                out.push(dec_case((s << 63) | (e << 56) | (1 << i)));
                for j in 0..i {
                    if thorough || (i + j + e) % 3 == 0 {
                        out.push(dec_case((s << 63) | (e << 56) | (1 << i) | (1 << j)));
                    }
                }
            }
            out.push(dec_case((s << 63) | (e << 56)));
            out.push(dec_case((s << 63) | (e << 56) | 0x00FF_FFFF_FFFF_FFFF));
        }
    }
    // (3) normalised mantissas with 53..56 significant bits at rounding boundaries
    for e in [0u64, 1, 63, 64, 65, 126, 127] {
        for top in 1..16u64 {
            let hi = top << 52;
            for low in [0u64, 1, 2, 3, 4, 5, 6, 7, 8, 9, 0xA, 0xB, 0xC, 0xD, 0xE, 0xF, 0x10, 0x17, 0x18, 0x19] {
                out.push(dec_case((e << 56) | hi | low));
                out.push(dec_case((e << 56) | hi | (0x000F_FFFF_FFFF_FFE0) | (low & 0x1F)));
            }
        }
    }
    // (3b) decode-then-encode histories: reals with 54..56 significant bits, unnormalised reals (leading hex digits zero),
    // all-ones mantissas — the encoding of the decoded double must be its own exact, normalised encoding, not the input
    for e in [0u64, 1, 2, 63, 64, 65, 66, 126, 127] {
        for s in [0u64, 1] {
            for top in 0..16u64 {
                for low in [0u64, 1, 2, 3, 4, 7, 8, 9, 0xF, 0x10] {
                    out.push(decenc_case((s << 63) | (e << 56) | (top << 52) | low));
                    out.push(decenc_case((s << 63) | (e << 56) | (top << 52) | 0x000F_FFFF_FFFF_FFF0 | (low & 0xF)));
                    out.push(decenc_case((s << 63) | (e << 56) | (top << 44) | low));          // two leading zero digits
                    out.push(decenc_case((s << 63) | (e << 56) | (top << 8) | low));           // almost all digits zero
                }
            }
        }
    }
    for _ in 0..(if thorough { 200_000 } else { 20_000 }) {
        let r = rng.next();
        out.push(decenc_case(r));
        out.push(decenc_case(r & 0xFF00_FFFF_FFFF_FFFF));
    }
    // (4) uniform random bit patterns, both directions; doubles biased into the GDS range
    let n = if thorough { 4_000_000 } else { 300_000 };
    for _ in 0..n {
        let r = rng.next();
        out.push(dec_case(r));
        let r = rng.next();
        // exponent uniformly in [1023-270, 1023+260] so that both in- and out-of-range occur
        let be = 1023 - 270 + rng.below(531);
        let b = (r & 0x800F_FFFF_FFFF_FFFF) | (be << 52);
        out.push(enc_case(b));
        if rng.chance(1, 8) {
            out.push(enc_case(rng.next()));
        }
        // chained: encode then decode is exercised by the oracle on enc cases
    }
}

/// exact value as (sign, mantissa, exp2) with odd mantissa (or zero)
fn norm(sign: bool, mut m: u128, mut e: i64) -> (bool, u128, i64) {
    if m == 0 {
        return (false, 0, 0);
    }
    while m & 1 == 0 {
        m >>= 1;
        e += 1;
    }
    (sign, m, e)
}
fn f64_exact(b: u64) -> Option<(bool, u128, i64)> {
    let s = b >> 63 == 1;
    let be = ((b >> 52) & 0x7FF) as i64;
    let fr = (b & 0x000F_FFFF_FFFF_FFFF) as u128;
    if be == 2047 {
        return None;
    }
    if be == 0 {
        Some(norm(s, fr, -1074))
    } else {
        Some(norm(s, fr | (1 << 52), be - 1075))
    }
}
fn gds_exact(g: u64) -> (bool, u128, i64) {
    let s = g >> 63 == 1;
    let e = ((g >> 56) & 0x7F) as i64;
    let m = (g & 0x00FF_FFFF_FFFF_FFFF) as u128;
    norm(s, m, 4 * (e - 64) - 56)
}
fn in_gds_range(b: u64) -> bool {
    // zero, or 16^-65 <= |x| < 16^63  (the representable range; contains the property's 16^-64..16^63)
    let be = ((b >> 52) & 0x7FF) as i64;
    let fr = b & 0x000F_FFFF_FFFF_FFFF;
    if be == 0 && fr == 0 {
        return true;
    }
    if be == 0 || be == 2047 {
        return false;
    }
    let e2 = be - 1023; // 2^e2 <= |x| < 2^(e2+1)
    e2 >= -260 && e2 < 252
}
/// |a - b| compared with |a - c| exactly; values are (sign, m, e) all of the same sign here
fn cmp_dist(a: (u128, i64), b: (u128, i64), c: (u128, i64)) -> std::cmp::Ordering {
    let emin = a.1.min(b.1).min(c.1);
    let sc = |x: (u128, i64)| -> i128 { (x.0 << ((x.1 - emin) as u32)) as i128 };
    let (a, b, c) = (sc(a), sc(b), sc(c));
    (a - b).abs().cmp(&(a - c).abs())
}

pub fn oracle(line: &str) -> String {
    let p = match Sexp::parse_all(line) {
        Some(p) => p,
        None => return "na".into(),
    };
    let op = p[0].atom().unwrap_or("");
    let v = match p.get(1).and_then(|a| a.f64bits()) {
        Some(v) => v,
        None => return "na".into(),
    };
    match op {
        "f.enc" => {
            let x = f64::from_bits(v);
            let r = GdsFloat64::try_encode(x);
            if in_gds_range(v) {
                let g = match r {
                    Ok(g) => g,
                    Err(_) => return "fail in-range value rejected".into(),
                };
                let back = GdsFloat64::decode(g).to_bits();
                let zero = v << 1 == 0;
                if !(back == v || (zero && back == 0)) {
                    return format!("fail decode(encode(x)) = {:016x}", back);
                }
                if gds_exact(g) != f64_exact(v).unwrap() {
                    return "fail encoding not exact".into();
                }
                let m = g & 0x00FF_FFFF_FFFF_FFFF;
                if !zero && m >> 52 == 0 {
                    return "fail not normalised".into();
                }
                if zero && g != 0 {
                    return "fail zero not all-zero".into();
                }
                "pass".into()
            } else {
                match r {
                    Err(_) => "pass".into(),
                    Ok(g) => {
                        // accepted outside the range: then it must still be exact
                        if f64_exact(v).map(|e| e == gds_exact(g)).unwrap_or(false) {
                            "pass".into()
                        } else {
                            "fail out-of-range value encoded inexactly".into()
                        }
                    }
                }
            }
        }
        "f.decenc" => {
            // the history decode → encode on the same thread: whatever the input real looked like (too many bits,
            // not normalised), the second call must return the exact normalised encoding of the double it is given
            let d = GdsFloat64::decode(v);
            let db = d.to_bits();
            let r = GdsFloat64::try_encode(d);
            if !in_gds_range(db) { return "na".into(); }
            let g2 = match r { Ok(g) => g, Err(_) => return "fail a decoded in-range double is rejected by the encoder".into() };
            if db << 1 == 0 { return if g2 == 0 { "pass".into() } else { "fail zero not all-zero".into() }; }
            if Some(gds_exact(g2)) != f64_exact(db) { return format!("fail encode after decode is not the exact encoding of the double: {:016x}", g2); }
            if (g2 & 0x00FF_FFFF_FFFF_FFFF) >> 52 == 0 { return format!("fail encode after decode is not normalised: {:016x}", g2); }
            "pass".into()
        }
        "f.dec" => {
            let g = v;
            let m = g & 0x00FF_FFFF_FFFF_FFFF;
            if m >> 52 == 0 && m != 0 {
                return "na".into(); // not normalised: outside the property
            }
            let d = GdsFloat64::decode(g);
            let db = d.to_bits();
            if m == 0 {
                return if d == 0.0 { "pass".into() } else { "fail zero mantissa".into() };
            }
            // correctly rounded: d is at least as close to the exact value as both neighbours,
            // and on a tie d has an even significand
            let (gs, gm, ge) = gds_exact(g);
            let (ds, dm, de) = match f64_exact(db) {
                Some(t) => t,
                None => return "fail decode gave non-finite".into(),
            };
            if ds != gs {
                return "fail sign".into();
            }
            let mag = db & 0x7FFF_FFFF_FFFF_FFFF;
            for nb in [mag - 1, mag + 1] {
                let (_, nm, ne) = f64_exact(nb).unwrap();
                match cmp_dist((gm, ge), (dm, de), (nm, ne)) {
                    std::cmp::Ordering::Greater => return "fail not nearest".into(),
                    std::cmp::Ordering::Equal => {
                        if mag & 1 == 1 {
                            return "fail tie not to even".into();
                        }
                    }
                    _ => {}
                }
            }
            // re-encode when at most 53 significant bits
            let sig = 128 - (gm.leading_zeros() as u32);
            if sig <= 53 {
                match GdsFloat64::try_encode(d) {
                    Ok(g2) if g2 == g => {}
                    Ok(g2) => return format!("fail re-encode gives {:016x}", g2),
                    Err(_) => return "fail re-encode rejected".into(),
                }
            }
            "pass".into()
        }
        _ => "na".into(),
    }
}

pub fn tag(line: &str) -> String {
    let p = match Sexp::parse_all(line) {
        Some(p) => p,
        None => return "-".into(),
    };
    let op = p[0].atom().unwrap_or("");
    let v = p.get(1).and_then(|a| a.f64bits()).unwrap_or(0);
    match op {
        "f.enc" => {
            let be = (v >> 52) & 0x7FF;
            let cls = if v << 1 == 0 {
                "zero"
            } else if be == 0 {
                "subnormal"
            } else if be == 2047 {
                "nan-inf"
            } else if in_gds_range(v) {
                "in-range"
            } else {
                "out-of-range"
            };
            format!("enc:{}:sh{}", cls, (be + 5) % 4)
        }
        "f.dec" => {
            let m = v & 0x00FF_FFFF_FFFF_FFFF;
            let sig = if m == 0 { 0 } else { 64 - m.leading_zeros() - m.trailing_zeros() };
            let cls = if m == 0 {
                "zero"
            } else if m >> 52 == 0 {
                "unnormalised"
            } else if sig <= 53 {
                "exact"
            } else {
                "rounded"
            };
            format!("dec:{}", cls)
        }
        _ => "-".into(),
    }
}
