//! C20: determinism. Cases are the conversion inputs of C06/C07/C14/C16 (+ abstracts exported to GDSII / LEF);
//! the oracle repeats every conversion in-process (fresh hash maps get fresh keys) and compares; the runner
//! additionally runs the whole `impl` pass in two separate processes and diffs the outputs.
use crate::rng::Rng;
use crate::sexp::*;
use layout21raw as raw;

fn zero_dates(g: &mut gds21::GdsLibrary) {
    g.set_all_dates(gds21::GdsDateTime { year: 0, month: 0, day: 0, hour: 0, minute: 0, second: 0 });
}
pub fn op_abs2gds(args: &[Sexp]) -> String {
    let lib = match args.get(0).and_then(crate::props::c14::p_rlib) { Some(x) => x, None => return "bad-op".into() };
    match lib.to_gds() {
        Ok(mut g) => { zero_dates(&mut g); format!("ok {}", crate::gdsio::lib_s(&g)) }
        Err(_) => "err".into(),
    }
}
/// canonical S-expression of what `LefExporter` fills in: dbu, macros (name, pins with their single port's layers,
/// obstruction layers); `extra` is appended when any OTHER field of the exported library differs from its default
pub fn leflib_s(lib: &lef21::LefLibrary) -> Sexp {
    use lef21::*;
    let mut extra = false;
    let pt = |p: &LefPoint| -> Vec<Sexp> { vec![a(p.x.to_string()), a(p.y.to_string())] };
    let mut layer_s = |lg: &LefLayerGeometries, extra: &mut bool| -> Sexp {
        let mut v = vec![a("layer"), of_bytes(lg.layer_name.as_bytes())];
        let mut stripped = lg.clone();
        stripped.layer_name = String::new();
        stripped.geometries = vec![];
        if stripped != LefLayerGeometries::default() { *extra = true; }
        for g in &lg.geometries {
            match g {
                LefGeometry::Shape(LefShape::Rect(None, p0, p1)) => { let mut r = vec![a("rect")]; r.extend(pt(p0)); r.extend(pt(p1)); v.push(l(r)); }
                LefGeometry::Shape(LefShape::Polygon(None, pts)) => { let mut r = vec![a("polygon")]; for p in pts { r.push(l(pt(p))); } v.push(l(r)); }
                _ => { *extra = true; v.push(a("other")); }
            }
        }
        l(v)
    };
    let mut macros = vec![];
    for m in &lib.macros {
        let mut pins = vec![a("pins")];
        for p in &m.pins {
            let mut pv = vec![a("pin"), of_bytes(p.name.as_bytes())];
            if p.ports.len() != 1 { extra = true; }
            for port in &p.ports {
                if port.class.is_some() { extra = true; }
                for lg in &port.layers { pv.push(layer_s(lg, &mut extra)); }
            }
            let mut stripped = p.clone();
            stripped.name = String::new();
            stripped.ports = vec![];
            if stripped != LefPin::default() { extra = true; }
            pins.push(l(pv));
        }
        let mut obs = vec![a("obs")];
        for lg in &m.obs { obs.push(layer_s(lg, &mut extra)); }
        let mut stripped = m.clone();
        stripped.name = String::new();
        stripped.pins = vec![];
        stripped.obs = vec![];
        if stripped != LefMacro::default() { extra = true; }
        macros.push(l(vec![a("macro"), of_bytes(m.name.as_bytes()), l(pins), l(obs)]));
    }
    let dbu = lib.units.as_ref().and_then(|u| u.database_microns.as_ref()).map(|d| d.value() as i64);
    let mut stripped = lib.clone();
    stripped.macros = vec![];
    if let Some(u) = stripped.units.as_mut() { u.database_microns = None; }
    if stripped.units == Some(LefUnits::default()) { stripped.units = None; }
    if stripped != LefLibrary::default() { extra = true; }
    let mut v = vec![a("leflib"), dbu.map(of_int).unwrap_or(a("#f"))];
    v.extend(macros);
    if extra { v.push(a("extra")); }
    Sexp::List(v)
}
pub fn op_abs2lef(args: &[Sexp]) -> String {
    let lib = match args.get(0).and_then(crate::props::c14::p_rlib) { Some(x) => x, None => return "bad-op".into() };
    match raw::lef::LefExporter::export(&lib) {
        Ok(l) => format!("ok {}", leflib_s(&l)),
        Err(_) => "err".into(),
    }
}
/// the same conversion with the complete serialised library appended (the repeat-and-compare oracle looks at everything)
fn abs2lef_full(line: &str) -> String {
    let parsed = match Sexp::parse_all(line) { Some(p) if p.len() >= 2 => p, _ => return "bad-op".into() };
    let lib = match crate::props::c14::p_rlib(&parsed[1]) { Some(x) => x, None => return "bad-op".into() };
    match std::panic::catch_unwind(std::panic::AssertUnwindSafe(|| raw::lef::LefExporter::export(&lib))) {
        Ok(Ok(l)) => format!("ok {} {}", leflib_s(&l), serde_json::to_string(&l).unwrap_or_default()),
        Ok(Err(_)) => "err".into(),
        Err(_) => "panic".into(),
    }
}
pub fn op_lefrt(args: &[Sexp]) -> String {
    let (ncs, macs) = match crate::props::c16::parse_case(args) { Some(x) => x, None => return "bad-op".into() };
    let leflib = crate::props::c16::to_leflib(ncs, &macs);
    let rawlib = match raw::lef::LefImporter::import(&leflib, None) { Ok(l) => l, Err(_) => return "err".into() };
    match raw::lef::LefExporter::export(&rawlib) {
        Ok(l) => format!("ok {}", of_bytes(serde_json::to_string(&l).unwrap_or_default().as_bytes())),
        Err(_) => "err".into(),
    }
}
/// `c20.dup <k> <nshapes>`: an abstract whose port and blockage maps hold shapes on k distinct layers that all
/// share ONE layer number (as `met1`/`via` do in the crate's own test layers), exported to LEF, protobuf and GDSII
pub fn op_dup(args: &[Sexp]) -> String {
    let (k, ns) = match (args.get(0).and_then(|a| a.int()), args.get(1).and_then(|a| a.int())) { (Some(k), Some(n)) => (k, n), _ => return "bad-op".into() };
    let mut lib = raw::Library::new("dup", raw::Units::Nano);
    let mut keys = vec![];
    {
        let mut layers = lib.layers.write().unwrap();
        for i in 0..k {
            let l = raw::Layer::new(68, format!("lay{}", i)).add_pairs(&[(20, raw::LayerPurpose::Drawing), (5, raw::LayerPurpose::Label), (16, raw::LayerPurpose::Pin), (255, raw::LayerPurpose::Obstruction)]).unwrap();
            keys.push(layers.add(l));
        }
    }
    let outline = raw::Polygon { points: vec![raw::Point::new(0, 0), raw::Point::new(9, 0), raw::Point::new(9, 9), raw::Point::new(0, 9)] };
    let mut abs = raw::Abstract::new("c", outline);
    let mut port = raw::AbstractPort::new("p");
    for (i, key) in keys.iter().enumerate() {
        let shapes: Vec<raw::Shape> = (0..ns).map(|j| raw::Shape::Rect(raw::Rect { p0: raw::Point::new(i as isize, j as isize), p1: raw::Point::new(i as isize + 2, j as isize + 3) })).collect();
        port.shapes.insert(*key, shapes.clone());
        abs.blockages.insert(*key, shapes);
    }
    abs.ports.push(port);
    lib.cells.push(layout21raw::utils::Ptr::new(raw::Cell::from(abs)));
    let lef = raw::lef::LefExporter::export(&lib).map(|l| serde_json::to_string(&l).unwrap_or_default()).unwrap_or("err".into());
    let pb = lib.to_proto().map(|p| crate::props::c14::plib_s(&p).to_string()).unwrap_or("err".into());
    let gds = lib.to_gds().map(|mut g| { zero_dates(&mut g); crate::gdsio::lib_s(&g).to_string() }).unwrap_or("err".into());
    format!("ok {} {} {}", of_bytes(lef.as_bytes()), of_bytes(pb.as_bytes()), of_bytes(gds.as_bytes()))
}
/// `c20.purphist <k>`: a layer whose purpose table has a HISTORY (a purpose registered under several numbers, a number
/// re-assigned to another purpose, in orders chosen by k), with shapes of every registered purpose, converted to
/// protobuf and GDSII. The table is rebuilt for every conversion, so its hash maps get fresh seeds every time.
pub fn op_purphist(args: &[Sexp]) -> String {
    let k = match args.get(0).and_then(|a| a.int()) { Some(k) => k as usize, None => return "bad-op".into() };
    use raw::LayerPurpose as P;
    let histories: Vec<Vec<(i16, P)>> = vec![
        vec![(0, P::Drawing), (10, P::Drawing), (20, P::Drawing), (20, P::Pin)],
        vec![(0, P::Drawing), (10, P::Drawing), (20, P::Drawing), (5, P::Label), (20, P::Pin), (10, P::Obstruction)],
        vec![(1, P::Pin), (2, P::Pin), (3, P::Pin), (4, P::Pin), (4, P::Drawing), (3, P::Label)],
        vec![(7, P::Drawing), (8, P::Drawing), (9, P::Drawing), (10, P::Drawing), (11, P::Drawing), (11, P::Obstruction), (10, P::Pin), (9, P::Label)],
        vec![(0, P::Drawing), (0, P::Pin), (1, P::Drawing), (2, P::Drawing), (2, P::Pin)],
        vec![(30, P::Other(30)), (31, P::Drawing), (30, P::Drawing), (32, P::Drawing), (32, P::Other(32))],
    ];
    let h = &histories[k % histories.len()];
    let mut lib = raw::Library::new("hist", raw::Units::Nano);
    let key = {
        let mut layers = lib.layers.write().unwrap();
        let mut l = raw::Layer::new(68, "met");
        for (n, p) in h { if l.add_purpose(*n, p.clone()).is_err() { return "bad-op".into(); } }
        layers.add(l)
    };
    let mut lay = raw::Layout::default();
    lay.name = "c".into();
    let mut purposes: Vec<P> = vec![];
    for (_, p) in h { if !purposes.contains(p) { purposes.push(p.clone()); } }
    for (i, p) in purposes.iter().enumerate() {
        lay.elems.push(raw::Element { net: None, layer: key, purpose: p.clone(), inner: raw::Shape::Rect(raw::Rect { p0: raw::Point::new(i as isize, 0), p1: raw::Point::new(i as isize + 3, 4) }) });
    }
    lib.cells.push(layout21raw::utils::Ptr::new(raw::Cell::from(lay)));
    let pb = lib.to_proto().map(|p| crate::props::c14::plib_s(&p).to_string()).unwrap_or("err".into());
    let gds = lib.to_gds().map(|mut g| { zero_dates(&mut g); crate::gdsio::lib_s(&g).to_string() }).unwrap_or("err".into());
    format!("ok {} {}", of_bytes(pb.as_bytes()), of_bytes(gds.as_bytes()))
}
pub fn oracle(line: &str) -> String {
    let run = |line: &str| -> String { if line.starts_with("c20.abs2lef ") { abs2lef_full(line) } else { crate::ops::run_line(line) } };
    let first = run(line);
    let reps = if line.starts_with("c20.purphist") || line.starts_with("c20.dup") { 40 } else { 5 };
    for k in 0..reps {
        let again = run(line);
        if again != first {
            let i = first.bytes().zip(again.bytes()).position(|(a, b)| a != b).unwrap_or(0);
            return format!("fail repeated conversion #{} differs at char {}: …{}… vs …{}…", k + 2, i, &first[i.saturating_sub(30)..first.len().min(i + 40)], &again[i.saturating_sub(30)..again.len().min(i + 40)]);
        }
    }
    "pass".into()
}
pub fn tag(line: &str) -> String {
    line.split(' ').next().unwrap_or("-").to_string()
}
pub fn gen(thorough: bool, rng: &mut Rng, out: &mut Vec<String>) {
    let n = if thorough { 6000 } else { 600 };
    let mut tmp = vec![];
    crate::props::c0607::gen_c06(false, rng, &mut tmp);
    out.extend(tmp.drain(..).take(n));
    crate::props::c0607::gen_c07(false, rng, &mut tmp);
    out.extend(tmp.drain(..).take(n));
    crate::props::c16::gen(false, rng, &mut tmp);
    for c in tmp.drain(..).take(n) {
        out.push(c.replacen("lefraw.import", "c20.lefrt", 1));
        out.push(c);
    }
    for k in 2..=6 { for ns in 1..=2 { out.push(format!("c20.dup {} {}", k, ns)); } }
    for k in 0..6 { out.push(format!("c20.purphist {}", k)); }
    // raw libraries with multi-layer abstracts, exported three ways
    for _ in 0..n {
        let r = crate::props::c14::gen_rlib(rng, false);
        out.push(format!("rawproto.export {}", r));
        out.push(format!("c20.abs2gds {}", r));
        out.push(format!("c20.abs2lef {}", r));
    }
}
