//! C18: JSON / YAML copies are lossless. Ops (model: unsupported — the derive layer is covered by the
//! translator-tied theorems, the text layer is third-party and exercised here):
//!   serde.gds <json|yaml> <gds lib>        -> ok <gds lib after to_string/from_str>
//!   serde.gdsbytes <json|yaml> <gds lib>   -> ok #t|#f   GDS file -> markup file -> GDS file, bytes equal (converter functions)
//!   serde.lef <json|yaml> <lefraw case…>   -> ok #t|#f   LefLibrary after to_string/from_str equals the original
//!   serde.lefspecial <json|yaml> <which>   -> ok #t|#f   one-field libraries for the known-lossy fields
use crate::rng::Rng;
use crate::sexp::*;
use layout21utils::SerializationFormat;
use lef21::*;

fn fmt_of(s: &Sexp) -> Option<SerializationFormat> {
    match s.atom()? { "json" => Some(SerializationFormat::Json), "yaml" => Some(SerializationFormat::Yaml), _ => None }
}
pub fn op_gds(args: &[Sexp]) -> String {
    let (fmt, lib) = match (args.get(0).and_then(fmt_of), args.get(1).and_then(crate::gdsio::p_lib)) { (Some(f), Some(l)) => (f, l), _ => return "bad-op".into() };
    let s = match fmt.to_string(&lib) { Ok(s) => s, Err(_) => return "err".into() };
    let l2 = match fmt.from_str::<gds21::GdsLibrary>(&s) { Ok(l2) => l2, Err(_) => return "err".into() };
    // the file helpers too: save over an EXISTING, longer file (a library is re-saved after an
    // edit that made it smaller), then open; the result must be what from_str gave
    let dir = std::env::temp_dir().join(format!("l21h-c18s-{}", std::process::id()));
    let _ = std::fs::create_dir_all(&dir);
    let f = dir.join("lib.markup");
    let _ = std::fs::write(&f, "x".repeat(s.len() + 4096));
    let r = match fmt.save(&lib, &f) { Ok(()) => fmt.open::<gds21::GdsLibrary>(&f).ok(), Err(_) => None };
    let _ = std::fs::remove_dir_all(&dir);
    match r { Some(l3) if l3 == l2 => format!("ok {}", crate::gdsio::lib_s(&l2)), _ => "err-file".into() }
}
pub fn op_gdsbytes(args: &[Sexp]) -> String {
    let (fmtname, lib) = match (args.get(0).and_then(|a| a.atom()), args.get(1).and_then(crate::gdsio::p_lib)) { (Some(f), Some(l)) => (f.to_string(), l), _ => return "bad-op".into() };
    let dir = std::env::temp_dir().join(format!("l21h-c18-{}", std::process::id()));
    let _ = std::fs::create_dir_all(&dir);
    let (g1, mk, g2) = (dir.join("a.gds"), dir.join(format!("a.{}", fmtname)), dir.join("b.gds"));
    if lib.save(&g1).is_err() { return "err".into(); }
    let p = |x: &std::path::PathBuf| x.to_string_lossy().to_string();
    use layout21converters::gds_serialization::*;
    // both output files already exist and are longer than what will be written; every other case
    // runs the converters in verbose mode (the mode must not change what is written)
    let big = std::fs::metadata(&g1).map(|m| m.len() as usize).unwrap_or(0) * 40 + 65536;
    let _ = std::fs::write(&mk, "x".repeat(big));
    let _ = std::fs::write(&g2, vec![0x55u8; big]);
    let verbose = lib.structs.len() % 2 == 1;
    if to_markup(&ToMarkupOptions { gds: p(&g1), fmt: fmtname.clone(), out: p(&mk), verbose }).is_err() { return "err".into(); }
    if from_markup(&FromMarkupOptions { gds: p(&g2), fmt: fmtname, inp: p(&mk), verbose }).is_err() { return "err".into(); }
    let same = std::fs::read(&g1).ok() == std::fs::read(&g2).ok();
    let _ = std::fs::remove_dir_all(&dir);
    format!("ok {}", of_bool(same))
}
fn decorate(lib: &mut LefLibrary, code: u64) {
    // header statements with decimals, strings and enums
    if code & 1 != 0 { lib.version = Some(LefDecimal::new(58, 1)); }
    if code & 2 != 0 { lib.bus_bit_chars = Some(('[', ']')); lib.divider_char = Some('/'); }
    if code & 4 != 0 { lib.names_case_sensitive = Some(LefOnOff::On); lib.no_wire_extension_at_pin = Some(LefOnOff::Off); }
    if code & 8 != 0 {
        // decimals with up to 28 significant digits: a detour through a double would change them
        lib.manufacturing_grid = Some(match code % 5 { 0 => LefDecimal::new(5, 3), 1 => LefDecimal::from_i128_with_scale(1234567890123456789, 19), 2 => LefDecimal::from_i128_with_scale(10000000000000000001, 19),
            3 => LefDecimal::from_i128_with_scale(79228162514264337593543950335, 0), _ => LefDecimal::from_i128_with_scale(-314159265358979323846264338, 26) });
        lib.use_min_spacing = Some(LefOnOff::On);
    }
    if code & 16 != 0 { lib.units = Some(LefUnits { database_microns: LefDbuPerMicron::try_new(LefDecimal::new(2000, 0)).ok(), ..Default::default() }); }
    if code & 32 != 0 {
        for m in lib.macros.iter_mut() {
            m.class = Some(LefMacroClass::Block { tp: None });
            m.origin = Some(LefPoint::new(LefDecimal::new(-15, 1), LefDecimal::new(250, 2)));
            m.symmetry = Some(vec![LefSymmetry::X, LefSymmetry::R90]);
            m.site = Some("core \"site\": #1 \\ é".into());
            for p in m.pins.iter_mut() { p.direction = Some(LefPinDirection::Inout); p.use_ = Some(LefPinUse::Power); p.shape = Some(LefPinShape::Abutment); p.taper_rule = Some(" lead and trail ".into()); }
        }
    }
}
pub fn op_lef(args: &[Sexp]) -> String {
    let fmt = match args.get(0).and_then(fmt_of) { Some(f) => f, None => return "bad-op".into() };
    let code = match args.get(1).and_then(|a| a.int()) { Some(c) => c as u64, None => return "bad-op".into() };
    let (ncs, macs) = match crate::props::c16::parse_case(&args[2..]) { Some(x) => x, None => return "bad-op".into() };
    let mut lib = crate::props::c16::to_leflib(ncs, &macs);
    // (the C16 cases may carry values in every field; `fixed_mask` is a pinned known finding of its own)
    lib.fixed_mask = false;
    for m in lib.macros.iter_mut() { m.fixed_mask = false; }
    decorate(&mut lib, code);
    let s = match fmt.to_string(&lib) { Ok(s) => s, Err(_) => return "err".into() };
    match fmt.from_str::<LefLibrary>(&s) { Ok(l2) => format!("ok {}", of_bool(l2 == lib)), Err(_) => "err".into() }
}
/// `serde.leflib <fmt> <libseed>`: a library of the full LEF generator (every statement kind, every optional
/// attribute present / absent / present-but-empty) through the markup format and back. The two fields pinned
/// as known findings (`fixed_mask`) are cleared first: their loss is reported by `serde.lefspecial` only.
pub fn op_leflib(args: &[Sexp]) -> String {
    let fmt = match args.get(0).and_then(fmt_of) { Some(f) => f, None => return "bad-op".into() };
    let seed = match args.get(1).and_then(|a| a.int()) { Some(c) => c as u64, None => return "bad-op".into() };
    let mut lib = crate::props::lef::gen_lib(seed);
    lib.fixed_mask = false;
    for m in lib.macros.iter_mut() { m.fixed_mask = false; }
    let s = match fmt.to_string(&lib) { Ok(s) => s, Err(_) => return "err".into() };
    match fmt.from_str::<LefLibrary>(&s) { Ok(l2) => format!("ok {}", of_bool(l2 == lib)), Err(_) => "err".into() }
}
pub fn op_lefspecial(args: &[Sexp]) -> String {
    let fmt = match args.get(0).and_then(fmt_of) { Some(f) => f, None => return "bad-op".into() };
    let mut lib = LefLibrary::default();
    let mut mac = LefMacro::default();
    mac.name = "m".into();
    match args.get(1).and_then(|a| a.atom()).unwrap_or("") {
        "libfixed" => lib.fixed_mask = true,
        "macrofixed" => { mac.fixed_mask = true; lib.macros.push(mac); }
        "layers" => lib.layers = Some(Unsupported),
        "maxviastack" => lib.max_via_stack = Some(Unsupported),
        "viarules" => lib.via_rules = Some(Unsupported),
        "viarulegens" => lib.via_rule_generators = Some(Unsupported),
        "nondefaultrules" => lib.non_default_rules = Some(Unsupported),
        "viaprops" => lib.vias.push(LefViaDef { name: "v".into(), default: false, data: LefViaDefData::Fixed(LefFixedViaDef::default()), properties: Some(Unsupported) }),
        "pattern" => { let mut g = LefGeneratedViaDef::default(); g.pattern = Some(Unsupported); lib.vias.push(LefViaDef { name: "v".into(), default: false, data: LefViaDefData::Generated(g), properties: None }) }
        "rowpattern" => lib.sites.push(LefSite { name: "s".into(), class: LefSiteClass::Core, size: (LefDecimal::new(1, 0), LefDecimal::new(2, 0)), symmetry: None, row_pattern: Some(Unsupported) }),
        "plain" => { lib.macros.push(mac); }
        _ => return "bad-op".into(),
    }
    let s = match fmt.to_string(&lib) { Ok(s) => s, Err(_) => return "err".into() };
    match fmt.from_str::<LefLibrary>(&s) { Ok(l2) => format!("ok {}", of_bool(l2 == lib)), Err(_) => "err".into() }
}
pub fn oracle(line: &str) -> String {
    let p = match Sexp::parse_all(line) { Some(p) if p.len() >= 3 => p, _ => return "na".into() };
    let res = crate::ops::run_line(line);
    match p[0].atom().unwrap_or("") {
        "serde.gds" => {
            let want = format!("ok {}", p[2]);
            if res == want { "pass".into() } else if res == "err" || res == "panic" { format!("fail {} copy could not be written or read back ({})", p[1], res) } else if res == "err-file" { format!("fail {} copy saved over an existing file does not open to the saved library", p[1]) } else {
                let i = res.bytes().zip(want.bytes()).position(|(a, b)| a != b).unwrap_or(0);
                format!("fail {} copy differs at char {}: …{}… vs …{}…", p[1], i, &res[i.saturating_sub(25)..res.len().min(i + 30)], &want[i.saturating_sub(25)..want.len().min(i + 30)])
            }
        }
        "serde.gdsbytes" | "serde.lef" | "serde.leflib" | "serde.lefspecial" => if res == "ok #t" { "pass".into() } else { format!("fail {} {} copy is not equal to the original ({})", p[0], p[1], res) },
        _ => "na".into(),
    }
}
pub fn tag(line: &str) -> String {
    let mut it = line.split(' ');
    format!("{}:{}", it.next().unwrap_or("-"), it.next().unwrap_or("-"))
}
pub fn gen(thorough: bool, rng: &mut Rng, out: &mut Vec<String>) {
    let n = if thorough { 20000 } else { 2000 };
    for i in 0..n {
        // all reals finite (JSON has no NaN/inf); strings from the JSON/YAML-special alphabet incl. leading/trailing blanks
        let mut lib = crate::props::gds::gen_lib(rng, false, false);
        if i % 3 == 0 { lib.name = [" lead", "trail ", "a: b", "#hash", "\"q\"", "back\\slash", "line\nbreak", "tab\there", "~", "null", "1e3", "é𝄞", "- dash", "{}", "[x]", "yes", "'single'", "  ", "x\n  \ny"][rng.below(19) as usize].to_string(); }
        lib.units = gds21::GdsUnits(crate::props::gds::gen_real(rng, false), crate::props::gds::gen_real(rng, false));
        // every fifth library: structure names made distinct and the references rewired to the library's OWN structures —
        // each reference names the next structure (a forward reference: the user is stored before the used), the last one
        // the first (backward); a converter must store the structures in the order it was given
        if i % 5 == 0 && lib.structs.len() >= 2 {
            let ns = lib.structs.len();
            // (names in DESCENDING order: the stored order is neither alphabetical nor define-before-use)
            let names: Vec<String> = (0..ns).map(|k| format!("s{}", ns - k)).collect();
            for (k, st) in lib.structs.iter_mut().enumerate() { st.name = names[k].clone(); }
            for k in 0..ns {
                let target = names[(k + 1) % ns].clone();
                let mut has = false;
                for e in lib.structs[k].elems.iter_mut() { match e { gds21::GdsElement::GdsStructRef(x) => { x.name = target.clone(); has = true; } gds21::GdsElement::GdsArrayRef(x) => { x.name = target.clone(); has = true; } _ => {} } }
                if !has { lib.structs[k].elems.push(gds21::GdsElement::GdsStructRef(gds21::GdsStructRef { name: target, xy: gds21::GdsPoint::new(k as i32, 1), ..Default::default() })); }
            }
        }
        let fmt = if i % 2 == 0 { "json" } else { "yaml" };
        out.push(format!("serde.gds {} {}", fmt, crate::gdsio::lib_s(&lib)));
        if (i % 20 == 0 || i % 25 == 0) && crate::gdsio::write_bytes(&lib).is_ok() { out.push(format!("serde.gdsbytes {} {}", fmt, crate::gdsio::lib_s(&lib))); }
    }
    let mut tmp = vec![];
    crate::props::c16::gen(false, rng, &mut tmp);
    for (i, c) in tmp.drain(..).take(n).enumerate() {
        out.push(c.replacen("lefraw.import", &format!("serde.lef {} {}", if i % 2 == 0 { "json" } else { "yaml" }, rng.below(64)), 1));
    }
    for i in 0..n / 2 {
        out.push(format!("serde.leflib {} {}", if i % 2 == 0 { "json" } else { "yaml" }, crate::props::lef::LIBSEED_V2 + rng.next() % 1_000_000_007));
    }
    out.push("serde.lefspecial json plain".into());
    out.push("serde.lefspecial yaml plain".into());
}
