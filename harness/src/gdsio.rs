//! GdsLibrary <-> S-expression (mirror of lean/L21/Driver/GdsIO.lean)
use crate::sexp::*;
use gds21::*;

fn opt<T>(o: &Option<T>, f: impl Fn(&T) -> Sexp) -> Sexp {
    match o {
        None => a("#f"),
        Some(x) => f(x),
    }
}
fn ints(v: &[i64]) -> Sexp {
    l(v.iter().map(|x| of_int(*x)).collect())
}
fn xy_vec(v: &[GdsPoint]) -> Sexp {
    ints(&v.iter().flat_map(|p| [p.x as i64, p.y as i64]).collect::<Vec<_>>())
}
fn strans(s: &GdsStrans) -> Sexp {
    l(vec![a("st"), of_bool(s.reflected), of_bool(s.abs_mag), of_bool(s.abs_angle), opt(&s.mag, |m| of_f64(m.to_bits())), opt(&s.angle, |m| of_f64(m.to_bits()))])
}
fn common(e: &Option<GdsElemFlags>, p: &Option<GdsPlex>, props: &[GdsProperty]) -> Vec<Sexp> {
    vec![
        opt(e, |e| l(vec![of_int(e.0 as i64), of_int(e.1 as i64)])),
        opt(p, |p| of_int(p.0 as i64)),
        l(props.iter().map(|p| l(vec![of_int(p.attr as i64), of_bytes(p.value.as_bytes())])).collect()),
    ]
}
fn oi32(o: &Option<i32>) -> Sexp {
    opt(o, |v| of_int(*v as i64))
}
fn oi16(o: &Option<i16>) -> Sexp {
    opt(o, |v| of_int(*v as i64))
}
pub fn elem_s(e: &GdsElement) -> Sexp {
    let mut v;
    match e {
        GdsElement::GdsBoundary(x) => {
            v = vec![a("boundary"), of_int(x.layer as i64), of_int(x.datatype as i64), xy_vec(&x.xy)];
            v.extend(common(&x.elflags, &x.plex, &x.properties));
        }
        GdsElement::GdsPath(x) => {
            v = vec![a("path"), of_int(x.layer as i64), of_int(x.datatype as i64), xy_vec(&x.xy), oi32(&x.width), oi16(&x.path_type), oi32(&x.begin_extn), oi32(&x.end_extn)];
            v.extend(common(&x.elflags, &x.plex, &x.properties));
        }
        GdsElement::GdsStructRef(x) => {
            v = vec![a("sref"), of_bytes(x.name.as_bytes()), xy_vec(&[x.xy.clone()]), opt(&x.strans, strans)];
            v.extend(common(&x.elflags, &x.plex, &x.properties));
        }
        GdsElement::GdsArrayRef(x) => {
            v = vec![a("aref"), of_bytes(x.name.as_bytes()), xy_vec(&x.xy), of_int(x.cols as i64), of_int(x.rows as i64), opt(&x.strans, strans)];
            v.extend(common(&x.elflags, &x.plex, &x.properties));
        }
        GdsElement::GdsTextElem(x) => {
            v = vec![
                a("text"),
                of_bytes(x.string.as_bytes()),
                of_int(x.layer as i64),
                of_int(x.texttype as i64),
                xy_vec(&[x.xy.clone()]),
                opt(&x.presentation, |p| l(vec![of_int(p.0 as i64), of_int(p.1 as i64)])),
                oi16(&x.path_type),
                oi32(&x.width),
                opt(&x.strans, strans),
            ];
            v.extend(common(&x.elflags, &x.plex, &x.properties));
        }
        GdsElement::GdsNode(x) => {
            v = vec![a("node"), of_int(x.layer as i64), of_int(x.nodetype as i64), xy_vec(&x.xy)];
            v.extend(common(&x.elflags, &x.plex, &x.properties));
        }
        GdsElement::GdsBox(x) => {
            v = vec![a("box"), of_int(x.layer as i64), of_int(x.boxtype as i64), xy_vec(&x.xy)];
            v.extend(common(&x.elflags, &x.plex, &x.properties));
        }
    }
    l(v)
}
fn dates(d: &GdsDateTimes) -> Sexp {
    let m = &d.modified;
    let c = &d.accessed;
    ints(&[m.year, m.month, m.day, m.hour, m.minute, m.second, c.year, c.month, c.day, c.hour, c.minute, c.second].map(|x| x as i64))
}
pub fn lib_s(lib: &GdsLibrary) -> Sexp {
    l(vec![
        a("lib"),
        of_bytes(lib.name.as_bytes()),
        of_int(lib.version as i64),
        dates(&lib.dates),
        l(vec![of_f64(lib.units.0.to_bits()), of_f64(lib.units.1.to_bits())]),
        l(lib.structs.iter().map(|s| l(vec![a("struct"), of_bytes(s.name.as_bytes()), dates(&s.dates), l(s.elems.iter().map(elem_s).collect())])).collect()),
    ])
}

// ---------- parsing
fn p_opt<T>(s: &Sexp, f: impl Fn(&Sexp) -> Option<T>) -> Option<Option<T>> {
    if s.atom() == Some("#f") {
        Some(None)
    } else {
        f(s).map(Some)
    }
}
fn p_str(s: &Sexp) -> Option<String> {
    String::from_utf8(s.bytes()?).ok()
}
fn p_pts(s: &Sexp) -> Option<Vec<GdsPoint>> {
    let v: Vec<i64> = s.list()?.iter().map(|x| x.int()).collect::<Option<_>>()?;
    if v.len() % 2 != 0 {
        return None;
    }
    Some(v.chunks(2).map(|c| GdsPoint::new(c[0] as i32, c[1] as i32)).collect())
}
fn p_strans(s: &Sexp) -> Option<GdsStrans> {
    let v = s.list()?;
    if v.len() != 6 {
        return None;
    }
    Some(GdsStrans {
        reflected: v[1].boolean()?,
        abs_mag: v[2].boolean()?,
        abs_angle: v[3].boolean()?,
        mag: p_opt(&v[4], |x| x.f64bits().map(f64::from_bits))?,
        angle: p_opt(&v[5], |x| x.f64bits().map(f64::from_bits))?,
    })
}
fn p_common(v: &[Sexp]) -> Option<(Option<GdsElemFlags>, Option<GdsPlex>, Vec<GdsProperty>)> {
    let e = p_opt(&v[0], |x| {
        let l = x.list()?;
        Some(GdsElemFlags(l[0].int()? as u8, l[1].int()? as u8))
    })?;
    let p = p_opt(&v[1], |x| Some(GdsPlex(x.int()? as i32)))?;
    let props = v[2]
        .list()?
        .iter()
        .map(|x| {
            let l = x.list()?;
            Some(GdsProperty { attr: l[0].int()? as i16, value: p_str(&l[1])? })
        })
        .collect::<Option<_>>()?;
    Some((e, p, props))
}
fn i16o(s: &Sexp) -> Option<Option<i16>> {
    p_opt(s, |x| x.int().map(|v| v as i16))
}
fn i32o(s: &Sexp) -> Option<Option<i32>> {
    p_opt(s, |x| x.int().map(|v| v as i32))
}
pub fn p_elem(s: &Sexp) -> Option<GdsElement> {
    let v = s.list()?;
    let n = v.len();
    let (elflags, plex, properties) = p_common(&v[n - 3..])?;
    Some(match v[0].atom()? {
        "boundary" => GdsElement::GdsBoundary(GdsBoundary { layer: v[1].int()? as i16, datatype: v[2].int()? as i16, xy: p_pts(&v[3])?, elflags, plex, properties }),
        "path" => GdsElement::GdsPath(GdsPath {
            layer: v[1].int()? as i16,
            datatype: v[2].int()? as i16,
            xy: p_pts(&v[3])?,
            width: i32o(&v[4])?,
            path_type: i16o(&v[5])?,
            begin_extn: i32o(&v[6])?,
            end_extn: i32o(&v[7])?,
            elflags,
            plex,
            properties,
        }),
        "sref" => GdsElement::GdsStructRef(GdsStructRef { name: p_str(&v[1])?, xy: p_pts(&v[2])?.get(0)?.clone(), strans: p_opt(&v[3], p_strans)?, elflags, plex, properties }),
        "aref" => {
            let pts = p_pts(&v[2])?;
            if pts.len() != 3 {
                return None;
            }
            GdsElement::GdsArrayRef(GdsArrayRef {
                name: p_str(&v[1])?,
                xy: [pts[0].clone(), pts[1].clone(), pts[2].clone()],
                cols: v[3].int()? as i16,
                rows: v[4].int()? as i16,
                strans: p_opt(&v[5], p_strans)?,
                elflags,
                plex,
                properties,
            })
        }
        "text" => GdsElement::GdsTextElem(GdsTextElem {
            string: p_str(&v[1])?,
            layer: v[2].int()? as i16,
            texttype: v[3].int()? as i16,
            xy: p_pts(&v[4])?.get(0)?.clone(),
            presentation: p_opt(&v[5], |x| {
                let l = x.list()?;
                Some(GdsPresentation(l[0].int()? as u8, l[1].int()? as u8))
            })?,
            path_type: i16o(&v[6])?,
            width: i32o(&v[7])?,
            strans: p_opt(&v[8], p_strans)?,
            elflags,
            plex,
            properties,
        }),
        "node" => GdsElement::GdsNode(GdsNode { layer: v[1].int()? as i16, nodetype: v[2].int()? as i16, xy: p_pts(&v[3])?, elflags, plex, properties }),
        "box" => {
            let pts = p_pts(&v[3])?;
            if pts.len() != 5 {
                return None;
            }
            GdsElement::GdsBox(GdsBox { layer: v[1].int()? as i16, boxtype: v[2].int()? as i16, xy: [pts[0].clone(), pts[1].clone(), pts[2].clone(), pts[3].clone(), pts[4].clone()], elflags, plex, properties })
        }
        _ => return None,
    })
}
fn p_dates(s: &Sexp) -> Option<GdsDateTimes> {
    let v: Vec<i16> = s.list()?.iter().map(|x| x.int().map(|v| v as i16)).collect::<Option<_>>()?;
    if v.len() != 12 {
        return None;
    }
    let mk = |o: usize| GdsDateTime { year: v[o], month: v[o + 1], day: v[o + 2], hour: v[o + 3], minute: v[o + 4], second: v[o + 5] };
    Some(GdsDateTimes { modified: mk(0), accessed: mk(6) })
}
pub fn p_lib(s: &Sexp) -> Option<GdsLibrary> {
    let v = s.list()?;
    if v.len() != 6 || v[0].atom()? != "lib" {
        return None;
    }
    let u = v[4].list()?;
    let mut lib = GdsLibrary::new(p_str(&v[1])?);
    lib.version = v[2].int()? as i16;
    lib.dates = p_dates(&v[3])?;
    lib.units = GdsUnits(f64::from_bits(u[0].f64bits()?), f64::from_bits(u[1].f64bits()?));
    for st in v[5].list()? {
        let sv = st.list()?;
        let mut s = GdsStruct::new(p_str(&sv[1])?);
        s.dates = p_dates(&sv[2])?;
        s.elems = sv[3].list()?.iter().map(p_elem).collect::<Option<_>>()?;
        lib.structs.push(s);
    }
    Some(lib)
}

pub fn write_bytes(lib: &GdsLibrary) -> Result<Vec<u8>, ()> {
    let mut buf: Vec<u8> = Vec::new();
    match lib.write(&mut buf) {
        Ok(()) => Ok(buf),
        Err(_) => Err(()),
    }
}
/// a destination that, like a pipe or a compressing encoder, takes at most `k` bytes per `write` call
pub struct ChunkySink { pub buf: Vec<u8>, pub k: usize }
impl std::io::Write for ChunkySink {
    fn write(&mut self, b: &[u8]) -> std::io::Result<usize> {
        let n = b.len().min(self.k);
        self.buf.extend_from_slice(&b[..n]);
        Ok(n)
    }
    fn flush(&mut self) -> std::io::Result<()> { Ok(()) }
}
/// `GdsLibrary::write` into a sink that accepts `k` bytes per call
pub fn write_bytes_chunky(lib: &GdsLibrary, k: usize) -> Result<Vec<u8>, ()> {
    let mut sink = ChunkySink { buf: Vec::new(), k };
    match lib.write(&mut sink) {
        Ok(()) => Ok(sink.buf),
        Err(_) => Err(()),
    }
}
/// a destination that fails (device full, broken pipe) once `limit` bytes have been delivered
pub struct FaultySink { pub buf: Vec<u8>, pub limit: usize }
impl std::io::Write for FaultySink {
    fn write(&mut self, b: &[u8]) -> std::io::Result<usize> {
        let room = self.limit.saturating_sub(self.buf.len());
        if room == 0 && !b.is_empty() {
            return Err(std::io::Error::new(std::io::ErrorKind::Other, "no space left on device"));
        }
        let n = b.len().min(room);
        self.buf.extend_from_slice(&b[..n]);
        Ok(n)
    }
    fn flush(&mut self) -> std::io::Result<()> { Ok(()) }
}
/// `GdsLibrary::write` into a destination that fails after `limit` bytes: (what `write` returned, what arrived)
pub fn write_bytes_faulty(lib: &GdsLibrary, limit: usize) -> (bool, Vec<u8>) {
    let mut sink = FaultySink { buf: Vec::new(), limit };
    let ok = lib.write(&mut sink).is_ok();
    (ok, sink.buf)
}
pub fn op_write(args: &[Sexp]) -> String {
    let lib = match args.get(0).and_then(p_lib) {
        Some(l) => l,
        None => return "bad-op".into(),
    };
    match write_bytes(&lib) {
        Ok(b) => format!("ok {}", of_bytes(&b)),
        Err(_) => "err".into(),
    }
}
/// `gds.open x<bytes>`: the same stream through a FILE — `GdsLibrary::open(path)` — must give what
/// `from_bytes` gives (files are read through a different source type, in blocks)
pub fn op_open(args: &[Sexp]) -> String {
    let bytes = match args.get(0).and_then(|b| b.bytes()) { Some(b) => b, None => return "bad-op".into() };
    let path = std::env::temp_dir().join(format!("l21h-open-{}.gds", std::process::id()));
    if std::fs::write(&path, &bytes).is_err() { return "bad-op".into(); }
    let r = GdsLibrary::open(&path);
    let _ = std::fs::remove_file(&path);
    match r {
        Ok(lib) => format!("ok {}", lib_s(&lib)),
        Err(_) => "err".into(),
    }
}
pub fn op_read(args: &[Sexp]) -> String {
    let bytes = match args.get(0).and_then(|b| b.bytes()) {
        Some(b) => b,
        None => return "bad-op".into(),
    };
    match GdsLibrary::from_bytes(&bytes) {
        Ok(lib) => format!("ok {}", lib_s(&lib)),
        Err(_) => "err".into(),
    }
}
