//! splitmix64: every random choice in the harness derives from one of these.
#[derive(Clone)]
pub struct Rng(pub u64);
impl Rng {
    pub fn new(seed: u64) -> Self {
        Rng(seed ^ 0x9E37_79B9_7F4A_7C15)
    }
    pub fn next(&mut self) -> u64 {
        self.0 = self.0.wrapping_add(0x9E37_79B9_7F4A_7C15);
        let mut z = self.0;
        z = (z ^ (z >> 30)).wrapping_mul(0xBF58_476D_1CE4_E5B9);
        z = (z ^ (z >> 27)).wrapping_mul(0x94D0_49BB_1331_11EB);
        z ^ (z >> 31)
    }
    pub fn below(&mut self, n: u64) -> u64 {
        if n == 0 {
            0
        } else {
            self.next() % n
        }
    }
    pub fn range(&mut self, lo: i64, hi: i64) -> i64 {
        // inclusive
        lo + self.below((hi - lo + 1) as u64) as i64
    }
    pub fn coin(&mut self) -> bool {
        self.next() & 1 == 1
    }
    pub fn chance(&mut self, num: u64, den: u64) -> bool {
        self.below(den) < num
    }
    pub fn pick<'a, T>(&mut self, xs: &'a [T]) -> &'a T {
        &xs[self.below(xs.len() as u64) as usize]
    }
    pub fn fork(&mut self) -> Rng {
        Rng(self.next())
    }
}

/// CPU time consumed by the calling thread, in milliseconds (clock ticks from /proc/thread-self/stat); `None` where /proc
/// is not available. Time bounds are judged on this, so that a loaded machine does not look like a slow reader.
pub fn thread_cpu_ms() -> Option<u128> {
    let st = std::fs::read_to_string("/proc/thread-self/stat").ok()?;
    let rest = &st[st.rfind(')')? + 1..];
    let f: Vec<&str> = rest.split_whitespace().collect();
    let (ut, stt): (u128, u128) = (f.get(11)?.parse().ok()?, f.get(12)?.parse().ok()?);
    Some((ut + stt) * 10)
}
