//! Operations of the line protocol, executed on the real Layout21 code.
use crate::sexp::*;
use std::panic::{catch_unwind, AssertUnwindSafe};

pub fn run_line(line: &str) -> String {
    let parsed = match Sexp::parse_all(line) {
        Some(p) if !p.is_empty() => p,
        _ => return "bad-op".into(),
    };
    let op = match parsed[0].atom() {
        Some(o) => o.to_string(),
        None => return "bad-op".into(),
    };
    let args = &parsed[1..];
    match catch_unwind(AssertUnwindSafe(|| dispatch(&op, args))) {
        Ok(s) => s,
        Err(_) => "panic".into(),
    }
}

fn dispatch(op: &str, args: &[Sexp]) -> String {
    match op {
        "f.enc" => crate::props::c15::op_enc(args),
        "f.dec" => crate::props::c15::op_dec(args),
        "f.decenc" => crate::props::c15::op_decenc(args),
        "gds.write" => crate::gdsio::op_write(args),
        "gds.read" | "gds.c03" => crate::gdsio::op_read(args),
        "gds.open" => crate::gdsio::op_open(args),
        "lefraw.import" => crate::props::c16::op_import(args),
        "rawproto.export" => crate::props::c14::op_export(args),
        "rawproto.seq" => crate::props::c14::op_seq(args),
        "rawproto.import" => crate::props::c14::op_import(args),
        "rawgds.export" => crate::props::c0607::op_export(args),
        "gdsraw.import" => crate::props::c0607::op_import(args),
        "gdsraw.flat" => crate::props::c0607::op_flat(args),
        "place" => crate::props::c09::op_place(args, false),
        "place.retry" => crate::props::c09::op_place(args, true),
        "place.array" => crate::props::c09::op_array(args),
        "c20.abs2gds" => crate::props::c20::op_abs2gds(args),
        "c20.abs2lef" => crate::props::c20::op_abs2lef(args),
        "c20.purphist" => crate::props::c20::op_purphist(args),
        "c20.dup" => crate::props::c20::op_dup(args),
        "c20.lefrt" => crate::props::c20::op_lefrt(args),
        "serde.gds" => crate::props::c18::op_gds(args),
        "serde.gdsbytes" => crate::props::c18::op_gdsbytes(args),
        "serde.lef" => crate::props::c18::op_lef(args),
        "serde.leflib" => crate::props::c18::op_leflib(args),
        "serde.lefspecial" => crate::props::c18::op_lefspecial(args),
        "lef.lex" => crate::props::lef::op_lex(args),
        "lef.open" => crate::props::lef::op_open(args),
        "lef.wfail" => crate::props::lef::op_wfail(args),
        "lef.states" => crate::props::lef::op_states(args),
        "lef.enum" => crate::props::lef::op_enum(args),
        "lef.dbu" => crate::props::lef::op_dbu(args),
        "lef.wtokens" => crate::props::lef::op_wtokens(args),
        "lef.parse" => crate::props::lef::op_parse(args),
        "lef.read" => crate::props::lef::op_read(args),
        "lef.wr" => crate::props::lef::op_wr(args),
        "lef.crash" => crate::props::lef::op_crash(args),
        "lef.big" => crate::props::lef::op_big(args),
        "tproto.export" => crate::props::c19::op_export(args),
        "tproto.import" => crate::props::c19::op_import(args),
        "tproto.rt" => crate::props::c19::op_rt(args),
        "tetris.compile" => crate::props::c08::op_compile(args),
        "tf.apply" => crate::props::c12::op_apply(args),
        "tf.general" => crate::props::c12::op_general(args),
        "tf.gchain" => crate::props::c12::op_gchain(args),
        "raw.gflatten" => crate::props::c12::op_gflatten(args),
        "raw.flatten" => crate::props::c12::op_flatten(args),
        "geom.contains" => crate::props::c13::op_contains(args),
        "dep.tolerant" => crate::props::c17::op_tolerant(args),
        "dep.ports" => crate::props::c17::op_ports(args),
        "layers.ops" => crate::props::layers::op_ops(args),
        "dep.generic" => crate::props::c17::op_generic(args),
        "dep.raw" => crate::props::c17::op_raw(args),
        "dep.tetris" => crate::props::c17::op_tetris(args),
        "dep.tetrisraw" => crate::props::c17::op_tetrisraw(args),
        "dep.gds" => crate::props::c17::op_gds(args),
        _ => "bad-op".into(),
    }
}
