//! l21h: correspondence / oracle harness for the Layout21 verification.
//!
//!   l21h gen <PROP> <tier> <seed>      -> case lines on stdout (corpus is prepended by the runner)
//!   l21h impl                          -> reads case lines, runs the REAL code, prints one result line each
//!   l21h oracle <PROP>                 -> reads case lines, evaluates the property itself on the real code:
//!                                         `pass` | `na` | `fail <what>` per line
//!   l21h tags <PROP>                   -> reads case lines, prints a coverage tag per line (for the histogram)
mod gdsio;
mod ops;
mod props;
mod rng;
mod sexp;

use std::io::{BufRead, Write};

fn main() {
    // Silence panic messages: panics are outcomes here, not diagnostics.
    std::panic::set_hook(Box::new(|_| {}));
    let args: Vec<String> = std::env::args().collect();
    let cmd = args.get(1).map(|s| s.as_str()).unwrap_or("");
    // Protocol lines go to the file named by L21H_OUT when set (the library under test may
    // print to stdout itself), else to stdout.
    let mut out: std::io::BufWriter<Box<dyn Write>> = match std::env::var("L21H_OUT") {
        Ok(p) => std::io::BufWriter::new(Box::new(std::fs::File::create(p).expect("L21H_OUT"))),
        Err(_) => std::io::BufWriter::new(Box::new(std::io::stdout())),
    };
    match cmd {
        "gen" => {
            let prop = &args[2];
            let tier = &args[3];
            let seed: u64 = args[4].parse().expect("seed");
            let mut cases = Vec::new();
            props::gen(prop, tier == "thorough", seed, &mut cases);
            for c in cases {
                writeln!(out, "{}", c).unwrap();
            }
        }
        "impl" | "oracle" | "tags" => {
            let prop = args.get(2).cloned().unwrap_or_default();
            let stdin = std::io::stdin();
            for line in stdin.lock().lines() {
                let line = line.unwrap();
                let t = line.trim();
                if t.is_empty() || t.starts_with('#') {
                    writeln!(out, "skip").unwrap();
                    continue;
                }
                let res = match cmd {
                    "impl" => ops::run_line(t),
                    "oracle" => props::oracle(&prop, t),
                    _ => props::tag(&prop, t),
                };
                // one answer per line, whatever text an error message carried
                let res = if res.contains('\n') || res.contains('\r') { res.replace('\n', " ").replace('\r', " ") } else { res };
                writeln!(out, "{}", res).unwrap();
            }
        }
        _ => {
            eprintln!("usage: l21h gen|impl|oracle|tags ...");
            std::process::exit(2);
        }
    }
}
