//! S-expressions for the line protocol (mirror of lean/L21/Driver/Sexp.lean)
use std::fmt;

#[derive(Clone, Debug, PartialEq, Eq)]
pub enum Sexp {
    Atom(String),
    List(Vec<Sexp>),
}
impl fmt::Display for Sexp {
    fn fmt(&self, f: &mut fmt::Formatter) -> fmt::Result {
        match self {
            Sexp::Atom(s) => write!(f, "{}", s),
            Sexp::List(xs) => {
                write!(f, "(")?;
                for (i, x) in xs.iter().enumerate() {
                    if i > 0 {
                        write!(f, " ")?;
                    }
                    write!(f, "{}", x)?;
                }
                write!(f, ")")
            }
        }
    }
}
impl Sexp {
    pub fn parse_all(s: &str) -> Option<Vec<Sexp>> {
        let mut stack: Vec<Vec<Sexp>> = vec![];
        let mut cur: Vec<Sexp> = vec![];
        let mut tok = String::new();
        let flush = |tok: &mut String, cur: &mut Vec<Sexp>| {
            if !tok.is_empty() {
                cur.push(Sexp::Atom(std::mem::take(tok)));
            }
        };
        for c in s.chars() {
            match c {
                '(' => {
                    flush(&mut tok, &mut cur);
                    stack.push(std::mem::take(&mut cur));
                }
                ')' => {
                    flush(&mut tok, &mut cur);
                    let mut parent = stack.pop()?;
                    parent.push(Sexp::List(std::mem::take(&mut cur)));
                    cur = parent;
                }
                ' ' | '\t' | '\n' | '\r' => flush(&mut tok, &mut cur),
                c => tok.push(c),
            }
        }
        flush(&mut tok, &mut cur);
        if stack.is_empty() {
            Some(cur)
        } else {
            None
        }
    }
    pub fn atom(&self) -> Option<&str> {
        match self {
            Sexp::Atom(s) => Some(s),
            _ => None,
        }
    }
    pub fn list(&self) -> Option<&[Sexp]> {
        match self {
            Sexp::List(v) => Some(v),
            _ => None,
        }
    }
    pub fn int(&self) -> Option<i64> {
        self.atom()?.parse().ok()
    }
    pub fn f64bits(&self) -> Option<u64> {
        let a = self.atom()?;
        if a.len() == 17 && a.starts_with('f') {
            u64::from_str_radix(&a[1..], 16).ok()
        } else {
            None
        }
    }
    pub fn bytes(&self) -> Option<Vec<u8>> {
        let a = self.atom()?;
        let h = a.strip_prefix('x')?;
        if h.len() % 2 != 0 {
            return None;
        }
        (0..h.len() / 2).map(|i| u8::from_str_radix(&h[2 * i..2 * i + 2], 16).ok()).collect()
    }
    pub fn boolean(&self) -> Option<bool> {
        match self.atom()? {
            "#t" => Some(true),
            "#f" => Some(false),
            _ => None,
        }
    }
}
pub fn a(s: impl Into<String>) -> Sexp {
    Sexp::Atom(s.into())
}
pub fn l(v: Vec<Sexp>) -> Sexp {
    Sexp::List(v)
}
pub fn of_int(i: i64) -> Sexp {
    Sexp::Atom(i.to_string())
}
pub fn of_f64(b: u64) -> Sexp {
    Sexp::Atom(format!("f{:016x}", b))
}
pub fn of_bool(b: bool) -> Sexp {
    Sexp::Atom(if b { "#t" } else { "#f" }.into())
}
pub fn of_bytes(bs: &[u8]) -> Sexp {
    let mut s = String::with_capacity(1 + 2 * bs.len());
    s.push('x');
    for b in bs {
        s.push_str(&format!("{:02x}", b));
    }
    Sexp::Atom(s)
}
