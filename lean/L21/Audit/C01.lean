import L21.Proofs.GdsBytes
import L21.Props.C01
import L21.Props.C01L
import L21.Props.C15
#print axioms L21.Gds.c01_reader_accepts_writer_rows
#print axioms L21.Gds.c01_read_table_unambiguous
#print axioms L21.Gds.c01_string_written_iff
#print axioms L21.Gds.c01_string_roundtrip
#print axioms L21.Gds.c01_record_too_long
#print axioms L21.Gds.c01_total
#print axioms L21.GdsFloat.c15_decode_encode
#print axioms L21.Gds.c01_tree_roundtrip
#print axioms L21.Gds.c01_roundtrip
#print axioms L21.Gds.readRecord_encRecord
#print axioms L21.Gds.c01_lazy_reader_is_model
#print axioms L21.Gds.c01_roundtrip_lazy
