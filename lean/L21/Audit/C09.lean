import L21.Props.C09
import L21.Props.C17Sorted
#print axioms L21.Place.c09_touch
#print axioms L21.Place.c09_ref_reflection
#print axioms L21.Place.c09_all_abs
#print axioms L21.Place.c09_cycle
#print axioms L21.Place.c09_depends_only_on_reference
#print axioms L21.Place.c09_array_count
#print axioms L21.Place.c09_array
#print axioms L21.Place.c09_array_nested
#print axioms L21.Place.c09_mirror_involutive
#print axioms L21.Place.c09_result_intrinsic
#print axioms L21.Place.Placed_unique
#print axioms L21.Place.c09_order_indep
#print axioms L21.Place.c09_listing_indep
#print axioms L21.Place.c09_sorted_program_in_listing_order
