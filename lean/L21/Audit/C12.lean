import L21.Props.C12
#print axioms L21.Aff.c12_from_instance
#print axioms L21.Aff.c12_from_instance_apply
#print axioms L21.Aff.c12_cascade_apply
#print axioms L21.Aff.c12_cascade_assoc
#print axioms L21.Aff.c12_det_instance
#print axioms L21.Aff.c12_det_cascade
#print axioms L21.Aff.c12_isometry
#print axioms L21.Aff.c12_flatten
