import L21.Props.C18
#print axioms L21.Serde.c18_field_roundtrip
#print axioms L21.Serde.c18_gds_schema
#print axioms L21.Serde.c18_lef_schema_partial
#print axioms L21.Serde.c18_lef_known_lossy
#print axioms L21.Serde.c18_bool_skip_always_loses
#print axioms L21.Serde.c18_option_unit_loses
