import L21.Props.C15
#print axioms L21.GdsFloat.c15_encode_total
#print axioms L21.GdsFloat.c15_decode_encode
#print axioms L21.GdsFloat.c15_encode_normalised
#print axioms L21.GdsFloat.c15_encode_exact
#print axioms L21.GdsFloat.c15_encode_rejects
#print axioms L21.GdsFloat.rne_nearest
#print axioms L21.GdsFloat.c15_decode_rounds
#print axioms L21.GdsFloat.c15_encode_decode
#print axioms L21.GdsFloat.c15_zero
