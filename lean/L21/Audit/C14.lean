import L21.Props.C14
import L21.Props.C14Conv
import L21.Props.C14Idem
import L21.Props.C14Lib
import L21.Props.C14RT
import L21.Props.C17Sorted
#print axioms L21.RawProto.c14_rect_roundtrip
#print axioms L21.RawProto.c14_rect_second_trip
#print axioms L21.RawProto.c14_rect_same_region
#print axioms L21.RawProto.c14_net_roundtrip
#print axioms L21.RawProto.c14_path_roundtrip
#print axioms L21.RawProto.c14_export_order
#print axioms L21.RawProto.c14_cycle_is_error
#print axioms L21.RawProto.c14_pico_is_error
#print axioms L21.RawProto.c14_undefined_reference
#print axioms L21.RawProto.c14_missing_fields
#print axioms L21.RawProto.c14_layerless_shapes
#print axioms L21.RawProto.c14_elements_roundtrip
#print axioms L21.RawProto.c14_layout_roundtrip
#print axioms L21.RawProto.c14_proto_layout_roundtrip
#print axioms L21.RawProto.c14_library
#print axioms L21.RawProto.c14_abstract
#print axioms L21.RawProto.c14_converse_fails_on_second_purpose_number
#print axioms L21.RawProto.c14_converse_no_exporter
#print axioms L21.RawProto.c14_reexport_keeps_cell_order
#print axioms L21.RawProto.c14_message_roundtrip_layouts
#print axioms L21.RawProto.groupElems_canon
#print axioms L21.RawProto.c14_regroup_idempotent
#print axioms L21.RawProto.c14_export_fixed_point
#print axioms L21.RawProto.c14_exported_layout_canon
#print axioms L21.RawProto.c14_library_export_fixed_point
#print axioms L21.RawProto.c14_abstract_groups_canon
#print axioms L21.RawProto.c14_norm_idempotent
