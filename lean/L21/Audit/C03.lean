import L21.Props.C01
import L21.Props.C01L
import L21.Props.C02
import L21.Props.C03
import L21.Props.C10
#print axioms L21.Gds.c03_trailing
#print axioms L21.Gds.c03_unsupported
#print axioms L21.Gds.readRecord_append
#print axioms L21.Gds.c01_reader_accepts_writer_rows
#print axioms L21.Gds.c01_string_roundtrip
#print axioms L21.Gds.c01_tree_roundtrip
#print axioms L21.Gds.c01_roundtrip
#print axioms L21.Gds.c02_grammar
#print axioms L21.Gds.c10_parser_fuel
#print axioms L21.Gds.c01_lazy_reader_is_model
#print axioms L21.Gds.c03_trailing_lazy
