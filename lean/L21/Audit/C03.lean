import L21.Props.C01
import L21.Props.C03
#print axioms L21.Gds.c03_trailing
#print axioms L21.Gds.c03_unsupported
#print axioms L21.Gds.readRecord_append
#print axioms L21.Gds.c01_reader_accepts_writer_rows
#print axioms L21.Gds.c01_string_roundtrip
