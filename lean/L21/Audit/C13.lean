import L21.Props.C13
#print axioms L21.Geom.c13_rect
#print axioms L21.Geom.c13_poly
#print axioms L21.Geom.c13_poly_boundary
#print axioms L21.Geom.c13_poly_vertex
#print axioms L21.Geom.c13_poly_far
#print axioms L21.Geom.c13_path
