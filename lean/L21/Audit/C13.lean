import L21.Props.C13
import L21.Props.C13Inv
import L21.Props.C13Rect
#print axioms L21.Geom.c13_rect
#print axioms L21.Geom.c13_poly
#print axioms L21.Geom.c13_poly_boundary
#print axioms L21.Geom.c13_poly_vertex
#print axioms L21.Geom.c13_poly_far
#print axioms L21.Geom.c13_path
#print axioms L21.Geom.c13_start_vertex
#print axioms L21.Geom.c13_orientation
#print axioms L21.Geom.c13_repeated_vertex
#print axioms L21.Geom.c13_collinear_vertex
#print axioms L21.Geom.c13_collinear_vertex_closing
#print axioms L21.Geom.c13_rect_as_polygon
