import L21.Props.C20
import L21.Props.C20K
#print axioms L21.Determ.c20_pi_independent
#print axioms L21.Determ.c20_sorted
#print axioms L21.Determ.c20_same_entries
#print axioms L21.Determ.c20_sites_covered
#print axioms L21.Determ.c20_sorted_key_independent
#print axioms L21.Determ.c20_number_only_is_order_dependent
#print axioms L21.RawProto.c20_export_abstract_order_free
