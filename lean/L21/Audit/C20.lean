import L21.Props.C20
import L21.Props.C20K
import L21.Props.C20L
import L21.Props.NumConsts
#print axioms L21.Determ.c20_pi_independent
#print axioms L21.Determ.c20_sorted
#print axioms L21.Determ.c20_same_entries
#print axioms L21.Determ.c20_sites_covered
#print axioms L21.Determ.c20_sorted_key_independent
#print axioms L21.Determ.c20_number_only_is_order_dependent
#print axioms L21.RawProto.c20_export_abstract_order_free
#print axioms L21.RawLef.c20_lef_abstract_order_free
#print axioms L21.RawLef.c20_lef_export_order_free
#print axioms L21.c20_lef_units_from_source
