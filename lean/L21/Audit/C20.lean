import L21.Props.C20
#print axioms L21.Determ.c20_pi_independent
#print axioms L21.Determ.c20_sorted
#print axioms L21.Determ.c20_same_entries
#print axioms L21.Determ.c20_sites_covered
