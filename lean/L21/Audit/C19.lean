import L21.Props.C17
import L21.Props.C17Sorted
import L21.Props.C19
#print axioms L21.TProto.c19_roundtrip
#print axioms L21.TProto.c19_cell_content
#print axioms L21.TProto.c19_err_no_outline
#print axioms L21.TProto.c19_err_bad_outline
#print axioms L21.TProto.c19_err_inst_no_cell
#print axioms L21.TProto.c19_err_inst_undefined
#print axioms L21.TProto.c19_err_inst_no_loc
#print axioms L21.TProto.c19_err_assign
#print axioms L21.TProto.c19_err_cross
#print axioms L21.TProto.c19_err_propagates_inst
#print axioms L21.TProto.c19_err_propagates_layout
#print axioms L21.TProto.c19_err_propagates_cell
#print axioms L21.Dep.c17_sound
#print axioms L21.TProto.c19_listed_order_is_export_order
