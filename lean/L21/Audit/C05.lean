import L21.Props.C05
import L21.Props.C11
#print axioms L21.LefEnum.c05_keyword_roundtrip
#print axioms L21.LefEnum.c05_keywords_lex_as_one_name
#print axioms L21.LefLex.c11_lex_total
