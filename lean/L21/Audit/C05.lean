import L21.Props.C05
import L21.Props.C05RT
import L21.Props.C11
#print axioms L21.Lef.c05_read_write_read_partial
#print axioms L21.Lef.c05_read_write_read_noext
#print axioms L21.Lef.c05_reader_image_writable
#print axioms L21.Lef.c05_write_read_tokens
#print axioms L21.Lef.c05_macro_write_read
#print axioms L21.Lef.c05_decimal_text_roundtrip
#print axioms L21.Lef.c05_decOk_of_wf
#print axioms L21.Lef.c05_writer_gate_matches_reader
#print axioms L21.LefEnum.c05_keyword_roundtrip
#print axioms L21.LefEnum.c05_keywords_lex_as_one_name
#print axioms L21.LefLex.c11_lex_total
#print axioms L21.Lef.c05_write_read_text
#print axioms L21.Lef.c05_ext_relex
