import L21.Props.C01L
import L21.Props.C10
#print axioms L21.Gds.c10_read_rows_safe
#print axioms L21.Gds.c10_progress
#print axioms L21.Gds.tokenize_fuel_mono
#print axioms L21.Gds.c10_needs_endlib
#print axioms L21.Gds.c10_total
#print axioms L21.Gds.c10_parser_fuel
#print axioms L21.Gds.c10_rewritable
#print axioms L21.Gds.c10_reencodable_partial
#print axioms L21.Gds.c01_lazy_reader_is_model
#print axioms L21.Gds.c10_needs_endlib_lazy
