import L21.Props.C16
import L21.Props.LayersT
import L21.Props.NumConsts
#print axioms L21.LefRaw.c16_exact
#print axioms L21.LefRaw.c16_not_rounded
#print axioms L21.LefRaw.c16_scale_invariant
#print axioms L21.LefRaw.c16_point_xy
#print axioms L21.LefRaw.c16_outline
#print axioms L21.LefRaw.c16_one_shape_per_geometry
#print axioms L21.LefRaw.c16_rect_coords
#print axioms L21.LefRaw.c16_layer_blocks
#print axioms L21.c16_dist_scale_is_source
#print axioms L21.Layers.import_by_name_fidelity
#print axioms L21.Layers.import_names_history
#print axioms L21.c16_import_layer_calls
