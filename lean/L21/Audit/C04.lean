import L21.Props.C04
import L21.Props.C04D
import L21.Props.C04L
import L21.Props.C04Order
import L21.Props.C04OrderLib
import L21.Props.C04OrderSub
import L21.Props.C05RT
import L21.Props.C11
import L21.Props.NumConsts
#print axioms L21.LefEnum.c04_enum_strings_canonical
#print axioms L21.LefEnum.c04_enum_no_shadowing
#print axioms L21.LefEnum.c04_case_insensitive
#print axioms L21.LefEnum.c04_dbu
#print axioms L21.LefEnum.c04_dbu_only_legal
#print axioms L21.LefLex.c11_tokens_are_substrings
#print axioms L21.Lef.c05_write_read_tokens
#print axioms L21.Lef.c05_decimal_text_roundtrip
#print axioms L21.Lef.c04_decimal_every_spelling
#print axioms L21.Lef.c04_trailing_zeros
#print axioms L21.Lef.c04_leading_zeros
#print axioms L21.Lef.c04_layout_tokens
#print axioms L21.Lef.c04_layout_independent
#print axioms L21.Lef.c04_parse_layout
#print axioms L21.Lef.c04_pin_any_order
#print axioms L21.Lef.c04_macro_any_order
#print axioms L21.Lef.c04_pin_reads_back
#print axioms L21.Lef.c04_macro_reads_back
#print axioms L21.Lef.c04_macro_order_free
#print axioms L21.Lef.rendersM_canon
#print axioms L21.Lef.c04_lib_any_order
#print axioms L21.Lef.c04_lib_any_order_noend
#print axioms L21.Lef.runL_fixed
#print axioms L21.Lef.c04_lib_reads_back
#print axioms L21.Lef.c04_units_any_order
#print axioms L21.c04_dbu_table_is_source
#print axioms L21.Lef.c04_site_any_order
#print axioms L21.Lef.c04_genvia_any_order
#print axioms L21.Lef.c04_text_any_order
#print axioms L21.Lef.c04_text_reads_back
#print axioms L21.Lef.wMacroToks_is_rendering
