import L21.Props.C02
#print axioms L21.Gds.c02_numbering
#print axioms L21.Gds.c02_datatypes
#print axioms L21.Gds.c02_table_pairs
#print axioms L21.Gds.c02_table_layouts
#print axioms L21.Gds.c02_framing_record
#print axioms L21.Gds.c02_framing
#print axioms L21.Gds.c02_ends_with_endlib
#print axioms L21.Gds.c02_grammar
