import L21.Props.C17
import L21.Props.C17Sorted
#print axioms L21.Dep.c17_sound
#print axioms L21.Dep.c17_cycle_error
#print axioms L21.Dep.c17_depth
#print axioms L21.Dep.c17_error_means_cycle
#print axioms L21.Dep.c17_total
#print axioms L21.Dep.c17_acyclic_ok
#print axioms L21.Dep.c17_listing
#print axioms L21.Dep.c17_error_cycle_reachable
#print axioms L21.Dep.c17_error_iff
#print axioms L21.Dep.c17_sorted_listing_is_kept
#print axioms L21.Dep.c17_range_sorted
