import L21.Proofs.Tetris
import L21.Props.C08
#print axioms L21.Tetris.c08_track_positions
#print axioms L21.Tetris.c08_period_tiles
#print axioms L21.Tetris.c08_no_unrequested_gap
#print axioms L21.Tetris.c08_blocks_present
#print axioms L21.Tetris.c08_cuts_present
#print axioms L21.Tetris.c08_vias
#print axioms L21.Tetris.c08_via_centred
#print axioms L21.Tetris.c08_nets
#print axioms L21.Tetris.setNet_effect
#print axioms L21.Tetris.trackElems_mem
#print axioms L21.Tetris.c08_elems
#print axioms L21.Tetris.c08_compile_layers
