import L21.Props.C07
import L21.Props.C07Lib
import L21.Props.C07RT
import L21.Props.LayersT
#print axioms L21.RawGds.c07_path_open
#print axioms L21.RawGds.c07_path_roundtrip
#print axioms L21.RawGds.c07_rect_roundtrip
#print axioms L21.RawGds.c07_units
#print axioms L21.RawGds.c07_orientation_roundtrip
#print axioms L21.RawGds.c07_label_inside_rect
#print axioms L21.RawGds.c07_label_inside_polygon
#print axioms L21.RawGds.c07_label_inside_path
#print axioms L21.RawGds.c07_cell_roundtrip
#print axioms L21.RawGds.c07_cell_roundtrip_nonets
#print axioms L21.RawGds.c07_label_names_one
#print axioms L21.RawGds.c07_library
#print axioms L21.Layers.layer_num_after_history
#print axioms L21.Layers.layer_num_never_forgets
#print axioms L21.Layers.get_or_insert_fidelity
#print axioms L21.Layers.get_or_insert_history
#print axioms L21.Layers.import_history_numbers
