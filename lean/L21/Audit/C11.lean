import L21.Props.C11
import L21.Props.C11P
import L21.Props.C11S
#print axioms L21.LefLex.c11_tokens_are_substrings
#print axioms L21.LefLex.c11_token_bounds
#print axioms L21.LefLex.c11_lex_total
#print axioms L21.Lef.c11_fuel_never_exhausted
#print axioms L21.Lef.c11_inner_loops_fuel
#print axioms L21.Lef.c11_every_construct_consumes
#print axioms L21.Lef.c11_parse_total
#print axioms L21.LefLex.c11_state_lexer_same_tokens
#print axioms L21.LefLex.c11_linestart_is_boundary
#print axioms L21.LefLex.c11_error_report_never_panics
#print axioms L21.LefLex.c11_reports_total
#print axioms L21.LefLex.c11_error_line_bounded
