import L21.Props.C11
#print axioms L21.LefLex.c11_tokens_are_substrings
#print axioms L21.LefLex.c11_token_bounds
#print axioms L21.LefLex.c11_lex_total
