import L21.Props.C06
import L21.Props.C06F
import L21.Props.C06S
import L21.Props.C12
import L21.Props.C17
import L21.Props.LayersT
#print axioms L21.RawGds.c06_array_count
#print axioms L21.RawGds.c06_array_positions
#print axioms L21.RawGds.c06_array_only_lattice
#print axioms L21.RawGds.c06_rect_ccw
#print axioms L21.RawGds.c06_rect_cw
#print axioms L21.RawGds.c06_empty_xy
#print axioms L21.RawGds.c06_zero_array
#print axioms L21.RawGds.c06_dangling_sref
#print axioms L21.RawGds.c06_abs_flags
#print axioms L21.RawGds.c06_path_width
#print axioms L21.Aff.c12_flatten
#print axioms L21.Dep.c17_cycle_error
#print axioms L21.RawGds.c06_struct_pass1
#print axioms L21.RawGds.c06_struct_error
#print axioms L21.RawGds.c06_label_rule
#print axioms L21.RawGds.c06_label_keeps_shapes
#print axioms L21.RawGds.c06_flatten
#print axioms L21.RawGds.c06_flatten_placed
#print axioms L21.RawGds.c06_classify_keeps
#print axioms L21.RawGds.demo_import
#print axioms L21.Layers.import_history_numbers
