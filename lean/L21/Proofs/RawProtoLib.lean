import L21.Props.C14RT
/-
C14 — abstracts (per-layer shape maps), the cell list and the whole library through the schema and
back; the exporter's dependency order provides what the importer's name resolution needs.
-/
namespace L21.RawProto
open L21.Geom

/-- the order in which a layer's shapes come back: rectangles, then polygons, then paths (each kind in
    its original order), rectangles with corners named (min,min)/(max,max) -/
def isRect : Shape → Bool | .rect _ _ => true | _ => false
def isPoly : Shape → Bool | .polygon _ => true | _ => false
def isPath : Shape → Bool | .path _ _ => true | _ => false
def kindSort (ss : List Shape) : List Shape :=
  (ss.filter isRect ++ ss.filter isPoly ++ ss.filter isPath).map normShape

/-- what folding `addShape` with an empty net over a shape list does to a group -/
theorem foldl_addShape (ss : List Shape) : ∀ (g : LayerShapes),
    (rectsOf (ss.foldl (fun acc s => addShape acc [] s) g).rects ++ polysOf (ss.foldl (fun acc s => addShape acc [] s) g).polys ++
      pathsOf (ss.foldl (fun acc s => addShape acc [] s) g).paths).map (·.2) =
    (rectsOf g.rects).map (·.2) ++ (ss.filter isRect).map normShape ++
      ((polysOf g.polys).map (·.2) ++ (ss.filter isPoly).map normShape) ++
      ((pathsOf g.paths).map (·.2) ++ (ss.filter isPath).map normShape) := by
  induction ss with
  | nil => intro g; simp
  | cons s rest ih =>
    intro g
    simp only [List.foldl_cons]
    rw [ih]
    cases s with
    | rect p0 p1 =>
      have e1 : min p0.x p1.x + (max p0.x p1.x - min p0.x p1.x) = max p0.x p1.x := by omega
      have e2 : min p0.y p1.y + (max p0.y p1.y - min p0.y p1.y) = max p0.y p1.y := by omega
      simp [addShape, rectsOf, exportRect, isRect, isPoly, isPath, normShape, e1, e2, List.filter_cons]
    | polygon pts => simp [addShape, polysOf, isRect, isPoly, isPath, normShape, List.filter_cons]
    | path pts w => simp [addShape, pathsOf, isRect, isPoly, isPath, normShape, List.filter_cons]


theorem shapesOf_ok (k : Int × Int) (ss : List Shape) (hk : inI16 k.1 = true ∧ inI16 k.2 = true) :
    groupOk (shapesOf k ss) = true ∧ (shapesOf k ss).layer = some k := by
  unfold shapesOf
  have gen : ∀ (l : List Shape) (g : LayerShapes), groupOk g = true → g.layer = some k →
      groupOk (l.foldl (fun acc s => addShape acc [] s) g) = true ∧ (l.foldl (fun acc s => addShape acc [] s) g).layer = some k := by
    intro l
    induction l with
    | nil => intro g h1 h2; exact ⟨h1, h2⟩
    | cons s r ih => intro g h1 h2; exact ih _ (addShape_ok g [] s h1) (by rw [addShape_layer]; exact h2)
  exact gen ss _ (by simp [groupOk, hk.1, hk.2]) rfl

/-- one layer of an abstract through the schema and back: the same shapes, grouped by kind -/
theorem import_shapesOf (k : Int × Int) (ss : List Shape) (hk : inI16 k.1 = true ∧ inI16 k.2 = true) :
    ∃ out, importLayerShapes (shapesOf k ss) = .ok (k, out) ∧ out.map (·.2) = kindSort ss := by
  obtain ⟨hok, hl⟩ := shapesOf_ok k ss hk
  simp only [groupOk, Bool.and_eq_true] at hok
  obtain ⟨⟨_, hr⟩, hp⟩ := hok
  refine ⟨rectsOf (shapesOf k ss).rects ++ polysOf (shapesOf k ss).polys ++ pathsOf (shapesOf k ss).paths, ?_, ?_⟩
  · obtain ⟨ln, pn⟩ := k
    simp only [importLayerShapes, hl, hk.1, hk.2, Bool.and_self, Bool.not_true, Bool.false_eq_true, if_false,
      importRects_ok _ hr, importPaths_ok _ hp, polysOf]
  · have := foldl_addShape ss ⟨some k, [], [], []⟩
    simp only [shapesOf]
    rw [this]
    simp [rectsOf, polysOf, pathsOf, kindSort]

theorem mapInsert_last : ∀ (m : List (Int × List Shape)) (k : Int) (v : List Shape), (∀ e ∈ m, e.1 < k) →
    mapInsert m k v = m ++ [(k, v)] := by
  intro m
  induction m with
  | nil => intro k v _; rfl
  | cons e r ih =>
    intro k v h
    obtain ⟨k', v'⟩ := e
    have hlt : k' < k := h (k', v') (by simp)
    have h1 : ¬ k = k' := by omega
    have h2 : ¬ k < k' := by omega
    simp only [mapInsert, h1, h2, if_false, List.cons_append]
    rw [ih k v (fun x hx => h x (by simp [hx]))]

/-- strictly ascending keys -/
def sortedKeys : List (Int × List Shape) → Bool
  | [] => true
  | [_] => true
  | a :: b :: rest => decide (a.1 < b.1) && sortedKeys (b :: rest)

theorem sortedKeys_tail (a : Int × List Shape) (r : List (Int × List Shape)) (h : sortedKeys (a :: r) = true) :
    sortedKeys r = true ∧ ∀ e ∈ r, a.1 < e.1 := by
  induction r generalizing a with
  | nil => exact ⟨rfl, by intro e he; cases he⟩
  | cons b rest ih =>
    simp only [sortedKeys, Bool.and_eq_true, decide_eq_true_eq] at h
    obtain ⟨hab, hs⟩ := h
    obtain ⟨_, hall⟩ := ih b hs
    refine ⟨hs, ?_⟩
    intro e he
    rcases List.mem_cons.1 he with rfl | he
    · exact hab
    · have := hall e he; omega

/-- the layer rows of the table give every layer of the map an in-range purpose number -/
def mapOk (tbl : LayerTbl) (pin : Bool) (m : List (Int × List Shape)) : Bool :=
  m.all (fun e => inI16 e.1 && (match tbl.find? (fun r => r.1 == e.1) with
    | some row => (match (if pin then row.2.1 else row.2.2) with | some pn => inI16 pn | none => false)
    | none => false))

/-- **a per-layer shape map of an abstract through the schema and back**: same layers in the same
    order; per layer the same shapes, grouped by kind -/
theorem layerMap_roundtrip (tbl : LayerTbl) (pin : Bool) : ∀ (m acc : List (Int × List Shape)) (gs : List LayerShapes),
    exportLayerMap tbl pin m = .ok gs → mapOk tbl pin m = true → sortedKeys m = true →
    (∀ e ∈ acc, ∀ x ∈ m, e.1 < x.1) →
    importLayerMap acc gs = .ok (acc ++ m.map (fun e => (e.1, kindSort e.2))) := by
  intro m
  induction m with
  | nil => intro acc gs h _ _ _; simp only [exportLayerMap, Out.ok.injEq] at h; subst h; simp [importLayerMap]
  | cons e rest ih =>
    intro acc gs h hok hs hacc
    obtain ⟨ln, ss⟩ := e
    simp only [mapOk, List.all_cons, Bool.and_eq_true] at hok
    obtain ⟨⟨hln, hrow⟩, hrest⟩ := hok
    simp only [exportLayerMap] at h
    cases hf : tbl.find? (fun r => r.1 == ln) with
    | none => simp [hf] at h
    | some row =>
      simp only [hf] at h hrow
      cases hp : (if pin then row.2.1 else row.2.2) with
      | none => simp [hp] at hrow
      | some pn =>
        simp only [hp] at h hrow
        cases hr : exportLayerMap tbl pin rest with
        | err => simp [hr] at h
        | ok more =>
          simp only [hr, Out.ok.injEq] at h
          subst h
          obtain ⟨out, hi, ho⟩ := import_shapesOf (ln, pn) ss ⟨hln, hrow⟩
          obtain ⟨hs', hgt⟩ := sortedKeys_tail (ln, ss) rest hs
          simp only [importLayerMap, hi]
          rw [mapInsert_last acc ln _ (fun x hx => hacc x hx (ln, ss) (by simp)), ho]
          rw [ih (acc ++ [(ln, kindSort ss)]) more hr (by simpa [mapOk] using hrest) hs' (by
            intro x hx y hy
            rcases List.mem_append.1 hx with h1 | h1
            · exact hacc x h1 y (by simp [hy])
            · simp only [List.mem_singleton] at h1; subst h1; exact hgt y hy)]
          simp


def normMap (m : List (Int × List Shape)) : List (Int × List Shape) := m.map (fun e => (e.1, kindSort e.2))
def normAbs (a : Abstract) : Abstract :=
  { a with ports := a.ports.map (fun p => ⟨p.net, normMap p.shapes⟩), blockages := normMap a.blockages }
def absOk (tbl : LayerTbl) (a : Abstract) : Bool :=
  a.ports.all (fun p => mapOk tbl true p.shapes && sortedKeys p.shapes) && mapOk tbl false a.blockages && sortedKeys a.blockages

theorem ports_roundtrip (tbl : LayerTbl) : ∀ (ps : List Port) (pps : List PPort), exportPorts tbl ps = .ok pps →
    ps.all (fun p => mapOk tbl true p.shapes && sortedKeys p.shapes) = true →
    importPorts pps = .ok (ps.map (fun p => ⟨p.net, normMap p.shapes⟩)) := by
  intro ps
  induction ps with
  | nil => intro pps h _; simp only [exportPorts, Out.ok.injEq] at h; subst h; rfl
  | cons p rest ih =>
    intro pps h hok
    simp only [List.all_cons, Bool.and_eq_true] at hok
    obtain ⟨⟨h1, h2⟩, hrest⟩ := hok
    simp only [exportPorts] at h
    cases he : exportLayerMap tbl true p.shapes with
    | err => simp [he] at h
    | ok s =>
      cases hr : exportPorts tbl rest with
      | err => simp [he, hr] at h
      | ok more =>
        simp only [he, hr, Out.ok.injEq] at h
        subst h
        have := layerMap_roundtrip tbl true p.shapes [] s he h1 h2 (by intro e he'; cases he')
        simp only [List.nil_append] at this
        simp only [importPorts, this, ih more hr hrest, List.map_cons, normMap]

/-- **an abstract view through the schema and back**: name and outline exactly; every port with its
    net; per layer (in layer-number order) the same shapes grouped by kind -/
theorem c14_abstract_roundtrip (tbl : LayerTbl) (a : Abstract) (pa : PAbs) (h : exportAbs tbl a = .ok pa) (hok : absOk tbl a = true) :
    importAbs pa = .ok (normAbs a) := by
  simp only [absOk, Bool.and_eq_true] at hok
  obtain ⟨⟨hp, hb1⟩, hb2⟩ := hok
  simp only [exportAbs] at h
  cases he : exportPorts tbl a.ports with
  | err => simp [he] at h
  | ok ps =>
    cases hl : exportLayerMap tbl false a.blockages with
    | err => simp [he, hl] at h
    | ok bs =>
      simp only [he, hl, Out.ok.injEq] at h
      subst h
      have hb := layerMap_roundtrip tbl false a.blockages [] bs hl hb1 hb2 (by intro e he'; cases he')
      simp only [List.nil_append] at hb
      simp only [importAbs, ports_roundtrip tbl a.ports ps he hp, hb, normAbs, normMap]


/-! ### cells and the library -/
def layoutEq (l' l : Layout) : Prop :=
  l'.name = l.name ∧ l'.insts = l.insts.map normInst ∧ l'.annotations = l.annotations ∧ l'.elems.Perm (l.elems.map normElem)
def cellEq (c' c : Cell) : Prop :=
  c'.name = c.name ∧ (match c'.layout, c.layout with
    | some l', some l => layoutEq l' l
    | none, none => True
    | _, _ => False) ∧ c'.abs = c.abs.map normAbs
def cellsEq : List Cell → List Cell → Prop
  | [], [] => True
  | c' :: r', c :: r => cellEq c' c ∧ cellsEq r' r
  | _, _ => False

/-- what the exporter's order must provide, cell by cell: the cells instantiated are already known;
    plus the range conditions of the layout and abstract theorems -/
def condList (tbl : LayerTbl) : List Bytes → List Cell → Prop
  | _, [] => True
  | known, c :: rest =>
    (∀ l, c.layout = some l → (∀ i ∈ l.insts, known.contains i.cell = true) ∧ l.elems.all elemOkI = true) ∧
    (∀ a, c.abs = some a → absOk tbl a = true) ∧ condList tbl (c.name :: known) rest

theorem importCells_export (tbl : LayerTbl) : ∀ (cs : List Cell) (pcs : List PCell) (known : List Bytes),
    exportCells tbl cs = .ok pcs → condList tbl known cs → ∃ cs', importCells known pcs = .ok cs' ∧ cellsEq cs' cs := by
  intro cs
  induction cs with
  | nil => intro pcs known h _; simp only [exportCells, Out.ok.injEq] at h; subst h; exact ⟨[], rfl, trivial⟩
  | cons c rest ih =>
    intro pcs known h hc
    obtain ⟨hl, ha, hrest⟩ := hc
    simp only [exportCells] at h
    cases he : exportCell tbl c with
    | err => simp [he] at h
    | ok pc =>
      cases hr : exportCells tbl rest with
      | err => simp [he, hr] at h
      | ok more =>
        simp only [he, hr, Out.ok.injEq] at h
        subst h
        -- the exported cell
        have hpc : pc.name = c.name ∧ pc.layout = c.layout.map exportLayout ∧
            (match c.abs with | none => pc.abs = none | some a => ∃ pa, exportAbs tbl a = .ok pa ∧ pc.abs = some pa) := by
          simp only [exportCell] at he
          cases hca : c.abs with
          | none => simp only [hca, Out.ok.injEq] at he; subst he; exact ⟨rfl, rfl, rfl⟩
          | some a =>
            simp only [hca] at he
            cases hea : exportAbs tbl a with
            | err => simp [hea] at he
            | ok pa => simp only [hea, Out.ok.injEq] at he; subst he; exact ⟨rfl, rfl, pa, hea, rfl⟩
        obtain ⟨hn, hlay, habs⟩ := hpc
        obtain ⟨cs', hi, heq⟩ := ih more (c.name :: known) hr hrest
        simp only [importCells, hn, hlay, hi]
        cases hcl : c.layout with
        | none =>
          cases hca : c.abs with
          | none =>
            rw [hca] at habs; simp only at habs
            simp only [habs, Option.map_none]
            exact ⟨_, rfl, ⟨rfl, by simp [hcl], by simp [hca]⟩, heq⟩
          | some a =>
            rw [hca] at habs
            obtain ⟨pa, hea, hpa⟩ := habs
            simp only [hpa, Option.map_none, c14_abstract_roundtrip tbl a pa hea (ha a hca)]
            exact ⟨_, rfl, ⟨rfl, by simp [hcl], by simp [hca]⟩, heq⟩
        | some l =>
          obtain ⟨h1, h2⟩ := hl l hcl
          obtain ⟨es, h3, h4⟩ := c14_layout_roundtrip known l h1 h2
          cases hca : c.abs with
          | none =>
            rw [hca] at habs; simp only at habs
            simp only [habs, Option.map_some, h3]
            exact ⟨_, rfl, ⟨rfl, by simp only [hcl]; exact ⟨rfl, rfl, rfl, h4⟩, by simp [hca]⟩, heq⟩
          | some a =>
            rw [hca] at habs
            obtain ⟨pa, hea, hpa⟩ := habs
            simp only [hpa, Option.map_some, h3, c14_abstract_roundtrip tbl a pa hea (ha a hca)]
            exact ⟨_, rfl, ⟨rfl, by simp only [hcl]; exact ⟨rfl, rfl, rfl, h4⟩, by simp [hca]⟩, heq⟩


/-- **a whole library through the schema and back**: name and units exactly; the cells in the
    exporter's dependency order (C17), each with its name, its layout (instances and annotations in
    order, elements as the same multiset) and its abstract view (ports, per-layer shapes grouped by
    kind).  `hc` is what that order provides cell by cell (every instantiated cell is imported before
    its user — `c14_export_order`) plus the number-range conditions. -/
theorem c14_library_roundtrip (tbl : LayerTbl) (l : Lib) (p : PLib) (order : List Nat) (hu : l.units ≤ 3)
    (ho : Dep.order (cellAdj l.cells) (l.cells.length + 1) (List.range l.cells.length) = .ok order)
    (hp : exportLib tbl l = .ok p) (hc : condList tbl [] (order.filterMap (fun i => l.cells[i]?))) :
    ∃ cs', importLib p = .ok ⟨l.name, l.units, cs'⟩ ∧ cellsEq cs' (order.filterMap (fun i => l.cells[i]?)) := by
  simp only [exportLib] at hp
  split at hp
  · cases hp
  · rename_i hne
    rw [ho] at hp
    simp only at hp
    cases he : exportCells tbl (order.filterMap (fun i => l.cells[i]?)) with
    | err => simp [he] at hp
    | ok cs =>
      simp only [he, Out.ok.injEq] at hp
      subst hp
      obtain ⟨cs', hi, heq⟩ := importCells_export tbl _ cs [] he hc
      refine ⟨cs', ?_, heq⟩
      have h2 : ¬ ((l.units : Int) < 0 ∨ 2 < (l.units : Int)) := by omega
      simp only [importLib, h2, if_false, hi, Int.toNat_natCast]


/-- every instance names an existing cell -/
def noDangling (cells : List Cell) : Prop :=
  ∀ c ∈ cells, ∀ lay, c.layout = some lay → ∀ i ∈ lay.insts, ∃ c' ∈ cells, c'.name = i.cell
def cellRangeOk (tbl : LayerTbl) (c : Cell) : Prop :=
  (∀ lay, c.layout = some lay → lay.elems.all elemOkI = true) ∧ (∀ a, c.abs = some a → absOk tbl a = true)

theorem cellIndex_spec (cells : List Cell) (n : Bytes) (h : ∃ c' ∈ cells, c'.name = n) :
    ∃ c, cells[cellIndex cells n]? = some c ∧ c.name = n := by
  unfold cellIndex
  cases hf : cells.findIdx? (fun c => c.name == n) with
  | none =>
    rw [List.findIdx?_eq_none_iff] at hf
    obtain ⟨c', hc', hn⟩ := h
    have := hf c' hc'
    simp [hn] at this
  | some j =>
    rw [List.findIdx?_eq_some_iff_getElem] at hf
    obtain ⟨hj, hp, _⟩ := hf
    refine ⟨cells[j], by simp [hj], by simpa using hp⟩

theorem condList_of_order (tbl : LayerTbl) (cells : List Cell) (order : List Nat)
    (hord : ∀ l1 x l2, order = l1 ++ x :: l2 → ∀ d ∈ cellAdj cells x, d ∈ l1)
    (hnd : noDangling cells) (hrng : ∀ c ∈ cells, cellRangeOk tbl c) :
    ∀ (todo done : List Nat) (known : List Bytes), order = done ++ todo →
      (∀ d ∈ done, ∀ c, cells[d]? = some c → known.contains c.name = true) →
      condList tbl known (todo.filterMap (fun i => cells[i]?)) := by
  intro todo
  induction todo with
  | nil => intro done known _ _; trivial
  | cons x rest ih =>
    intro done known hsplit hinv
    have hdeps := hord done x rest hsplit
    cases hx : cells[x]? with
    | none =>
      simp only [List.filterMap_cons, hx]
      refine ih (done ++ [x]) known (by simp [hsplit]) ?_
      intro d hd c hc
      rcases List.mem_append.1 hd with h1 | h1
      · exact hinv d h1 c hc
      · simp only [List.mem_singleton] at h1; subst h1; rw [hx] at hc; cases hc
    | some c =>
      simp only [List.filterMap_cons, hx]
      have hcm : c ∈ cells := List.mem_of_getElem? hx
      refine ⟨?_, (hrng c hcm).2, ?_⟩
      · intro lay hlay
        refine ⟨?_, (hrng c hcm).1 lay hlay⟩
        intro i hi
        obtain ⟨cd, hcd, hname⟩ := cellIndex_spec cells i.cell (hnd c hcm lay hlay i hi)
        have hadj : cellIndex cells i.cell ∈ cellAdj cells x := by
          simp only [cellAdj, hx, hlay, List.mem_map]
          exact ⟨i, hi, rfl⟩
        have := hinv _ (hdeps _ hadj) cd hcd
        rw [hname] at this; exact this
      · refine ih (done ++ [x]) (c.name :: known) (by simp [hsplit]) ?_
        intro d hd c' hc'
        rcases List.mem_append.1 hd with h1 | h1
        · have := hinv d h1 c' hc'
          simp only [List.contains_cons, this, Bool.or_true]
        · simp only [List.mem_singleton] at h1; subst h1
          rw [hx] at hc'; cases hc'
          simp

/-- **C14 for a whole library, no side condition on the order**: if export succeeds, every instance
    names an existing cell and the numbers are in range, then importing the exported message returns
    the library's name and units and its cells in the exporter's dependency order, each equal to the
    original up to the stated normalisations -/
theorem c14_library_roundtrip_full (tbl : LayerTbl) (l : Lib) (p : PLib) (hu : l.units ≤ 3)
    (hp : exportLib tbl l = .ok p) (hnd : noDangling l.cells) (hrng : ∀ c ∈ l.cells, cellRangeOk tbl c) :
    ∃ order cs', Dep.order (cellAdj l.cells) (l.cells.length + 1) (List.range l.cells.length) = .ok order ∧
      importLib p = .ok ⟨l.name, l.units, cs'⟩ ∧ cellsEq cs' (order.filterMap (fun i => l.cells[i]?)) := by
  cases ho : Dep.order (cellAdj l.cells) (l.cells.length + 1) (List.range l.cells.length) with
  | ok order =>
    obtain ⟨_, _, h3⟩ := c14_export_order l.cells order ho
    have hc := condList_of_order tbl l.cells order h3 hnd hrng order [] [] (by simp) (by intro d hd; cases hd)
    obtain ⟨cs', h1, h2⟩ := c14_library_roundtrip tbl l p order hu ho hp hc
    exact ⟨order, cs', rfl, h1, h2⟩
  | cycle => simp [exportLib, ho] at hp
  | fuel => simp [exportLib, ho] at hp

end L21.RawProto
