import L21.Model.Gds
import L21.Spec.GdsSpec
/-
Helper lemmas for the GDSII stack (C01, C02, C03, C10).
-/
namespace L21.Gds
open L21

theorem beBytes_length (w : Nat) (v : Int) : (beBytes w v).length = w := by
  simp [beBytes]

theorem flatMap_beBytes_length (w : Nat) (l : List Int) : (l.flatMap (beBytes w)).length = w * l.length := by
  induction l with
  | nil => simp
  | cons a t ih => simp [List.flatMap_cons, beBytes_length, ih, Nat.mul_add, Nat.add_comm]

theorem natBytes8_length (v : Nat) : (natBytes8 v).length = 8 := by simp [natBytes8]

theorem encReals_length : ∀ (l : List Nat) (bs : Bytes), encReals l = some bs → bs.length = 8 * l.length := by
  intro l
  induction l with
  | nil => intro bs h; simp [encReals] at h; subst h; rfl
  | cons a t ih =>
    intro bs h
    simp only [encReals] at h
    cases hg : GdsFloat.encodeBits a with
    | none => simp [hg] at h
    | some g =>
      cases hr : encReals t with
      | none => simp [hg, hr] at h
      | some r =>
        simp [hg, hr] at h; subst h
        simp [natBytes8_length, ih r hr, Nat.mul_add, Nat.add_comm]

/-- the payload the writer emits has exactly the length it announced, whenever the table row is
    a coherent (data type, size rule, layout) triple -/
theorem payloadBytes_length (dt : Nat) (ls : LenSpec) (pk : PK) (pl : Payload) (body : Bytes)
    (hl : Spec.layoutOk dt ls pk = true) (hf : payloadFits pk pl = true)
    (hb : payloadBytes pk pl = some body) : body.length = payloadLen ls pl := by
  cases pk <;> cases pl <;> simp [payloadFits] at hf <;> simp only [payloadBytes] at hb <;>
    simp [Spec.layoutOk] at hl <;> obtain ⟨_, rfl⟩ := hl
  case none.none => simp at hb; subst hb; simp [payloadLen]
  case bits.bits a b => simp at hb; subst hb; simp [payloadLen]
  case i16.ints n l =>
    simp at hb; subst hb
    rw [flatMap_beBytes_length]; simp [payloadLen, hf]
  case i32.ints n l =>
    simp at hb; subst hb
    rw [flatMap_beBytes_length]; simp [payloadLen, hf]
  case f64.reals n l _ =>
    have := encReals_length l body hb
    simp [payloadLen, this, hf]
  case str.str s =>
    split at hb
    · simp at hb
    · simp at hb; subst hb
      simp only [payloadLen, List.length_append]
      split <;> simp <;> omega
  case i32vec.ints l =>
    simp at hb; subst hb
    rw [flatMap_beBytes_length]; simp [payloadLen]

end L21.Gds
