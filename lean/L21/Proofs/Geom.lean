import L21.Model.Geom
import Mathlib.Tactic.Ring
import Mathlib.Tactic.Linarith
/-
Helper lemmas for C13 (containment).  Property theorems: `L21/Props/C13.lean`.
-/
namespace L21.Geom

/-! ### bounding box of a vertex list -/

theorem minX_le {P : List Pt} {v : Pt} (h : v ∈ P) : minX P ≤ v.x := by
  induction P with
  | nil => simp at h
  | cons a rest ih =>
    cases rest with
    | nil => simp at h; subst h; simp [minX]
    | cons b r =>
      simp only [minX]
      rcases List.mem_cons.1 h with rfl | h'
      · exact Int.min_le_left _ _
      · exact Int.le_trans (Int.min_le_right _ _) (ih h')

theorem le_maxX {P : List Pt} {v : Pt} (h : v ∈ P) : v.x ≤ maxX P := by
  induction P with
  | nil => simp at h
  | cons a rest ih =>
    cases rest with
    | nil => simp at h; subst h; simp [maxX]
    | cons b r =>
      simp only [maxX]
      rcases List.mem_cons.1 h with rfl | h'
      · exact Int.le_max_left _ _
      · exact Int.le_trans (ih h') (Int.le_max_right _ _)

theorem minY_le {P : List Pt} {v : Pt} (h : v ∈ P) : minY P ≤ v.y := by
  induction P with
  | nil => simp at h
  | cons a rest ih =>
    cases rest with
    | nil => simp at h; subst h; simp [minY]
    | cons b r =>
      simp only [minY]
      rcases List.mem_cons.1 h with rfl | h'
      · exact Int.min_le_left _ _
      · exact Int.le_trans (Int.min_le_right _ _) (ih h')

theorem le_maxY {P : List Pt} {v : Pt} (h : v ∈ P) : v.y ≤ maxY P := by
  induction P with
  | nil => simp at h
  | cons a rest ih =>
    cases rest with
    | nil => simp at h; subst h; simp [maxY]
    | cons b r =>
      simp only [maxY]
      rcases List.mem_cons.1 h with rfl | h'
      · exact Int.le_max_left _ _
      · exact Int.le_trans (ih h') (Int.le_max_right _ _)

/-! ### edges of the closed chain -/

theorem edgesFrom_mem {first : Pt} : ∀ {L : List Pt} {e : Pt × Pt}, e ∈ edgesFrom first L →
    e.1 ∈ L ∧ (e.2 ∈ L ∨ e.2 = first) := by
  intro L
  induction L with
  | nil => intro e h; simp [edgesFrom] at h
  | cons a rest ih =>
    intro e h
    cases rest with
    | nil =>
      simp [edgesFrom] at h; subst h; simp
    | cons b r =>
      simp only [edgesFrom, List.mem_cons] at h
      rcases h with rfl | h
      · simp
      · have := ih (e := e) (by simpa [List.mem_cons] using h)
        rcases this with ⟨h1, h2⟩
        refine ⟨List.mem_cons_of_mem _ h1, ?_⟩
        rcases h2 with h2 | h2
        · exact Or.inl (List.mem_cons_of_mem _ h2)
        · exact Or.inr h2

theorem edges_mem {P : List Pt} {e : Pt × Pt} (h : e ∈ edges P) : e.1 ∈ P ∧ e.2 ∈ P := by
  cases P with
  | nil => simp [edges] at h
  | cons a rest =>
    simp only [edges] at h
    have := edgesFrom_mem h
    refine ⟨this.1, ?_⟩
    rcases this.2 with h2 | h2
    · exact h2
    · rw [h2]; simp

/-! ### the sign of the cross product for points beside an edge -/

theorem cross_eq (a b p : Pt) :
    cross a b p = (b.x - p.x) * (p.y - a.y) + (b.y - p.y) * (a.x - p.x) := by
  unfold cross; ring

/-- p strictly left of both endpoints, edge going up through p's height: p is left of the edge -/
theorem cross_pos_left {a b p : Pt} (h1 : a.y ≤ p.y) (h2 : p.y < b.y) (ha : p.x < a.x) (hb : p.x < b.x) :
    0 < cross a b p := by
  rw [cross_eq]
  have := mul_nonneg (sub_nonneg.2 (le_of_lt hb)) (sub_nonneg.2 h1)
  have := mul_pos (sub_pos.2 h2) (sub_pos.2 ha)
  linarith

theorem cross_neg_left {a b p : Pt} (h1 : b.y ≤ p.y) (h2 : p.y < a.y) (ha : p.x < a.x) (hb : p.x < b.x) :
    cross a b p < 0 := by
  have e : cross a b p = -((a.x - p.x) * (p.y - b.y) + (a.y - p.y) * (b.x - p.x)) := by
    unfold cross; ring
  rw [e]
  have := mul_nonneg (sub_nonneg.2 (le_of_lt ha)) (sub_nonneg.2 h1)
  have := mul_pos (sub_pos.2 h2) (sub_pos.2 hb)
  linarith

theorem cross_neg_right {a b p : Pt} (h1 : a.y ≤ p.y) (h2 : p.y < b.y) (ha : a.x < p.x) (hb : b.x < p.x) :
    cross a b p < 0 := by
  have e : cross a b p = -((p.x - b.x) * (p.y - a.y) + (b.y - p.y) * (p.x - a.x)) := by
    unfold cross; ring
  rw [e]
  have := mul_nonneg (sub_nonneg.2 (le_of_lt hb)) (sub_nonneg.2 h1)
  have := mul_pos (sub_pos.2 h2) (sub_pos.2 ha)
  linarith

theorem cross_pos_right {a b p : Pt} (h1 : b.y ≤ p.y) (h2 : p.y < a.y) (ha : a.x < p.x) (hb : b.x < p.x) :
    0 < cross a b p := by
  have e : cross a b p = (p.x - a.x) * (p.y - b.y) + (a.y - p.y) * (p.x - b.x) := by
    unfold cross; ring
  rw [e]
  have := mul_nonneg (sub_nonneg.2 (le_of_lt ha)) (sub_nonneg.2 h1)
  have := mul_pos (sub_pos.2 h2) (sub_pos.2 hb)
  linarith

/-! ### winding number of points outside the bounding box -/

/-- indicator "vertex at or below the query height" -/
def below (p v : Pt) : Int := if v.y ≤ p.y then 1 else 0

theorem edgeW_left {a b p : Pt} (ha : p.x < a.x) (hb : p.x < b.x) : edgeW a b p = below p a - below p b := by
  unfold edgeW below
  by_cases c1 : a.y ≤ p.y ∧ p.y < b.y
  · have hc := cross_pos_left c1.1 c1.2 ha hb
    have e2 : ¬ b.y ≤ p.y := by omega
    rw [if_pos c1, if_pos hc, if_pos c1.1, if_neg e2]; rfl
  · by_cases c2 : b.y ≤ p.y ∧ p.y < a.y
    · have hc := cross_neg_left c2.1 c2.2 ha hb
      have e1 : ¬ a.y ≤ p.y := by omega
      rw [if_neg c1, if_pos c2, if_pos hc, if_neg e1, if_pos c2.1]; rfl
    · rw [if_neg c1, if_neg c2]
      by_cases e1 : a.y ≤ p.y
      · have e2 : b.y ≤ p.y := by omega
        rw [if_pos e1, if_pos e2]; rfl
      · have e2 : ¬ b.y ≤ p.y := by omega
        rw [if_neg e1, if_neg e2]; rfl

theorem edgeW_right {a b p : Pt} (ha : a.x < p.x) (hb : b.x < p.x) : edgeW a b p = 0 := by
  unfold edgeW
  by_cases c1 : a.y ≤ p.y ∧ p.y < b.y
  · have := cross_neg_right c1.1 c1.2 ha hb
    have : ¬ (0 < cross a b p) := by omega
    simp [c1, this]
  · by_cases c2 : b.y ≤ p.y ∧ p.y < a.y
    · have := cross_pos_right c2.1 c2.2 ha hb
      have : ¬ (cross a b p < 0) := by omega
      simp [c1, c2, this]
    · simp [c1, c2]

theorem edgeW_above {a b p : Pt} (ha : a.y < p.y) (hb : b.y < p.y) : edgeW a b p = 0 := by
  unfold edgeW
  have n1 : ¬ (a.y ≤ p.y ∧ p.y < b.y) := by omega
  have n2 : ¬ (b.y ≤ p.y ∧ p.y < a.y) := by omega
  simp [n1, n2]

theorem edgeW_below {a b p : Pt} (ha : p.y < a.y) (hb : p.y < b.y) : edgeW a b p = 0 := by
  unfold edgeW
  have n1 : ¬ (a.y ≤ p.y ∧ p.y < b.y) := by omega
  have n2 : ¬ (b.y ≤ p.y ∧ p.y < a.y) := by omega
  simp [n1, n2]

theorem sum_map_zero {α} (l : List α) (f : α → Int) (h : ∀ e ∈ l, f e = 0) : (l.map f).sum = 0 := by
  induction l with
  | nil => simp
  | cons a t ih =>
    simp only [List.map_cons, List.sum_cons]
    rw [h a (by simp), ih (fun e he => h e (List.mem_cons_of_mem _ he))]
    simp

/-- telescoping along the closed chain -/
theorem sum_telescope (p first : Pt) : ∀ (rest : List Pt) (a : Pt),
    ((edgesFrom first (a :: rest)).map (fun e => below p e.1 - below p e.2)).sum = below p a - below p first := by
  intro rest
  induction rest with
  | nil => intro a; simp [edgesFrom]
  | cons b r ih =>
    intro a
    simp only [edgesFrom, List.map_cons, List.sum_cons]
    rw [ih b]; ring

theorem wn_left {P : List Pt} {p : Pt} (h : ∀ v ∈ P, p.x < v.x) : wn P p = 0 := by
  cases P with
  | nil => simp [wn, edges]
  | cons a rest =>
    unfold wn
    have hcongr : (edges (a :: rest)).map (fun e => edgeW e.1 e.2 p)
        = (edges (a :: rest)).map (fun e => below p e.1 - below p e.2) := by
      apply List.map_congr_left
      intro e he
      have := edges_mem he
      exact edgeW_left (h _ this.1) (h _ this.2)
    rw [hcongr]
    simp only [edges]
    rw [sum_telescope p a rest a]; ring

theorem wn_zero_of_all {P : List Pt} {p : Pt} (h : ∀ e ∈ edges P, edgeW e.1 e.2 p = 0) : wn P p = 0 := by
  unfold wn; exact sum_map_zero _ _ h

/-- outside the bounding box the winding number vanishes and no edge is hit -/
theorem wn_outside {P : List Pt} {p : Pt} (hb : inBBox P p = false) : wn P p = 0 := by
  cases P with
  | nil => simp [wn, edges]
  | cons a rest =>
    simp only [inBBox, Bool.and_eq_false_iff, decide_eq_false_iff_not] at hb
    rcases hb with ((hb | hb) | hb) | hb
    · -- p.x < minX
      apply wn_left
      intro v hv; have := minX_le hv; omega
    · apply wn_zero_of_all
      intro e he; have := edges_mem he
      have h1 := le_maxX this.1; have h2 := le_maxX this.2
      exact edgeW_right (by omega) (by omega)
    · apply wn_zero_of_all
      intro e he; have := edges_mem he
      have h1 := minY_le this.1; have h2 := minY_le this.2
      exact edgeW_below (by omega) (by omega)
    · apply wn_zero_of_all
      intro e he; have := edges_mem he
      have h1 := le_maxY this.1; have h2 := le_maxY this.2
      exact edgeW_above (by omega) (by omega)

theorem onSeg_in_bbox {P : List Pt} {e : Pt × Pt} {p : Pt} (he : e ∈ edges P) (h : onSeg e.1 e.2 p = true) :
    inBBox P p = true := by
  have hm := edges_mem he
  have a1 := minX_le hm.1; have a2 := minX_le hm.2
  have b1 := le_maxX hm.1; have b2 := le_maxX hm.2
  have c1 := minY_le hm.1; have c2 := minY_le hm.2
  have d1 := le_maxY hm.1; have d2 := le_maxY hm.2
  simp only [onSeg, Bool.and_eq_true, decide_eq_true_eq] at h
  obtain ⟨⟨⟨⟨_, h1⟩, h2⟩, h3⟩, h4⟩ := h
  cases P with
  | nil => simp [edges] at he
  | cons a rest =>
    simp only [inBBox, Bool.and_eq_true, decide_eq_true_eq]
    refine ⟨⟨⟨?_, ?_⟩, ?_⟩, ?_⟩ <;> omega

end L21.Geom
