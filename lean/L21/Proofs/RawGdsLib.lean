import L21.Props.C07RT
import L21.Props.C17
/-
C07 — the library level: what the exported structures reference, the importer's by-name resolution
(`lastIdx`), and the import of the structures in dependency order.
-/
namespace L21.RawGds
open L21.Geom L21.Gds

/-- a cell after the trip -/
def finalCell (c : Cell) : Cell := ⟨c.name, c.insts.map eraseName, c.elems.map finalE, []⟩

theorem exportCells_get (tbl : LabelTbl) : ∀ (cs : List Cell) (gs : List Gds.Struct), exportCells tbl cs = .ok gs →
    gs.length = cs.length ∧ ∀ (i : Nat) (c : Cell), cs[i]? = some c → ∃ s, gs[i]? = some s ∧ exportCell tbl c = .ok s := by
  intro cs
  induction cs with
  | nil => intro gs h; simp only [exportCells, Gds.Out.ok.injEq] at h; subst h; exact ⟨rfl, by intro i c hc; simp at hc⟩
  | cons c r ih =>
    intro gs h
    simp only [exportCells] at h
    cases h1 : exportCell tbl c with
    | err => simp [h1] at h
    | ok s =>
      cases h2 : exportCells tbl r with
      | err => simp [h1, h2] at h
      | ok more =>
        simp only [h1, h2, Gds.Out.ok.injEq] at h
        subst h
        obtain ⟨hl, hg⟩ := ih more h2
        refine ⟨by simp [hl], ?_⟩
        intro i c' hc'
        cases i with
        | zero => simp at hc'; subst hc'; exact ⟨s, by simp, h1⟩
        | succ j => simp at hc'; obtain ⟨s', hs', he⟩ := hg j c' hc'; exact ⟨s', by simpa using hs', he⟩

theorem refs_exportInsts : ∀ (is : List Inst) (gs : List Gds.Elem), exportInsts is = .ok gs → gs.flatMap refsOf = is.map (·.cell) := by
  intro is
  induction is with
  | nil => intro gs h; simp only [exportInsts, Gds.Out.ok.injEq] at h; subst h; rfl
  | cons i r ih =>
    intro gs h
    simp only [exportInsts] at h
    cases h1 : exportInst i with
    | err => simp [h1] at h
    | ok g =>
      cases h2 : exportInsts r with
      | err => simp [h1, h2] at h
      | ok more =>
        simp only [h1, h2, Gds.Out.ok.injEq] at h
        subst h
        obtain ⟨st, rfl, _⟩ := c07_orientation_roundtrip i g h1
        simp [refsOf, ih more h2]

theorem refs_exportShape (layer dt : Int) (s : Shape) (g : Gds.Elem) (h : exportShape layer dt s = .ok g) : refsOf g = [] := by
  cases s with
  | rect p0 p1 => simp only [exportShape] at h; split at h <;> [cases h; cases h]; rfl
  | polygon pts =>
    cases pts with
    | nil => simp [exportShape] at h
    | cons p r => simp only [exportShape] at h; split at h <;> [cases h; cases h]; rfl
  | path pts w => simp only [exportShape] at h; split at h <;> [cases h; cases h]; rfl


theorem refs_exportElems (tbl : LabelTbl) : ∀ (es : List Elem) (gs : List Gds.Elem), exportElems tbl es = .ok gs → gs.flatMap refsOf = [] := by
  intro es
  induction es with
  | nil => intro gs h; simp only [exportElems, Gds.Out.ok.injEq] at h; subst h; rfl
  | cons e r ih =>
    intro gs h
    simp only [exportElems] at h
    cases h1 : exportElem tbl e with
    | err => simp [h1] at h
    | ok g1 =>
      cases h2 : exportElems tbl r with
      | err => simp [h1, h2] at h
      | ok more =>
        simp only [h1, h2, Gds.Out.ok.injEq] at h
        subst h
        have hg1 : g1.flatMap refsOf = [] := by
          simp only [exportElem] at h1
          cases h3 : exportShape e.layer e.purpose e.shape with
          | err => simp [h3] at h1
          | ok g =>
            simp only [h3] at h1
            have hr := refs_exportShape _ _ _ g h3
            split at h1
            · simp only [Gds.Out.ok.injEq] at h1; subst h1; simp [hr]
            · split at h1
              · split at h1
                · simp only [Gds.Out.ok.injEq] at h1; subst h1
                  simp only [List.flatMap_cons, List.flatMap_nil, hr, List.append_nil, List.nil_append]
                  rfl
                · cases h1
              · cases h1
        simp [List.flatMap_append, hg1, ih more h2]

theorem exportCell_refs (tbl : LabelTbl) (c : Cell) (s : Gds.Struct) (h : exportCell tbl c = .ok s) :
    s.name = c.name ∧ s.elems.flatMap refsOf = c.insts.map (·.cell) := by
  simp only [exportCell] at h
  cases h1 : exportInsts c.insts with
  | err => simp [h1] at h
  | ok is =>
    cases h2 : exportElems tbl c.elems with
    | err => simp [h1, h2] at h
    | ok es =>
      simp only [h1, h2, Gds.Out.ok.injEq] at h
      subst h
      exact ⟨rfl, by simp [List.flatMap_append, refs_exportInsts _ _ h1, refs_exportElems tbl _ _ h2]⟩


def lastIdx (ss : List Gds.Struct) (n : Bytes) : Nat := ss.length - 1 - structIndex ss.reverse n
def structAdj (ss : List Gds.Struct) (i : Nat) : List Nat :=
  match ss[i]? with
  | some s => s.elems.flatMap (fun e => (refsOf e).map (lastIdx ss))
  | none => []

theorem importLib_eq (g : Gds.Library) : importLib g =
    (match importUnits g.units.2 with
     | none => .err
     | some u =>
       if g.structs.any (fun s => s.elems.any (fun e => (refsOf e).any (fun n => !(g.structs.map (·.name)).contains n))) then .err else
       match Dep.order (structAdj g.structs) (g.structs.length + 1) (List.range g.structs.length) with
       | .ok order =>
         (match importStructs [] (order.filterMap (fun i => g.structs[i]?)) with
          | .ok cs => .ok ⟨g.name, u, cs⟩
          | .err => .err)
       | _ => .err) := rfl

theorem lastIdx_spec (ss : List Gds.Struct) (n : Bytes) (h : n ∈ ss.map (·.name)) :
    ∃ s, ss[lastIdx ss n]? = some s ∧ s.name = n := by
  unfold lastIdx structIndex
  cases hf : ss.reverse.findIdx? (fun s => s.name == n) with
  | none =>
    rw [List.findIdx?_eq_none_iff] at hf
    obtain ⟨s, hs, hn⟩ := List.mem_map.1 h
    have := hf s (by simpa using hs)
    simp [hn] at this
  | some j =>
    rw [List.findIdx?_eq_some_iff_getElem] at hf
    obtain ⟨hj, hp, _⟩ := hf
    simp only [List.length_reverse] at hj
    simp only [Option.getD_some]
    have hidx : ss.length - 1 - j < ss.length := by omega
    refine ⟨ss[ss.length - 1 - j], by simp [hidx], ?_⟩
    have : ss.reverse[j] = ss[ss.length - 1 - j] := by simp [List.getElem_reverse]
    rw [← this]; simpa using hp


theorem mem_structAdj (ss : List Gds.Struct) (x : Nat) (s : Gds.Struct) (hs : ss[x]? = some s) (n : Bytes)
    (hn : n ∈ s.elems.flatMap refsOf) : lastIdx ss n ∈ structAdj ss x := by
  simp only [structAdj, hs, List.mem_flatMap, List.mem_map]
  simp only [List.mem_flatMap] at hn
  obtain ⟨e, he, hne⟩ := hn
  exact ⟨e, he, n, hne, rfl⟩

theorem importStructs_ordered (tbl : LabelTbl) (cells : List Cell) (gs : List Gds.Struct) (order : List Nat)
    (hlen : gs.length = cells.length)
    (hget : ∀ (i : Nat) (c : Cell), cells[i]? = some c → ∃ s, gs[i]? = some s ∧ exportCell tbl c = .ok s)
    (hnames : (cells.map (·.name)).Nodup) (hsep : ∀ c ∈ cells, sepOk [] c.elems = true)
    (hnd : ∀ c ∈ cells, ∀ i ∈ c.insts, i.cell ∈ cells.map (·.name))
    (hord : ∀ l1 x l2, order = l1 ++ x :: l2 → ∀ d ∈ structAdj gs x, d ∈ l1) (hnodup : order.Nodup) :
    ∀ (todo done : List Nat) (known : List Bytes), order = done ++ todo →
      (∀ d ∈ done, ∀ s, gs[d]? = some s → known.contains s.name = true) →
      (∀ n, known.contains n = true → ∃ d ∈ done, ∃ s, gs[d]? = some s ∧ s.name = n) →
      importStructs known (todo.filterMap (fun i => gs[i]?)) = .ok ((todo.filterMap (fun i => cells[i]?)).map finalCell) := by
  -- names of structs and cells agree index by index
  have hname : ∀ (i : Nat) (s : Gds.Struct) (c : Cell), gs[i]? = some s → cells[i]? = some c → s.name = c.name := by
    intro i s c hs hc
    obtain ⟨s', hs', he⟩ := hget i c hc
    rw [hs] at hs'; cases hs'
    exact (exportCell_refs tbl c s he).1
  have hgsnames : ∀ n, n ∈ cells.map (·.name) → n ∈ gs.map (·.name) := by
    intro n hn
    obtain ⟨c, hc, rfl⟩ := List.mem_map.1 hn
    obtain ⟨i, hi, hci⟩ := List.getElem_of_mem hc
    have hc' : cells[i]? = some c := by simp [hi, hci]
    obtain ⟨s, hs, he⟩ := hget i c hc'
    exact List.mem_map.2 ⟨s, List.mem_of_getElem? hs, (exportCell_refs tbl c s he).1⟩
  intro todo
  induction todo with
  | nil => intro done known _ _ _; rfl
  | cons x rest ih =>
    intro done known hsplit hk1 hk2
    have hdeps := hord done x rest hsplit
    have hxnot : x ∉ done := by
      rw [hsplit] at hnodup
      exact fun hx => (List.nodup_append.1 hnodup).2.2 x hx x (by simp) rfl
    cases hgx : gs[x]? with
    | none =>
      have hcx : cells[x]? = none := by
        rw [List.getElem?_eq_none_iff] at hgx ⊢; omega
      simp only [List.filterMap_cons, hgx, hcx]
      refine ih (done ++ [x]) known (by simp [hsplit]) ?_ ?_
      · intro d hd s hs
        rcases List.mem_append.1 hd with h1 | h1
        · exact hk1 d h1 s hs
        · simp only [List.mem_singleton] at h1; subst h1; rw [hgx] at hs; cases hs
      · intro n hn
        obtain ⟨d, hd, s, hs, hsn⟩ := hk2 n hn
        exact ⟨d, by simp [hd], s, hs, hsn⟩
    | some s =>
      have hxlt : x < cells.length := by
        have := (List.getElem?_eq_some_iff.1 hgx).1; omega
      have hcx : cells[x]? = some cells[x] := by simp [hxlt]
      obtain ⟨s', hs', hexp⟩ := hget x cells[x] hcx
      rw [hgx] at hs'; cases hs'
      obtain ⟨hsn, hrefs⟩ := exportCell_refs tbl cells[x] s hexp
      have hcm : cells[x] ∈ cells := List.getElem_mem hxlt
      -- never skipped: its name is not among the names imported so far
      have hnotk : known.contains s.name = false := by
        cases hkc : known.contains s.name with
        | false => rfl
        | true =>
          exfalso
          obtain ⟨d, hd, sd, hsd, hsdn⟩ := hk2 s.name hkc
          have hdlt : d < cells.length := by have := (List.getElem?_eq_some_iff.1 hsd).1; omega
          have hcd : cells[d]? = some cells[d] := by simp [hdlt]
          have e1 := hname d sd cells[d] hsd hcd
          have e2 : cells[d].name = cells[x].name := by rw [← e1, hsdn, hsn]
          have hdx : d ≠ x := fun e => hxnot (e ▸ hd)
          have hpw := List.pairwise_iff_getElem.1 hnames
          have hl1 : d < (cells.map (·.name)).length := by simpa using hdlt
          have hl2 : x < (cells.map (·.name)).length := by simpa using hxlt
          rcases Nat.lt_or_gt_of_ne hdx with hlt | hgt
          · exact hpw d x hl1 hl2 hlt (by simpa using e2)
          · exact hpw x d hl2 hl1 hgt (by simpa using e2.symm)
      -- the cells it instantiates are known
      have hkn : ∀ i ∈ cells[x].insts, known.contains i.cell = true := by
        intro i hi
        have hin : i.cell ∈ s.elems.flatMap refsOf := by rw [hrefs]; exact List.mem_map_of_mem hi
        have hadj := mem_structAdj gs x s hgx i.cell hin
        obtain ⟨sd, hsd, hsdn⟩ := lastIdx_spec gs i.cell (hgsnames _ (hnd _ hcm i hi))
        have := hk1 _ (hdeps _ hadj) sd hsd
        rw [hsdn] at this; exact this
      have hcell := c07_cell_roundtrip known tbl cells[x] s hexp (hsep _ hcm) hkn
      simp only [List.filterMap_cons, hgx, hcx, importStructs, hnotk, Bool.false_eq_true, if_false, hcell, List.map_cons]
      rw [ih (done ++ [x]) (s.name :: known) (by simp [hsplit]) ?_ ?_]
      · rfl
      · intro d hd sd hsd
        rcases List.mem_append.1 hd with h1 | h1
        · have := hk1 d h1 sd hsd
          simp only [List.contains_cons, this, Bool.or_true]
        · simp only [List.mem_singleton] at h1; subst h1; rw [hgx] at hsd; cases hsd; simp
      · intro n hn
        simp only [List.contains_cons, Bool.or_eq_true, beq_iff_eq] at hn
        rcases hn with rfl | hn
        · exact ⟨x, by simp, s, hgx, rfl⟩
        · obtain ⟨d, hd, sd, hsd, hsdn⟩ := hk2 n hn
          exact ⟨d, by simp [hd], sd, hsd, hsdn⟩


end L21.RawGds
