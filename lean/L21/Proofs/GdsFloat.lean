import L21.Model.GdsFloat
/-
Helper lemmas for C15 (integer level).  Property theorems are in `L21/Props/C15.lean`.
-/
namespace L21.GdsFloat

theorem log2_eq {m k : Nat} (h1 : 2 ^ k ≤ m) (h2 : m < 2 ^ (k+1)) : m.log2 = k := by
  have hm : m ≠ 0 := by
    intro h; subst h; have := Nat.two_pow_pos k; omega
  have a := (Nat.le_log2 (n := m) (k := k) hm).2 h1
  have b := (Nat.log2_lt (n := m) (k := k+1) hm).2 h2
  omega

theorem bitLen_eq {m k : Nat} (h1 : 2 ^ k ≤ m) (h2 : m < 2 ^ (k+1)) : bitLen m = k + 1 := by
  have hm : m ≠ 0 := by
    intro h; subst h; have := Nat.two_pow_pos k; omega
  simp [bitLen, hm, log2_eq h1 h2]

/-- `rne` is exact on multiples of `2^k`. -/
theorem rne_mul (a k : Nat) : rne (a * 2 ^ k) k = a := by
  unfold rne
  have hp : 0 < 2 ^ k := Nat.two_pow_pos k
  by_cases hk : k = 0
  · subst hk; simp
  · have h1 : a * 2 ^ k / 2 ^ k = a := Nat.mul_div_cancel a hp
    have h2 : a * 2 ^ k % 2 ^ k = 0 := Nat.mul_mod_left a (2 ^ k)
    have h3 : 0 < 2 ^ k / 2 := by
      have : 2 ≤ 2 ^ k := by
        have := Nat.pow_le_pow_right (n := 2) (by omega) (show 1 ≤ k by omega)
        simpa using this
      omega
    simp [hk, h1, h2, h3]

/-- The u64→f64 conversion is exact on a 53-bit significand shifted left by `sh ≤ 3`. -/
theorem u64ToF64Bits_shift (fr sh : Nat) (hfr : fr < 2 ^ 52) (hsh : sh ≤ 3) :
    u64ToF64Bits ((2 ^ 52 + fr) * 2 ^ sh) = (52 + sh + 1023) * 2 ^ 52 + fr := by
  have hb : bitLen ((2 ^ 52 + fr) * 2 ^ sh) = 53 + sh := by
    have h1 : 2 ^ (52 + sh) ≤ (2 ^ 52 + fr) * 2 ^ sh := by
      rw [Nat.pow_add]; exact Nat.mul_le_mul_right _ (by omega)
    have h2 : (2 ^ 52 + fr) * 2 ^ sh < 2 ^ (52 + sh + 1) := by
      have : 2 ^ (52 + sh + 1) = 2 ^ 53 * 2 ^ sh := by
        rw [show 52 + sh + 1 = 53 + sh by omega, Nat.pow_add]
      rw [this]; exact Nat.mul_lt_mul_of_pos_right (by omega) (Nat.two_pow_pos sh)
    have := bitLen_eq h1 h2; omega
  have hne : (2 ^ 52 + fr) * 2 ^ sh ≠ 0 := by
    have := Nat.two_pow_pos sh
    exact Nat.mul_ne_zero (by omega) (by omega)
  unfold u64ToF64Bits
  simp only [hne, if_false, hb]
  by_cases h0 : sh = 0
  · subst h0; simp <;> omega
  · have hgt : ¬ (53 + sh ≤ 53) := by omega
    simp only [hgt, if_false, show 53 + sh - 53 = sh by omega, rne_mul]
    have : ¬ (2 ^ 52 + fr = 2 ^ 53) := by omega
    simp only [this, if_false]
    omega

/-- Field decomposition of a 64-bit pattern. -/
theorem f64_fields (x : Nat) (hx : x < 2 ^ 64) :
    x = f64Sign x * 2 ^ 63 + f64Exp x * 2 ^ 52 + f64Frac x := by
  unfold f64Sign f64Exp f64Frac; omega

theorem f64Exp_lt (x : Nat) : f64Exp x < 2048 := by unfold f64Exp; omega
theorem f64Frac_lt (x : Nat) : f64Frac x < 2 ^ 52 := by unfold f64Frac; omega
theorem f64Sign_lt (x : Nat) : f64Sign x < 2 := by unfold f64Sign; omega

/-- Fields of an assembled IEEE pattern. -/
theorem f64_mk_fields (s be fr : Nat) (hs : s < 2) (hbe : be < 2048) (hfr : fr < 2 ^ 52) :
    f64Sign (s * 2 ^ 63 + be * 2 ^ 52 + fr) = s ∧
    f64Exp (s * 2 ^ 63 + be * 2 ^ 52 + fr) = be ∧
    f64Frac (s * 2 ^ 63 + be * 2 ^ 52 + fr) = fr := by
  unfold f64Sign f64Exp f64Frac; omega

theorem f64_mk_fields0 (be fr : Nat) (hbe : be < 2048) (hfr : fr < 2 ^ 52) :
    f64Exp (be * 2 ^ 52 + fr) = be ∧ f64Frac (be * 2 ^ 52 + fr) = fr := by
  unfold f64Exp f64Frac; omega

/-- Fields of an assembled GDS pattern. -/
theorem g_mk_fields (s e m : Nat) (hs : s < 2) (he : e < 128) (hm : m < 2 ^ 56) :
    gSign (s * 2 ^ 63 + e * 2 ^ 56 + m) = s ∧
    gExp (s * 2 ^ 63 + e * 2 ^ 56 + m) = e ∧
    gMant (s * 2 ^ 63 + e * 2 ^ 56 + m) = m := by
  unfold gSign gExp gMant; omega

theorem g_fields (g : Nat) (hg : g < 2 ^ 64) :
    g = gSign g * 2 ^ 63 + gExp g * 2 ^ 56 + gMant g := by
  unfold gSign gExp gMant; omega

end L21.GdsFloat
