import L21.Proofs.Gds
import L21.Props.C15
import L21.Proofs.GdsTree
/-
Byte level of the GDSII round trip: one record, then the token stream.
-/
namespace L21.Gds
open L21 L21.GdsFloat

/-! ### integers -/
theorem beInt2_beBytes (v : Int) (h1 : -32768 ≤ v) (h2 : v < 32768) : beInt 2 (beBytes 2 v) = v := by
  simp only [beBytes, beInt, beNat, List.range, List.range.loop, List.reverse_cons, List.reverse_nil, List.nil_append,
    List.cons_append, List.map_cons, List.map_nil, List.foldl_cons, List.foldl_nil]
  have hm : (256 : Int) ^ 2 = 65536 := by decide
  simp only [hm]
  have hu : ((v % 65536).toNat : Int) = v % 65536 := Int.toNat_of_nonneg (Int.emod_nonneg _ (by decide))
  generalize huu : (v % 65536).toNat = u at hu
  have hlt : u < 65536 := by
    have := Int.emod_lt_of_pos v (show (0 : Int) < 65536 by decide)
    omega
  simp only [Nat.reducePow, Nat.reduceDiv, Nat.zero_mul, Nat.zero_add, Nat.div_one]
  split <;> omega

theorem beInt4_beBytes (v : Int) (h1 : -2147483648 ≤ v) (h2 : v < 2147483648) : beInt 4 (beBytes 4 v) = v := by
  simp only [beBytes, beInt, beNat, List.range, List.range.loop, List.reverse_cons, List.reverse_nil, List.nil_append,
    List.cons_append, List.map_cons, List.map_nil, List.foldl_cons, List.foldl_nil]
  have hm : (256 : Int) ^ 4 = 4294967296 := by decide
  simp only [hm]
  have hu : ((v % 4294967296).toNat : Int) = v % 4294967296 := Int.toNat_of_nonneg (Int.emod_nonneg _ (by decide))
  generalize huu : (v % 4294967296).toNat = u at hu
  have hlt : u < 4294967296 := by
    have := Int.emod_lt_of_pos v (show (0 : Int) < 4294967296 by decide)
    omega
  simp only [Nat.reducePow, Nat.reduceDiv, Nat.zero_mul, Nat.zero_add, Nat.div_one]
  split <;> omega
theorem splitInts2_flatMap : ∀ (l : List Int), (∀ v ∈ l, -32768 ≤ v ∧ v < 32768) →
    splitInts 2 l.length (l.flatMap (beBytes 2)) = l := by
  intro l
  induction l with
  | nil => intro _; rfl
  | cons v r ih =>
    intro h
    have hv := h v (by simp)
    simp only [List.length_cons, splitInts, List.flatMap_cons]
    have hl : (beBytes 2 v).length = 2 := beBytes_length 2 v
    rw [List.take_append_of_le_length (by omega), List.take_of_length_le (by omega), List.drop_append_of_le_length (by omega),
      List.drop_of_length_le (by omega), List.nil_append, beInt2_beBytes v hv.1 hv.2,
      ih (fun x hx => h x (by simp [hx]))]

theorem splitInts4_flatMap : ∀ (l : List Int), (∀ v ∈ l, -2147483648 ≤ v ∧ v < 2147483648) →
    splitInts 4 l.length (l.flatMap (beBytes 4)) = l := by
  intro l
  induction l with
  | nil => intro _; rfl
  | cons v r ih =>
    intro h
    have hv := h v (by simp)
    simp only [List.length_cons, splitInts, List.flatMap_cons]
    have hl : (beBytes 4 v).length = 4 := beBytes_length 4 v
    rw [List.take_append_of_le_length (by omega), List.take_of_length_le (by omega), List.drop_append_of_le_length (by omega),
      List.drop_of_length_le (by omega), List.nil_append, beInt4_beBytes v hv.1 hv.2,
      ih (fun x hx => h x (by simp [hx]))]

/-! ### reals -/
theorem beNat_natBytes8 (g : Nat) (hg : g < 2 ^ 64) : beNat (natBytes8 g) = g := by
  simp only [natBytes8, beNat, List.range, List.range.loop, List.reverse_cons, List.reverse_nil, List.nil_append,
    List.cons_append, List.map_cons, List.map_nil, List.foldl_cons, List.foldl_nil]
  simp only [Nat.reducePow, Nat.zero_mul, Nat.zero_add, Nat.div_one] at hg ⊢
  omega

theorem encodeBits_lt (x g : Nat) (h : encodeBits x = some g) (hx : x < 2 ^ 64) : g < 2 ^ 64 := by
  have hs := f64Sign_lt x
  have hfr := f64Frac_lt x
  rcases encodeBits_some x g h with ⟨_, _, rfl⟩ | ⟨h1, h2, rfl⟩ | ⟨h1, h2, h3, h4, rfl⟩
  · decide
  · have hm : (2 ^ 52 + f64Frac x) * 2 ^ ((f64Exp x + 5) % 4) < 2 ^ 56 := by
      have : (f64Exp x + 5) % 4 = 0 ∨ (f64Exp x + 5) % 4 = 1 ∨ (f64Exp x + 5) % 4 = 2 ∨ (f64Exp x + 5) % 4 = 3 := by omega
      rcases this with e | e | e | e <;> rw [e] <;> omega
    have he : (f64Exp x + 5) / 4 - 192 < 128 := by omega
    have : ((f64Exp x + 5) / 4 - 192) * 2 ^ 56 ≤ 127 * 2 ^ 56 := Nat.mul_le_mul_right _ (by omega)
    omega
  · have hm : (2 ^ 52 + f64Frac x) * 2 ^ ((f64Exp x + 5) % 4) < 2 ^ 56 := by
      have : (f64Exp x + 5) % 4 = 0 ∨ (f64Exp x + 5) % 4 = 1 ∨ (f64Exp x + 5) % 4 = 2 ∨ (f64Exp x + 5) % 4 = 3 := by omega
      rcases this with e | e | e | e <;> rw [e] <;> omega
    have := Nat.div_le_self ((2 ^ 52 + f64Frac x) * 2 ^ ((f64Exp x + 5) % 4)) (2 ^ (4 * (192 - (f64Exp x + 5) / 4)))
    omega

def realOk (x : Nat) : Prop := x < 2 ^ 64 ∧ InRange x

theorem canonZero_encodable (x g : Nat) (h : encodeBits x = some g) : (encodeBits (canonZero x)).isSome = true := by
  unfold canonZero
  split
  · simp [c15_zero.2]
  · simp [h]

theorem splitReals_encReals : ∀ (l : List Nat) (bs : Bytes), (∀ x ∈ l, realOk x) → encReals l = some bs →
    splitReals l.length bs = l.map canonZero := by
  intro l
  induction l with
  | nil => intro bs _ h; simp [encReals] at h; subst h; rfl
  | cons x r ih =>
    intro bs hok h
    simp only [encReals] at h
    cases hg : encodeBits x with
    | none => simp [hg] at h
    | some g =>
      cases hr : encReals r with
      | none => simp [hg, hr] at h
      | some rb =>
        simp [hg, hr] at h; subst h
        have hx := hok x (by simp)
        have hl : (natBytes8 g).length = 8 := natBytes8_length g
        simp only [List.length_cons, splitReals, List.map_cons]
        rw [List.take_append_of_le_length (by omega), List.take_of_length_le (by omega), List.drop_append_of_le_length (by omega),
          List.drop_of_length_le (by omega), List.nil_append, beNat_natBytes8 g (encodeBits_lt x g hg hx.1),
          c15_decode_encode x g hx.1 hx.2 hg, ih rb (fun y hy => hok y (by simp [hy])) hr]

theorem encReals_all_encodable : ∀ (l : List Nat) (bs : Bytes), encReals l = some bs →
    (l.map canonZero).all (fun x => (encodeBits x).isSome) = true := by
  intro l
  induction l with
  | nil => intro _ _; rfl
  | cons x r ih =>
    intro bs h
    simp only [encReals] at h
    cases hg : encodeBits x with
    | none => simp [hg] at h
    | some g =>
      cases hr : encReals r with
      | none => simp [hg, hr] at h
      | some rb =>
        simp only [List.map_cons, List.all_cons, Bool.and_eq_true]
        exact ⟨canonZero_encodable x g hg, ih rb hr⟩

/-! ### one payload -/
def canonPl : Payload → Payload
  | .reals l => .reals (l.map canonZero)
  | p => p

def i16Ok (v : Int) : Prop := -32768 ≤ v ∧ v < 32768
def i32Ok (v : Int) : Prop := -2147483648 ≤ v ∧ v < 2147483648

/-- value ranges of the Rust types behind a payload (i16 / i32 / f64 in the GDSII range / UTF-8 `String`) -/
def plOk (pk : PK) : Payload → Prop
  | .ints l => (match pk with | .i16 _ => ∀ v ∈ l, i16Ok v | _ => ∀ v ∈ l, i32Ok v)
  | .reals l => ∀ x ∈ l, realOk x
  | .str s => validUtf8 s = true
  | .bits a b => a < 256 ∧ b < 256
  | .none => True

theorem decode_payload (pk : PK) (pl : Payload) (body : Bytes) (hf : payloadFits pk pl = true)
    (hb : payloadBytes pk pl = some body) (hok : plOk pk pl) : decodePayload pk body = .ok (canonPl pl) := by
  cases pk <;> cases pl <;> simp [payloadFits] at hf <;> simp only [payloadBytes] at hb
  case none.none => rfl
  case bits.bits a b => simp at hb; subst hb; simp [decodePayload, canonPl]
  case i16.ints n l =>
    simp at hb; subst hb; subst hf
    simp only [decodePayload, canonPl]
    rw [splitInts2_flatMap l hok]
  case i32.ints n l =>
    simp at hb; subst hb; subst hf
    simp only [decodePayload, canonPl]
    rw [splitInts4_flatMap l hok]
  case i32vec.ints l =>
    simp at hb; subst hb
    simp only [decodePayload, canonPl]
    rw [flatMap_beBytes_length, Nat.mul_div_cancel_left _ (by decide : 0 < 4), splitInts4_flatMap l hok]
  case f64.reals n l =>
    subst hf
    simp only [decodePayload, canonPl]
    rw [splitReals_encReals l body hok hb, encReals_all_encodable l body hb]
    simp
  case str.str s =>
    simp only [decodePayload, canonPl]
    have : readStr body = .ok s := by
      simp only [plOk] at hok
      unfold readStr
      by_cases hc : s.length % 2 = 0 ∧ s.getLast? = some 0
      · simp [hc] at hb
      · simp only [hc, if_false] at hb
        cases hb
        by_cases h1 : s.length % 2 = 1
        · simp [h1, hok]
        · have h0 : s.length % 2 = 0 := by omega
          have hl : s.getLast? ≠ some 0 := fun h2 => hc ⟨h0, h2⟩
          simp [h1, hl, hok]
    rw [this]

/-! ### one record -/
def writeRowReadable (w : Nat × Nat × LenSpec × PK) : Bool :=
  (Gen.gdsRecTypes.find? (fun r => r.2 == w.1)).isSome && !Gen.gdsInvalid.contains w.1 &&
  (Gen.gdsDataTypes.find? (fun r => r.2 == w.2.1)).isSome &&
  (match Gen.gdsReadTable.find? (fun r => r.1 == w.1) with
   | some r => r.2.1 == w.2.1 && r.2.2.2 == w.2.2.2 &&
      (match w.2.2.1, r.2.2.1 with
       | .fixed n, some k => n == k
       | .strlen, none => true
       | .xy, none => true
       | _, _ => false)
   | none => false)

/-- every record type the writer can emit is a known, valid record type with a known data type, and
    the FIRST row of the regenerated read table for that record type has the writer's data type,
    layout and length rule -/
theorem all_rows_readable : Gen.gdsWriteTable.all writeRowReadable = true := by decide

theorem find?_refine {α : Type} (p q : α → Bool) : ∀ (l : List α) (x : α), l.find? p = some x → q x = true →
    l.find? (fun a => p a && q a) = some x := by
  intro l
  induction l with
  | nil => intro x h; simp at h
  | cons a r ih =>
    intro x h hq
    simp only [List.find?_cons] at h ⊢
    cases hp : p a with
    | true => simp [hp] at h; subst h; simp [hp, hq]
    | false => simp [hp] at h ⊢; exact ih x h hq

def canonRec (r : Rec) : Rec := ⟨r.rt, canonPl r.pl⟩

def recOk (r : Rec) : Prop :=
  match lookupWrite r.rt with
  | some (_, _, pk) => plOk pk r.pl
  | none => True

theorem readRecord_encRecord (r : Rec) (bs t : Bytes) (h : encRecord r = .ok bs) (hok : recOk r) :
    readRecord (bs ++ t) = .ok (canonRec r, t) := by
  unfold encRecord at h
  cases hl : lookupWrite r.rt with
  | none => simp [hl] at h
  | some row =>
    obtain ⟨dt, ls, pk⟩ := row
    simp only [hl] at h
    simp only [recOk, hl] at hok
    by_cases hf : payloadFits pk r.pl = true
    · simp only [hf, Bool.not_true, Bool.false_eq_true, if_false] at h
      by_cases hlen : 65535 < payloadLen ls r.pl + 4
      · simp [hlen] at h
      · simp only [hlen, if_false] at h
        cases hb : payloadBytes pk r.pl with
        | none => simp [hb] at h
        | some body =>
          simp only [hb, Out.ok.injEq] at h
          subst h
          -- table facts for this row
          have hmem : (r.rt, dt, ls, pk) ∈ Gen.gdsWriteTable := by
            unfold lookupWrite at hl
            cases hfnd : Gen.gdsWriteTable.find? (fun x => x.1 == r.rt) with
            | none => simp [hfnd] at hl
            | some w =>
              simp [hfnd] at hl
              have h1 := List.find?_some hfnd
              have h2 := List.mem_of_find?_eq_some hfnd
              obtain ⟨w1, w2⟩ := w
              simp at h1 hl
              subst h1; subst hl
              exact h2
          have hrow := List.all_eq_true.1 all_rows_readable _ hmem
          simp only [writeRowReadable, Bool.and_eq_true, Bool.not_eq_true'] at hrow
          obtain ⟨⟨⟨hrt, hinv⟩, hdt⟩, hread⟩ := hrow
          have hlay := (List.all_eq_true.1 (by decide : Gen.gdsWriteTable.all (fun r => Spec.layoutOk r.2.1 r.2.2.1 r.2.2.2) = true) _ hmem)
          have hbl := payloadBytes_length dt ls pk r.pl body hlay hf hb
          have heven : payloadLen ls r.pl % 2 = 0 := by
            cases pk <;> simp [Spec.layoutOk] at hlay <;> obtain ⟨_, rfl⟩ := hlay <;>
              cases hp : r.pl <;> simp [hp, payloadFits] at hf <;> simp [payloadLen] <;> omega
          cases hfr : Gen.gdsReadTable.find? (fun x => x.1 == r.rt) with
          | none => simp [hfr] at hread
          | some rr =>
            simp only [hfr, Bool.and_eq_true, beq_iff_eq] at hread
            obtain ⟨⟨hd, hpk⟩, hsize⟩ := hread
            have hsz : (match rr.2.2.1 with | none => true | some k => k == payloadLen ls r.pl) = true := by
              cases hls : ls <;> cases hk : rr.2.2.1 <;> simp [hls, hk] at hsize ⊢
              · subst hsize; simp [payloadLen]
            have hfind : Gen.gdsReadTable.find? (readRowMatches r.rt dt (payloadLen ls r.pl)) = some rr := by
              have := find?_refine (fun x => x.1 == r.rt) (fun x => x.2.1 == dt &&
                (match x.2.2.1 with | none => true | some k => k == payloadLen ls r.pl)) Gen.gdsReadTable rr hfr
                (by simp [hd, hsz])
              exact this
            have hdec := decode_payload pk r.pl body hf hb hok
            have hL : (payloadLen ls r.pl + 4) / 256 * 256 + (payloadLen ls r.pl + 4) % 256 = payloadLen ls r.pl + 4 := by omega
            have hrt' : (Gen.gdsRecTypes.find? (fun x => x.2 == r.rt)).isNone = false := by
              cases hq : Gen.gdsRecTypes.find? (fun x => x.2 == r.rt) <;> simp [hq] at hrt ⊢
            have hdt' : (Gen.gdsDataTypes.find? (fun x => x.2 == dt)).isNone = false := by
              cases hq : Gen.gdsDataTypes.find? (fun x => x.2 == dt) <;> simp [hq] at hdt ⊢
            simp only [readRecord, List.cons_append, List.nil_append, hL]
            have c1 : ¬ (payloadLen ls r.pl + 4 < 4) := by omega
            have c2 : ¬ ((payloadLen ls r.pl + 4) % 2 ≠ 0) := by omega
            have c3 : ¬ ((body ++ t).length < payloadLen ls r.pl) := by simp [hbl]
            simp only [c1, c2, if_false, hrt', hinv, hdt', Bool.false_eq_true, Nat.add_sub_cancel, hfind, c3]
            rw [← hbl, List.take_left' rfl, List.drop_left' rfl, hpk, hdec]
            rfl
    · simp [hf] at h

/-! ### the token stream -/
theorem encRecord_length (r : Rec) (bs : Bytes) (h : encRecord r = .ok bs) : 4 ≤ bs.length := by
  unfold encRecord at h
  cases hl : lookupWrite r.rt with
  | none => simp [hl] at h
  | some row =>
    obtain ⟨dt, ls, pk⟩ := row
    simp only [hl] at h
    split at h
    · simp at h
    · split at h
      · simp at h
      · cases hb : payloadBytes pk r.pl with
        | none => simp [hb] at h
        | some body => simp [hb] at h; subst h; simp

theorem encRecords_length : ∀ (rs : List Rec) (bs : Bytes), encRecords rs = .ok bs → 4 * rs.length ≤ bs.length := by
  intro rs
  induction rs with
  | nil => intro bs h; simp
  | cons r rest ih =>
    intro bs h
    simp only [encRecords] at h
    cases h1 : encRecord r with
    | err => simp [h1] at h
    | ok a =>
      cases h2 : encRecords rest with
      | err => simp [h1, h2] at h
      | ok b =>
        simp [h1, h2] at h; subst h
        have := encRecord_length r a h1
        have := ih b h2
        simp only [List.length_append, List.length_cons]
        omega

/-- the tokenizer inverts the record encoder on a stream that ends with its first ENDLIB -/
theorem tokenize_encRecords : ∀ (pre : List Rec) (e : Rec) (bs t : Bytes) (fuel : Nat),
    encRecords (pre ++ [e]) = .ok bs → (∀ r ∈ pre ++ [e], recOk r) → e.rt = rEndLib → (∀ r ∈ pre, r.rt ≠ rEndLib) →
    pre.length + 1 ≤ fuel → tokenize fuel (bs ++ t) = .ok ((pre ++ [e]).map canonRec) := by
  intro pre
  induction pre with
  | nil =>
    intro e bs t fuel h hok he _ hf
    obtain ⟨g, rfl⟩ : ∃ g, fuel = g + 1 := ⟨fuel - 1, by omega⟩
    simp only [List.nil_append, encRecords] at h
    cases h1 : encRecord e with
    | err => simp [h1] at h
    | ok a =>
      simp [h1] at h; subst h
      simp only [tokenize, List.append_nil, readRecord_encRecord e a t h1 (hok e (by simp)), canonRec, he, if_true,
        List.nil_append, List.map_cons, List.map_nil]
  | cons r rest ih =>
    intro e bs t fuel h hok he hne hf
    obtain ⟨g, rfl⟩ : ∃ g, fuel = g + 1 := ⟨fuel - 1, by omega⟩
    simp only [List.cons_append, encRecords] at h
    cases h1 : encRecord r with
    | err => simp [h1] at h
    | ok a =>
      cases h2 : encRecords (rest ++ [e]) with
      | err => simp [h1, h2] at h
      | ok b =>
        simp [h1, h2] at h; subst h
        have hr := hne r (by simp)
        simp only [tokenize, List.append_assoc, readRecord_encRecord r a (b ++ t) h1 (hok r (by simp)), canonRec, hr, if_false]
        rw [ih e b t g h2 (fun x hx => hok x (by simp at hx ⊢; exact Or.inr hx)) he (fun x hx => hne x (by simp [hx]))
          (by simp at hf; omega)]
        simp [canonRec]

/-! ### the library -/
def canonStrans (s : Strans) : Strans := { s with mag := s.mag.map canonZero, angle := s.angle.map canonZero }
def canonElem : Elem → Elem
  | .sref n xy st c => .sref n xy (st.map canonStrans) c
  | .aref n xy cs rs st c => .aref n xy cs rs (st.map canonStrans) c
  | .text s l t xy p pt w st c => .text s l t xy p pt w (st.map canonStrans) c
  | e => e
def canonLib (l : Library) : Library :=
  { l with units := (canonZero l.units.1, canonZero l.units.2),
           structs := l.structs.map fun s => { s with elems := s.elems.map canonElem } }

theorem map_optRec_int (rt : Nat) (o : Option Int) : (optRec rt int1 o).map canonRec = optRec rt int1 o := by
  cases o <;> simp [optRec, canonRec, canonPl, int1]
theorem map_optRec_bits (rt : Nat) (o : Option (Nat × Nat)) :
    (optRec rt (fun (e : Nat × Nat) => Payload.bits e.1 e.2) o).map canonRec = optRec rt (fun (e : Nat × Nat) => Payload.bits e.1 e.2) o := by
  cases o <;> simp [optRec, canonRec, canonPl]
theorem map_commonHead (c : Common) : (commonHead c).map canonRec = commonHead c := by
  simp [commonHead, List.map_append, map_optRec_int, map_optRec_bits]
theorem map_propRecs (ps : List Property) : (propRecs ps).map canonRec = propRecs ps := by
  induction ps with
  | nil => rfl
  | cons p r ih =>
    simp only [propRecs, List.flatMap_cons, List.map_append] at ih ⊢
    rw [ih]
    simp [canonRec, canonPl, int1]
theorem map_optStrans (st : Option Strans) : (optStrans st).map canonRec = optStrans (st.map canonStrans) := by
  cases st with
  | none => rfl
  | some s =>
    obtain ⟨r, am, aa, mag, angle⟩ := s
    cases mag <;> cases angle <;> simp [optStrans, stransRecs, optRec, canonRec, canonPl, canonStrans]

theorem map_elemRecs (e : Elem) : (elemRecs e).map canonRec = elemRecs (canonElem e) := by
  cases e <;>
    simp [elemRecs, canonElem, List.map_append, map_commonHead, map_propRecs, map_optStrans, map_optRec_int, map_optRec_bits,
      canonRec, canonPl, int1]

theorem map_libRecs (l : Library) : (libRecs l).map canonRec = libRecs (canonLib l) := by
  obtain ⟨name, version, dates, units, structs⟩ := l
  simp only [libRecs, canonLib, List.map_append, List.map_cons, List.map_nil, canonRec, canonPl, int1, List.cons_append,
    List.nil_append, List.cons.injEq, true_and, List.append_cancel_right_eq]
  induction structs with
  | nil => rfl
  | cons s r ih =>
    simp only [List.flatMap_cons, List.map_append, List.map_cons, ih]
    congr 1
    simp only [structRecs, List.map_append, List.map_cons, List.map_nil, canonRec, canonPl, List.cons_append, List.nil_append,
      List.cons.injEq, true_and, List.append_cancel_right_eq]
    clear ih
    induction s.elems with
    | nil => rfl
    | cons e es ih2 => simp only [List.flatMap_cons, List.map_append, List.map_cons, map_elemRecs, ih2]

theorem mem_optRec {α : Type} (rt : Nat) (mk : α → Payload) (o : Option α) (r : Rec) (h : r ∈ optRec rt mk o) : r.rt = rt := by
  cases o <;> simp [optRec] at h; subst h; rfl

def notEnd (r : Rec) : Bool := r.rt != 4

theorem all_optRec {α : Type} (rt : Nat) (mk : α → Payload) (o : Option α) (h : rt ≠ 4) : (optRec rt mk o).all notEnd = true := by
  cases o <;> simp [optRec, notEnd, h]
theorem all_propRecs (ps : List Property) : (propRecs ps).all notEnd = true := by
  induction ps with
  | nil => rfl
  | cons p r ih => simp only [propRecs, List.flatMap_cons, List.all_append] at ih ⊢; simp [ih, notEnd, rPropAttr, rPropValue]
theorem all_commonHead (c : Common) : (commonHead c).all notEnd = true := by
  simp [commonHead, List.all_append, all_optRec, rElemFlags, rPlex]
theorem all_optStrans (st : Option Strans) : (optStrans st).all notEnd = true := by
  cases st with
  | none => rfl
  | some s => simp [optStrans, stransRecs, List.all_append, all_optRec, rMag, rAngle, notEnd, rStrans]

theorem elemRecs_all_notEnd (e : Elem) : (elemRecs e).all notEnd = true := by
  cases e <;>
    simp [elemRecs, List.all_append, all_commonHead, all_propRecs, all_optStrans, all_optRec, notEnd,
      rBoundary, rPath, rStructRef, rArrayRef, rText, rNode, rBox, rLayer, rDataType, rXy, rEndElement,
      rStructRefName, rColRow, rTextType, rString, rNodetype, rBoxType, rPathType, rWidth, rBeginExtn, rEndExtn, rPresentation]

theorem elemRecs_no_endlib (e : Elem) : ∀ r ∈ elemRecs e, r.rt ≠ rEndLib := by
  intro r hr
  have := List.all_eq_true.1 (elemRecs_all_notEnd e) r hr
  simpa [notEnd, rEndLib] using this

theorem libRecs_split (l : Library) : ∃ pre, libRecs l = pre ++ [⟨rEndLib, .none⟩] ∧ ∀ r ∈ pre, r.rt ≠ rEndLib := by
  refine ⟨[⟨rHeader, int1 l.version⟩, ⟨rBgnLib, .ints l.dates⟩, ⟨rLibName, .str l.name⟩, ⟨rUnits, .reals [l.units.1, l.units.2]⟩]
    ++ l.structs.flatMap structRecs, by simp [libRecs], ?_⟩
  intro r hr
  simp only [List.mem_append, List.mem_cons, List.mem_nil_iff, or_false, List.mem_flatMap] at hr
  rcases hr with (h | h | h | h) | ⟨s, _, h⟩
  · subst h; simp [rHeader, rEndLib]
  · subst h; simp [rBgnLib, rEndLib]
  · subst h; simp [rLibName, rEndLib]
  · subst h; simp [rUnits, rEndLib]
  · simp only [structRecs, List.mem_append, List.mem_cons, List.mem_nil_iff, or_false, List.mem_flatMap] at h
    rcases h with ((h | h) | ⟨e, _, h⟩) | h
    · subst h; simp [rBgnStruct, rEndLib]
    · subst h; simp [rStructName, rEndLib]
    · exact elemRecs_no_endlib e r h
    · subst h; simp [rEndStruct, rEndLib]

theorem elemOk_canon (e : Elem) : elemOk (canonElem e) = elemOk e := by cases e <;> rfl
theorem libOk_canon (l : Library) : libOk (canonLib l) = libOk l := by
  obtain ⟨name, version, dates, units, structs⟩ := l
  simp only [libOk, canonLib]
  induction structs with
  | nil => rfl
  | cons s r ih =>
    simp only [List.map_cons, List.all_cons, ih]
    congr 1
    simp only [structOk]
    induction s.elems with
    | nil => rfl
    | cons e es ih2 => simp only [List.map_cons, List.all_cons, elemOk_canon, ih2]

/-- BYTE LEVEL, WHOLE LIBRARY: whatever the writer produces is read back as the library that was
    written (−0.0 reals read as +0.0, as both encode to the all-zero real). -/
theorem dec_enc (l : Library) (bs : Bytes) (h : enc l = .ok bs) (hok : libOk l = true) (hb : ∀ r ∈ libRecs l, recOk r) :
    dec bs = .ok (canonLib l) := by
  obtain ⟨pre, hsplit, hne⟩ := libRecs_split l
  unfold enc at h
  rw [hsplit] at h hb
  have hlen := encRecords_length _ bs h
  have htok := tokenize_encRecords pre ⟨rEndLib, .none⟩ bs [] (bs.length / 4 + 1) h hb rfl hne
    (by simp only [List.length_append, List.length_cons, List.length_nil] at hlen; omega)
  rw [List.append_nil] at htok
  unfold dec
  rw [htok, ← hsplit, map_libRecs]
  exact parseLib_libRecs (canonLib l) (by rw [libOk_canon]; exact hok)

/-! ### a checkable form of the value-range hypotheses -/
def inRangeB (x : Nat) : Bool := (f64Exp x == 0 && f64Frac x == 0) || (decide (763 ≤ f64Exp x) && decide (f64Exp x ≤ 1274))
def plOkB (pk : PK) : Payload → Bool
  | .ints l => (match pk with
      | .i16 _ => l.all fun v => decide (-32768 ≤ v) && decide (v < 32768)
      | _ => l.all fun v => decide (-2147483648 ≤ v) && decide (v < 2147483648))
  | .reals l => l.all fun x => decide (x < 2 ^ 64) && inRangeB x
  | .str s => validUtf8 s
  | .bits a b => decide (a < 256) && decide (b < 256)
  | .none => true
def recOkB (r : Rec) : Bool :=
  match lookupWrite r.rt with
  | some (_, _, pk) => plOkB pk r.pl
  | none => true

theorem plOk_of_B (pk : PK) (pl : Payload) (h : plOkB pk pl = true) : plOk pk pl := by
  cases pl with
  | none => trivial
  | bits a b => simpa [plOkB, plOk] using h
  | str s => simpa [plOkB, plOk] using h
  | reals l =>
    simp only [plOkB, List.all_eq_true, Bool.and_eq_true, decide_eq_true_eq] at h
    intro x hx
    obtain ⟨h1, h2⟩ := h x hx
    refine ⟨h1, ?_⟩
    simp only [inRangeB, Bool.or_eq_true, Bool.and_eq_true, beq_iff_eq, decide_eq_true_eq] at h2
    exact h2
  | ints l =>
    cases pk <;> simp only [plOkB, plOk, List.all_eq_true, Bool.and_eq_true, decide_eq_true_eq] at h ⊢ <;>
      exact fun v hv => h v hv

theorem recOk_of_B (r : Rec) (h : recOkB r = true) : recOk r := by
  unfold recOkB at h
  unfold recOk
  cases hl : lookupWrite r.rt with
  | none => trivial
  | some row => obtain ⟨dt, ls, pk⟩ := row; simp only [hl] at h ⊢; exact plOk_of_B pk r.pl h

end L21.Gds
