import L21.Model.Gds
namespace L21.Gds

theorem ite_congr_err {β : Type} (c : Prop) [Decidable c] (A B : Out β) (h : c → A = B) : (if c then A else .err) = (if c then B else .err) := by
  split
  · exact h ‹_›
  · rfl

theorem parseElem_fuel (k : EK) : ∀ (f : Nat) (b : B) (rs : List Rec), rs.length < f → parseElem k f b rs = parseElem k (f + 1) b rs := by
  intro f
  induction f with
  | zero => intro b rs h; omega
  | succ f ih =>
    intro b rs h
    cases rs with
    | nil => rfl
    | cons r rest =>
      simp only [List.length_cons] at h
      unfold parseElem
      split <;> dsimp only
      all_goals (try rfl)
      all_goals (try (apply ite_congr_err; intro _))
      all_goals (try (apply ih; omega))
      · split
        · apply ih; simp only [List.length_cons] at h; omega
        · rfl
      · apply ite_congr_err; intro hc; apply ih; omega

theorem parseElems_fuel : ∀ (f : Nat) (acc : List Elem) (rs : List Rec), rs.length < f → parseElems f acc rs = parseElems (f + 1) acc rs := by
  intro f
  induction f with
  | zero => intro acc rs h; omega
  | succ f ih =>
    intro acc rs h
    cases rs with
    | nil => rfl
    | cons r rest =>
      simp only [List.length_cons] at h
      unfold parseElems
      split
      · rfl
      · split
        · rfl
        · split
          · rfl
          · apply ite_congr_err; intro hc; apply ih; omega

theorem parseLibBody_fuel (v : Int) (d : List Int) : ∀ (f : Nat) (lb : LB) (rs : List Rec), rs.length < f →
    parseLibBody v d f lb rs = parseLibBody v d (f + 1) lb rs := by
  intro f
  induction f with
  | zero => intro lb rs h; omega
  | succ f ih =>
    intro lb rs h
    cases rs with
    | nil => rfl
    | cons r rest =>
      simp only [List.length_cons] at h
      unfold parseLibBody
      split <;> (try dsimp only)
      all_goals (try rfl)
      all_goals (try (apply ih; omega))
      · split
        · split
          · rfl
          · apply ite_congr_err; intro hc; apply ih; omega
        · rfl


theorem parseLibBody_fuel_any (v : Int) (d : List Int) (lb : LB) (rs : List Rec) : ∀ (n : Nat),
    parseLibBody v d (rs.length + 1 + n) lb rs = parseLibBody v d (rs.length + 1) lb rs := by
  intro n
  induction n with
  | zero => rfl
  | succ n ih => rw [← ih, ← Nat.add_assoc, ← parseLibBody_fuel v d _ _ _ (by omega)]
theorem parseElems_fuel_any (acc : List Elem) (rs : List Rec) : ∀ (n : Nat),
    parseElems (rs.length + 1 + n) acc rs = parseElems (rs.length + 1) acc rs := by
  intro n
  induction n with
  | zero => rfl
  | succ n ih => rw [← ih, ← Nat.add_assoc, ← parseElems_fuel _ _ _ (by omega)]
theorem parseElem_fuel_any (k : EK) (b : B) (rs : List Rec) : ∀ (n : Nat),
    parseElem k (rs.length + 1 + n) b rs = parseElem k (rs.length + 1) b rs := by
  intro n
  induction n with
  | zero => rfl
  | succ n ih => rw [← ih, ← Nat.add_assoc, ← parseElem_fuel k _ _ _ (by omega)]
end L21.Gds
