import L21.Model.Lef
/-
Progress of the LEF reader model: every parse routine that succeeds has consumed at least one
token (or, for the list loops, at least none), so (a) the `r.length < ts.length` guards the model
puts in front of recursive calls never fire, and (b) the fuel `length + 1` every loop is started
with is never exhausted: the loops end because the input does, not because the budget does.
-/
namespace L21.Lef
open L21.LefLex L21.LefEnum

/-! ### primitives: each consumes exactly one token -/
theorem expectTT_len {tt : TT} {ts : List Tok} {t : Str} {r : List Tok} (h : expectTT tt ts = some (t, r)) : ts.length = r.length + 1 := by
  cases ts with
  | nil => simp [expectTT] at h
  | cons a b =>
    simp only [expectTT] at h
    split at h
    · cases h; simp
    · cases h
theorem getName_len {ts : List Tok} {t : Str} {r : List Tok} (h : getName ts = some (t, r)) : ts.length = r.length + 1 := expectTT_len h
theorem semi_len {ts : List Tok} {u : Unit} {r : List Tok} (h : semi ts = some (u, r)) : ts.length = r.length + 1 := by
  unfold semi at h
  simp only [Option.map_eq_some_iff, Prod.exists, Prod.mk.injEq] at h
  obtain ⟨_, r', h1, _, he⟩ := h
  subst he; exact expectTT_len h1
theorem getKey_len {ts : List Tok} {k : String} {r : List Tok} (h : getKey ts = some (k, r)) : ts.length = r.length + 1 := by
  unfold getKey at h
  split at h
  · rename_i t r' h1
    simp only [Option.map_eq_some_iff, Prod.mk.injEq] at h
    obtain ⟨_, _, _, he⟩ := h
    subst he; exact getName_len h1
  · cases h
theorem expectKey_len {k : String} {ts : List Tok} {u : Unit} {r : List Tok} (h : expectKey k ts = some (u, r)) : ts.length = r.length + 1 := by
  unfold expectKey at h
  split at h
  · rename_i k' r' h1
    split at h
    · cases h; exact getKey_len h1
    · cases h
  · cases h
theorem expectIdent_len {s : Str} {ts : List Tok} {u : Unit} {r : List Tok} (h : expectIdent s ts = some (u, r)) : ts.length = r.length + 1 := by
  unfold expectIdent at h
  split at h
  · rename_i k' r' h1
    split at h
    · cases h; exact getName_len h1
    · cases h
  · cases h
theorem parseEnum_len {tb : String} {ts : List Tok} {e : String} {r : List Tok} (h : parseEnum tb ts = some (e, r)) : ts.length = r.length + 1 := by
  unfold parseEnum at h
  split at h
  · rename_i t r' h1
    simp only [Option.map_eq_some_iff, Prod.mk.injEq] at h
    obtain ⟨_, _, _, he⟩ := h
    subst he; exact getName_len h1
  · cases h
theorem number_len {ts : List Tok} {d : Dec} {r : List Tok} (h : number ts = some (d, r)) : ts.length = r.length + 1 := by
  unfold number at h
  split at h
  · rename_i t r' h1
    simp only [Option.map_eq_some_iff, Prod.mk.injEq] at h
    obtain ⟨_, _, _, he⟩ := h
    subst he; exact expectTT_len h1
  · cases h
theorem peekKey_len {ts : List Tok} {k : String} (h : peekKey ts = some k) : ts.length = ts.tail.length + 1 := by
  cases ts with
  | nil => simp [peekKey] at h
  | cons a b => simp
theorem matchesTT_len {tt : TT} {ts : List Tok} (h : matchesTT tt ts = true) : ts.length = ts.tail.length + 1 := by
  cases ts with
  | nil => simp [matchesTT] at h
  | cons a b => simp
theorem tail_len_le (ts : List Tok) : ts.tail.length ≤ ts.length := by cases ts <;> simp

theorem point_len {ts : List Tok} {p : Pt} {r : List Tok} (h : point ts = some (p, r)) : ts.length = r.length + 2 := by
  unfold point at h
  split at h
  · rename_i x r1 h1
    split at h
    · rename_i y r2 h2
      cases h
      have := number_len h1; have := number_len h2; omega
    · cases h
  · cases h

theorem pointList_len : ∀ (f : Nat) (ts : List Tok) (ps : List Pt) (r : List Tok), pointList f ts = some (ps, r) → r.length ≤ ts.length := by
  intro f
  induction f with
  | zero => intro ts ps r h; simp [pointList] at h
  | succ f ih =>
    intro ts ps r h
    rw [pointList] at h
    split at h
    · split at h
      · rename_i p r1 hp
        simp only [Option.map_eq_some_iff, Prod.exists, Prod.mk.injEq] at h
        obtain ⟨ps', r', hr, _, he⟩ := h
        subst he
        have := point_len hp; have := ih _ _ _ hr; omega
      · cases h
    · cases h; omega

theorem geomMask_len {ts : List Tok} {m : Option Dec} {r : List Tok} (h : geomMask ts = some (m, r)) : r.length ≤ ts.length := by
  unfold geomMask at h
  split at h
  · split at h
    · cases h
    · split at h
      · simp only [Option.map_eq_some_iff, Prod.exists, Prod.mk.injEq] at h
        obtain ⟨d, r', hn, _, he⟩ := h
        subst he
        have := number_len hn; have := tail_len_le ts; omega
      · cases h; omega
  · cases h; omega

theorem geomIterate_len {ts : List Tok} {b : Bool} {r : List Tok} (h : geomIterate ts = some (b, r)) : r.length ≤ ts.length := by
  unfold geomIterate at h
  split at h
  · split at h
    · cases h
    · split at h
      · cases h; exact tail_len_le ts
      · cases h; omega
  · cases h; omega

theorem stepPattern_len {ts : List Tok} {p : Step} {r : List Tok} (h : stepPattern ts = some (p, r)) : r.length < ts.length := by
  unfold stepPattern at h
  simp only [Option.bind_eq_bind, Option.bind_eq_some_iff, Prod.exists, Option.pure_def, Option.some.injEq, Prod.mk.injEq] at h
  obtain ⟨_, r1, h0, nx, r2, h1, _, r3, _, ny, r4, h2, _, r5, _, sx, r6, h3, sy, r7, h4, _, he⟩ := h
  subst he
  grind [→ expectKey_len, → number_len]

attribute [grind →] expectTT_len getName_len semi_len getKey_len expectKey_len expectIdent_len parseEnum_len number_len
  peekKey_len matchesTT_len point_len pointList_len geomMask_len geomIterate_len stepPattern_len
attribute [grind] tail_len_le

/-- destructure a successful monadic chain and finish by arithmetic over the registered progress facts -/
macro "progress" h:ident : tactic => `(tactic| (
  try simp only [Option.bind_eq_bind, Option.pure_def] at $h:ident
  grind (splits := 40) (ematch := 12) (gen := 12) [Option.bind_eq_some_iff, Option.map_eq_some_iff]))

theorem geomTail_len {it : Bool} {s : Shape} {ts : List Tok} {g : Geometry} {r : List Tok} (h : geomTail it s ts = some (g, r)) : r.length < ts.length := by
  unfold geomTail at h; progress h
attribute [grind →] geomTail_len
theorem geometry_len {ts : List Tok} {g : Geometry} {r : List Tok} (h : geometry ts = some (g, r)) : r.length < ts.length := by
  unfold geometry at h; progress h
attribute [grind →] geometry_len

theorem layerHeader_len : ∀ (f : Nat) (lg : LayerGeoms) (ts : List Tok) (lg' : LayerGeoms) (r : List Tok),
    layerHeader f lg ts = some (lg', r) → r.length < ts.length := by
  intro f
  induction f with
  | zero => intro lg ts lg' r h; simp [layerHeader] at h
  | succ f ih => intro lg ts lg' r h; rw [layerHeader] at h; progress h
attribute [grind →] layerHeader_len

theorem layerBody_len : ∀ (f : Nat) (lg : LayerGeoms) (ts : List Tok) (lg' : LayerGeoms) (r : List Tok),
    layerBody f lg ts = some (lg', r) → r.length ≤ ts.length := by
  intro f
  induction f with
  | zero => intro lg ts lg' r h; simp [layerBody] at h
  | succ f ih => intro lg ts lg' r h; rw [layerBody] at h; progress h
attribute [grind →] layerBody_len

theorem layerGeoms_len {ts : List Tok} {lg : LayerGeoms} {r : List Tok} (h : layerGeoms ts = some (lg, r)) : r.length < ts.length := by
  unfold layerGeoms at h; progress h
attribute [grind →] layerGeoms_len

theorem portBody_len : ∀ (f : Nat) (p : Port) (ts : List Tok) (res : Port) (r : List Tok),
    portBody f p ts = some (res, r) → r.length < ts.length := by
  intro f
  induction f with
  | zero => intro p ts res r h; simp [portBody] at h
  | succ f ih => intro p ts res r h; rw [portBody] at h; progress h
attribute [grind →] portBody_len

theorem port_len {ts : List Tok} {a : Port} {r : List Tok} (h : port ts = some (a, r)) : r.length < ts.length := by
  unfold port at h; progress h
attribute [grind →] port_len

theorem propertyPairs_len : ∀ (f : Nat) (acc : List Prop') (ts : List Tok) (res : List Prop') (r : List Tok),
    propertyPairs f acc ts = some (res, r) → r.length < ts.length := by
  intro f
  induction f with
  | zero => intro acc ts res r h; simp [propertyPairs] at h
  | succ f ih => intro acc ts res r h; rw [propertyPairs] at h; progress h
attribute [grind →] propertyPairs_len

theorem property_len {acc : List Prop'} {ts : List Tok} {a : List Prop'} {r : List Tok} (h : property acc ts = some (a, r)) : r.length < ts.length := by
  unfold property at h; progress h
attribute [grind →] property_len

theorem pinDirection_len {ts : List Tok} {a : String × Bool} {r : List Tok} (h : pinDirection ts = some (a, r)) : r.length < ts.length := by
  unfold pinDirection at h; progress h
attribute [grind →] pinDirection_len

theorem pinBody_len : ∀ (f : Nat) (p : Pin) (ts : List Tok) (res : Pin) (r : List Tok),
    pinBody f p ts = some (res, r) → r.length < ts.length := by
  intro f
  induction f with
  | zero => intro p ts res r h; simp [pinBody] at h
  | succ f ih => intro p ts res r h; rw [pinBody] at h; progress h
attribute [grind →] pinBody_len

theorem pin_len {ts : List Tok} {a : Pin} {r : List Tok} (h : pin ts = some (a, r)) : r.length < ts.length := by
  unfold pin at h; progress h
attribute [grind →] pin_len

theorem obsBody_len : ∀ (f : Nat) (acc : List LayerGeoms) (ts : List Tok) (res : List LayerGeoms) (r : List Tok),
    obsBody f acc ts = some (res, r) → r.length ≤ ts.length := by
  intro f
  induction f with
  | zero => intro acc ts res r h; simp [obsBody] at h
  | succ f ih => intro acc ts res r h; rw [obsBody] at h; progress h
attribute [grind →] obsBody_len

theorem densityRects_len : ∀ (f : Nat) (acc : List DensityRect) (ts : List Tok) (res : List DensityRect) (r : List Tok),
    densityRects f acc ts = some (res, r) → r.length ≤ ts.length := by
  intro f
  induction f with
  | zero => intro acc ts res r h; simp [densityRects] at h
  | succ f ih => intro acc ts res r h; rw [densityRects] at h; progress h
attribute [grind →] densityRects_len

theorem densityBody_len : ∀ (f : Nat) (acc : List DensityGeoms) (ts : List Tok) (res : List DensityGeoms) (r : List Tok),
    densityBody f acc ts = some (res, r) → r.length < ts.length := by
  intro f
  induction f with
  | zero => intro acc ts res r h; simp [densityBody] at h
  | succ f ih => intro acc ts res r h; rw [densityBody] at h; progress h
attribute [grind →] densityBody_len

theorem symmetries_len : ∀ (f : Nat) (acc : List String) (ts : List Tok) (res : List String) (r : List Tok),
    symmetries f acc ts = some (res, r) → r.length < ts.length := by
  intro f
  induction f with
  | zero => intro acc ts res r h; simp [symmetries] at h
  | succ f ih => intro acc ts res r h; rw [symmetries] at h; progress h
attribute [grind →] symmetries_len

theorem sizeStmt_len {ts : List Tok} {a : Dec × Dec} {r : List Tok} (h : sizeStmt ts = some (a, r)) : r.length < ts.length := by
  unfold sizeStmt at h; progress h
attribute [grind →] sizeStmt_len

theorem macroClass_len {ts : List Tok} {a : String × Option String × Bool} {r : List Tok} (h : macroClass ts = some (a, r)) : r.length < ts.length := by
  unfold macroClass at h; progress h
attribute [grind →] macroClass_len

theorem macroBody_len : ∀ (f : Nat) (ver : Dec) (m res : Macro) (ts : List Tok) (r : List Tok),
    macroBody ver f m ts = some (res, r) → r.length < ts.length := by
  intro f
  induction f with
  | zero => intro ver m res ts r h; simp [macroBody] at h
  | succ f ih => intro ver m res ts r h; rw [macroBody] at h; progress h
attribute [grind →] macroBody_len

theorem macro__len {ver : Dec} {ts : List Tok} {a : Macro} {r : List Tok} (h : macro_ ver ts = some (a, r)) : r.length < ts.length := by
  unfold macro_ at h; progress h
attribute [grind →] macro__len

theorem unitsBody_len : ∀ (f : Nat) (u res : Units) (ts : List Tok) (r : List Tok),
    unitsBody f u ts = some (res, r) → r.length < ts.length := by
  intro f
  induction f with
  | zero => intro u res ts r h; simp [unitsBody] at h
  | succ f ih => intro u res ts r h; rw [unitsBody] at h; progress h
attribute [grind →] unitsBody_len

theorem siteBody_len : ∀ (f : Nat) (name : Str) (b : SiteB) (res : Site) (ts : List Tok) (r : List Tok),
    siteBody name f b ts = some (res, r) → r.length < ts.length := by
  intro f
  induction f with
  | zero => intro name b res ts r h; simp [siteBody] at h
  | succ f ih => intro name b res ts r h; rw [siteBody] at h; progress h
attribute [grind →] siteBody_len

theorem site_len {ts : List Tok} {a : Site} {r : List Tok} (h : site ts = some (a, r)) : r.length < ts.length := by
  unfold site at h; progress h
attribute [grind →] site_len

theorem viaMask_len {ts : List Tok} {a : Option Dec} {r : List Tok} (h : viaMask ts = some (a, r)) : r.length ≤ ts.length := by
  unfold viaMask at h; progress h
attribute [grind →] viaMask_len

theorem viaShape_len {ts : List Tok} {a : ViaShape} {r : List Tok} (h : viaShape ts = some (a, r)) : r.length < ts.length := by
  unfold viaShape at h; progress h
attribute [grind →] viaShape_len

theorem viaShapes_len : ∀ (f : Nat) (acc res : List ViaShape) (ts : List Tok) (r : List Tok),
    viaShapes f acc ts = some (res, r) → r.length ≤ ts.length := by
  intro f
  induction f with
  | zero => intro acc res ts r h; simp [viaShapes] at h
  | succ f ih => intro acc res ts r h; rw [viaShapes] at h; progress h
attribute [grind →] viaShapes_len

theorem viaLayers_len : ∀ (f : Nat) (acc res : List ViaLayer) (ts : List Tok) (r : List Tok),
    viaLayers f acc ts = some (res, r) → r.length ≤ ts.length := by
  intro f
  induction f with
  | zero => intro acc res ts r h; simp [viaLayers] at h
  | succ f ih => intro acc res ts r h; rw [viaLayers] at h; progress h
attribute [grind →] viaLayers_len

theorem num2_len {ts : List Tok} {a : Dec × Dec} {r : List Tok} (h : num2 ts = some (a, r)) : r.length < ts.length := by
  unfold num2 at h; progress h
attribute [grind →] num2_len

theorem num4_len {ts : List Tok} {a : Dec × Dec × Dec × Dec} {r : List Tok} (h : num4 ts = some (a, r)) : r.length < ts.length := by
  unfold num4 at h; progress h
attribute [grind →] num4_len

theorem genViaBody_len : ∀ (f : Nat) (g res : GenB) (ts : List Tok) (r : List Tok),
    genViaBody f g ts = some (res, r) → r.length ≤ ts.length := by
  intro f
  induction f with
  | zero => intro g res ts r h; simp [genViaBody] at h
  | succ f ih => intro g res ts r h; rw [genViaBody] at h; progress h
attribute [grind →] genViaBody_len

theorem viaDataP_len {ts : List Tok} {a : ViaData} {r : List Tok} (h : viaDataP ts = some (a, r)) : r.length ≤ ts.length := by
  unfold viaDataP at h; progress h
attribute [grind →] viaDataP_len

theorem viaDef_len {ts : List Tok} {a : ViaDef} {r : List Tok} (h : viaDef ts = some (a, r)) : r.length < ts.length := by
  unfold viaDef at h; progress h
attribute [grind →] viaDef_len

theorem propDefTail_len {ts : List Tok} {a : Option Dec × Option (Dec × Dec)} {r : List Tok} (h : propDefTail ts = some (a, r)) : r.length < ts.length := by
  unfold propDefTail at h; progress h
attribute [grind →] propDefTail_len

theorem propDefs_len : ∀ (f : Nat) (acc res : List PropDef) (ts : List Tok) (r : List Tok),
    propDefs f acc ts = some (res, r) → r.length < ts.length := by
  intro f
  induction f with
  | zero => intro acc res ts r h; simp [propDefs] at h
  | succ f ih => intro acc res ts r h; rw [propDefs] at h; progress h
attribute [grind →] propDefs_len

theorem extBody_len : ∀ (f : Nat) (acc res : Str) (ts : List Tok) (r : List Tok),
    extBody f acc ts = some (res, r) → r.length < ts.length := by
  intro f
  induction f with
  | zero => intro acc res ts r h; simp [extBody] at h
  | succ f ih =>
    intro acc res ts r h
    cases ts with
    | nil => simp [extBody] at h
    | cons t rest =>
      simp only [extBody] at h
      split at h
      · cases h; simp
      · have := ih _ _ _ _ h; simp only [List.length_cons]; omega
attribute [grind →] extBody_len

/-! ### fuel: one more unit never changes the answer once the budget exceeds the input length -/
theorem bind_congr_mem {α β : Type} (o : Option α) (F G : α → Option β) (h : ∀ a, o = some a → F a = G a) : o.bind F = o.bind G := by
  cases o with
  | none => rfl
  | some a => exact h a rfl
theorem ite_congr_none {β : Type} (c : Prop) [Decidable c] (A B : Option β) (h : c → A = B) : (if c then A else none) = (if c then B else none) := by
  split
  · exact h ‹_›
  · rfl

macro "fuel_close" : tactic => `(tactic| repeat' (first
  | rfl
  | (apply bind_congr_mem; intro _ _)
  | (apply ite_congr_none; intro _)
  | (apply_assumption; grind)
  | grind))

theorem pointList_fuel : ∀ (f : Nat)  (ts : List Tok), ts.length < f → pointList f ts = pointList (f + 1) ts := by
  intro f  ts
  fun_induction pointList f ts <;> intro h <;> (try omega) <;> rw [pointList] <;> simp_all +zetaDelta
  all_goals fuel_close

theorem layerHeader_fuel : ∀ (f : Nat) (lg : LayerGeoms) (ts : List Tok), ts.length < f → layerHeader f lg ts = layerHeader (f + 1) lg ts := by
  intro f lg ts
  fun_induction layerHeader f lg ts <;> intro h <;> (try omega) <;> rw [layerHeader] <;> simp_all +zetaDelta
  all_goals fuel_close

theorem layerBody_fuel : ∀ (f : Nat) (lg : LayerGeoms) (ts : List Tok), ts.length < f → layerBody f lg ts = layerBody (f + 1) lg ts := by
  intro f lg ts
  fun_induction layerBody f lg ts <;> intro h <;> (try omega) <;> rw [layerBody] <;> simp_all +zetaDelta
  all_goals fuel_close

theorem portBody_fuel : ∀ (f : Nat) (p : Port) (ts : List Tok), ts.length < f → portBody f p ts = portBody (f + 1) p ts := by
  intro f p ts
  fun_induction portBody f p ts <;> intro h <;> (try omega) <;> rw [portBody] <;> simp_all +zetaDelta
  all_goals fuel_close

theorem propertyPairs_fuel : ∀ (f : Nat) (acc : List Prop') (ts : List Tok), ts.length < f → propertyPairs f acc ts = propertyPairs (f + 1) acc ts := by
  intro f acc ts
  fun_induction propertyPairs f acc ts <;> intro h <;> (try omega) <;> rw [propertyPairs] <;> simp_all +zetaDelta
  all_goals fuel_close

theorem ite_congr_both {β : Type} (c : Prop) [Decidable c] (A A' B B' : β) (h1 : c → A = A') (h2 : ¬c → B = B') :
    (if c then A else B) = (if c then A' else B') := by
  split
  · exact h1 ‹_›
  · exact h2 ‹_›

/-- close `body(loop f) = body(loop (f+1))` given `ih : ∀ …, len < f → loop f … = loop (f+1) …` -/
macro "fuel_body" ih:ident : tactic => `(tactic| repeat' (first
  | rfl
  | (apply bind_congr_mem; intro _ _)
  | (apply ite_congr_both <;> intro _)
  | (apply $ih:ident; grind)
  | split))

theorem pinBody_fuel : ∀ (f : Nat) (p : Pin) (ts : List Tok), ts.length < f → pinBody f p ts = pinBody (f + 1) p ts := by
  intro f
  induction f with
  | zero => intro p ts h; omega
  | succ f ih =>
    intro p ts h
    rw [pinBody, pinBody]
    cases hk : peekKey ts with
    | none => rfl
    | some k =>
      dsimp only
      fuel_body ih

theorem obsBody_fuel : ∀ (f : Nat) (acc : List LayerGeoms) (ts : List Tok), ts.length < f → obsBody f acc ts = obsBody (f + 1) acc ts := by
  intro f acc ts
  fun_induction obsBody f acc ts <;> intro h <;> (try omega) <;> rw [obsBody] <;> simp_all +zetaDelta
  all_goals fuel_close

theorem densityRects_fuel : ∀ (f : Nat) (acc : List DensityRect) (ts : List Tok), ts.length < f → densityRects f acc ts = densityRects (f + 1) acc ts := by
  intro f acc ts
  fun_induction densityRects f acc ts <;> intro h <;> (try omega) <;> rw [densityRects] <;> simp_all +zetaDelta
  all_goals fuel_close

theorem densityBody_fuel : ∀ (f : Nat) (acc : List DensityGeoms) (ts : List Tok), ts.length < f → densityBody f acc ts = densityBody (f + 1) acc ts := by
  intro f acc ts
  fun_induction densityBody f acc ts <;> intro h <;> (try omega) <;> rw [densityBody] <;> simp_all +zetaDelta
  all_goals fuel_close

theorem symmetries_fuel : ∀ (f : Nat) (acc : List String) (ts : List Tok), ts.length < f → symmetries f acc ts = symmetries (f + 1) acc ts := by
  intro f acc ts
  fun_induction symmetries f acc ts <;> intro h <;> (try omega) <;> rw [symmetries] <;> simp_all +zetaDelta
  all_goals fuel_close

theorem macroBody_fuel (ver : Dec) : ∀ (f : Nat) (m : Macro) (ts : List Tok), ts.length < f → macroBody ver f m ts = macroBody ver (f + 1) m ts := by
  intro f
  induction f with
  | zero => intro m ts h; omega
  | succ f ih =>
    intro m ts h
    rw [macroBody, macroBody]
    cases hk : peekKey ts with
    | none => rfl
    | some k =>
      dsimp only
      fuel_body ih

theorem unitsBody_fuel : ∀ (f : Nat) (u : Units) (ts : List Tok), ts.length < f → unitsBody f u ts = unitsBody (f + 1) u ts := by
  intro f
  induction f with
  | zero => intro u ts h; omega
  | succ f ih =>
    intro u ts h
    rw [unitsBody, unitsBody]
    cases hk : getKey ts with
    | none => rfl
    | some kr =>
      obtain ⟨k, r⟩ := kr
      dsimp only
      fuel_body ih

theorem siteBody_fuel (name : Str) : ∀ (f : Nat) (b : SiteB) (ts : List Tok), ts.length < f → siteBody name f b ts = siteBody name (f + 1) b ts := by
  intro f
  induction f with
  | zero => intro b ts h; omega
  | succ f ih =>
    intro b ts h
    rw [siteBody, siteBody]
    cases hk : peekKey ts with
    | none => rfl
    | some k =>
      dsimp only
      fuel_body ih

theorem viaShapes_fuel : ∀ (f : Nat) (acc : List ViaShape) (ts : List Tok), ts.length < f → viaShapes f acc ts = viaShapes (f + 1) acc ts := by
  intro f
  induction f with
  | zero => intro acc ts h; omega
  | succ f ih =>
    intro acc ts h
    rw [viaShapes, viaShapes]
    cases hk : peekKey ts with
    | none => first | rfl | (simp only [hk]; fuel_body ih)
    | some k =>
      dsimp only
      fuel_body ih

theorem viaLayers_fuel : ∀ (f : Nat) (acc : List ViaLayer) (ts : List Tok), ts.length < f → viaLayers f acc ts = viaLayers (f + 1) acc ts := by
  intro f
  induction f with
  | zero => intro acc ts h; omega
  | succ f ih =>
    intro acc ts h
    rw [viaLayers, viaLayers]
    cases hk : peekKey ts with
    | none => first | rfl | (simp only [hk]; fuel_body ih)
    | some k =>
      dsimp only
      fuel_body ih

theorem genViaBody_fuel : ∀ (f : Nat) (g : GenB) (ts : List Tok), ts.length < f → genViaBody f g ts = genViaBody (f + 1) g ts := by
  intro f
  induction f with
  | zero => intro g ts h; omega
  | succ f ih =>
    intro g ts h
    rw [genViaBody, genViaBody]
    cases hk : peekKey ts with
    | none => first | rfl | (simp only [hk]; fuel_body ih)
    | some k =>
      dsimp only
      fuel_body ih

theorem propDefs_fuel : ∀ (f : Nat) (acc : List PropDef) (ts : List Tok), ts.length < f → propDefs f acc ts = propDefs (f + 1) acc ts := by
  intro f
  induction f with
  | zero => intro acc ts h; omega
  | succ f ih =>
    intro acc ts h
    rw [propDefs, propDefs]
    cases hk : peekKey ts with
    | none => first | rfl | (simp only [hk]; fuel_body ih)
    | some k =>
      dsimp only
      fuel_body ih

theorem extBody_fuel : ∀ (f : Nat) (acc : Str) (ts : List Tok), ts.length < f → extBody f acc ts = extBody (f + 1) acc ts := by
  intro f
  induction f with
  | zero => intro acc ts h; omega
  | succ f ih =>
    intro acc ts h
    cases ts with
    | nil => simp [extBody]
    | cons t r =>
      simp only [extBody]
      split
      · rfl
      · exact ih _ _ (by simp at h; omega)

theorem libBody_fuel : ∀ (f : Nat) (ver : Dec) (lib : Lib) (ts : List Tok), ts.length < f → libBody f ver lib ts = libBody (f + 1) ver lib ts := by
  intro f
  induction f with
  | zero => intro ver lib ts h; omega
  | succ f ih =>
    intro ver lib ts h
    rw [libBody, libBody]
    apply ite_congr_both
    · intro _; rfl
    · intro _
      cases hk : peekKey ts with
      | none => rfl
      | some k =>
        dsimp only
        fuel_body ih

/-- any budget above the input length gives the answer of the budget the reader starts with -/
theorem libBody_fuel_any (ver : Dec) (lib : Lib) (ts : List Tok) : ∀ (n : Nat),
    libBody (ts.length + 1 + n) ver lib ts = libBody (ts.length + 1) ver lib ts := by
  intro n
  induction n with
  | zero => rfl
  | succ n ih => rw [← ih, ← Nat.add_assoc, ← libBody_fuel _ _ _ _ (by omega)]

end L21.Lef
