import L21.Model.Dep
/-
Helper definitions and lemmas for C17. Property theorems are in `L21/Props/C17.lean`.
-/
namespace L21.Dep

variable (adj : Nat → List Nat)

/-- `Reach x y`: y is reachable from x along dependency edges (reflexive, transitive). -/
inductive Reach : Nat → Nat → Prop where
  | refl (x : Nat) : Reach x x
  | step {x d y : Nat} : d ∈ adj x → Reach d y → Reach x y

theorem Reach.trans {adj} {x y z : Nat} (h1 : Reach adj x y) (h2 : Reach adj y z) : Reach adj x z := by
  induction h1 with
  | refl => exact h2
  | step hd _ ih => exact Reach.step hd (ih h2)

/-- A list is a dependencies-first order: built by appending items none of which is
    already present and all of whose direct dependencies are. -/
inductive Topo : List Nat → Prop where
  | nil : Topo []
  | snoc {l : List Nat} {x : Nat} : Topo l → x ∉ l → (∀ d ∈ adj x, d ∈ l) → Topo (l ++ [x])

theorem Topo.nodup {adj} {l : List Nat} (h : Topo adj l) : l.Nodup := by
  induction h with
  | nil => exact List.nodup_nil
  | snoc _ hx _ ih =>
    rw [List.nodup_append]
    refine ⟨ih, by simp, ?_⟩
    intro a ha b hb
    simp at hb; subst hb
    intro e; subst e; exact hx ha

/-- every direct dependency of an element occurs strictly earlier -/
theorem Topo.deps_before {adj} {l : List Nat} (h : Topo adj l) :
    ∀ l1 x l2, l = l1 ++ x :: l2 → ∀ d ∈ adj x, d ∈ l1 := by
  induction h with
  | nil => intro l1 x l2 e; simp at e
  | @snoc l y hl hy hd ih =>
    intro l1 x l2 e d hdx
    rcases List.eq_nil_or_concat l2 with rfl | ⟨l2', z, rfl⟩
    · -- x is the last element
      have : l ++ [y] = l1 ++ [x] := e
      have h2 := List.append_inj' this rfl
      obtain ⟨e1, e2⟩ := h2
      simp at e2; subst e2; subst e1
      exact hd d hdx
    · have : l ++ [y] = (l1 ++ x :: l2') ++ [z] := by simp [e]
      have h2 := List.append_inj' this rfl
      exact ih l1 x l2' h2.1 d hdx

theorem Topo.closed {adj} {l : List Nat} (h : Topo adj l) : ∀ x ∈ l, ∀ d ∈ adj x, d ∈ l := by
  intro x hx d hd
  obtain ⟨l1, l2, e⟩ := List.append_of_mem hx
  have := h.deps_before l1 x l2 e d hd
  rw [e]; exact List.mem_append_left _ this

theorem Topo.reach_closed {adj} {l : List Nat} (h : Topo adj l) {x y : Nat} (hx : x ∈ l) (r : Reach adj x y) : y ∈ l := by
  induction r with
  | refl => exact hx
  | step hd _ ih => exact ih (h.closed _ hx _ hd)

/-- no element of a dependencies-first order lies on a cycle -/
theorem Topo.acyclic {adj} {l : List Nat} (h : Topo adj l) : ∀ x ∈ l, ∀ d ∈ adj x, ¬ Reach adj d x := by
  induction h with
  | nil => intro x hx; simp at hx
  | @snoc l y hl hy hd ih =>
    intro x hx d hdx r
    rw [List.mem_append] at hx
    rcases hx with hx | hx
    · exact ih x hx d hdx r
    · simp at hx; subst hx
      exact hy (hl.reach_closed (hd d hdx) r)

/-- extension relation between the stack before and after a call -/
def Ext (stack st pending : List Nat) (from_ : List Nat) : Prop :=
  ∃ t, st = stack ++ t ∧ (∀ y ∈ t, y ∉ pending) ∧ (∀ y ∈ t, ∃ x ∈ from_, Reach adj x y)

def PushSpec (f : Nat) : Prop :=
  ∀ x stack P st, push adj f x stack P = .ok st → Topo adj stack →
    Topo adj st ∧ Ext adj stack st P [x] ∧ x ∈ st

def PushAllSpec (f : Nat) : Prop :=
  ∀ xs stack P st, pushAll adj f xs stack P = .ok st → Topo adj stack →
    Topo adj st ∧ Ext adj stack st P xs ∧ ∀ x ∈ xs, x ∈ st

theorem pushAll_of_push (f : Nat) (hp : PushSpec adj f) : PushAllSpec adj f := by
  intro xs
  induction xs with
  | nil =>
    intro stack P st h ht
    simp [pushAll] at h; subst h
    exact ⟨ht, ⟨[], by simp, by simp, by simp⟩, by simp⟩
  | cons y ys ih =>
    intro stack P st h ht
    rw [pushAll] at h
    cases hpy : push adj f y stack P with
    | ok st1 =>
      rw [hpy] at h
      obtain ⟨t1, ⟨u1, e1, n1, r1⟩, m1⟩ := hp y stack P st1 hpy ht
      obtain ⟨t2, ⟨u2, e2, n2, r2⟩, m2⟩ := ih st1 P st h t1
      refine ⟨t2, ⟨u1 ++ u2, by rw [e2, e1, List.append_assoc], ?_, ?_⟩, ?_⟩
      · intro z hz; rw [List.mem_append] at hz
        rcases hz with hz | hz
        · exact n1 z hz
        · exact n2 z hz
      · intro z hz; rw [List.mem_append] at hz
        rcases hz with hz | hz
        · obtain ⟨x, hx, r⟩ := r1 z hz
          simp at hx; subst hx
          exact ⟨x, by simp, r⟩
        · obtain ⟨x, hx, r⟩ := r2 z hz
          exact ⟨x, List.mem_cons_of_mem _ hx, r⟩
      · intro x hx
        rw [List.mem_cons] at hx
        rcases hx with rfl | hx
        · rw [e2]; exact List.mem_append_left _ m1
        · exact m2 x hx
    | cycle => rw [hpy] at h; simp at h
    | fuel => rw [hpy] at h; simp at h

theorem push_succ (f : Nat) (ha : PushAllSpec adj f) : PushSpec adj (f + 1) := by
  intro x stack P st h ht
  rw [push] at h
  by_cases h1 : x ∈ stack
  · simp [h1] at h; subst h
    exact ⟨ht, ⟨[], by simp, by simp, by simp⟩, h1⟩
  · by_cases h2 : x ∈ P
    · simp [h1, h2] at h
    · simp only [h1, h2, if_false] at h
      cases hpa : pushAll adj f (adj x) stack (x :: P) with
      | ok st' =>
        rw [hpa] at h
        simp at h; subst h
        obtain ⟨t', ⟨u, e, n, r⟩, m⟩ := ha (adj x) stack (x :: P) st' hpa ht
        have hx : x ∉ st' := by
          rw [e, List.mem_append]
          rintro (hx | hx)
          · exact h1 hx
          · exact n x hx (by simp)
        refine ⟨Topo.snoc t' hx m, ⟨u ++ [x], by rw [e, List.append_assoc], ?_, ?_⟩, by simp⟩
        · intro z hz; rw [List.mem_append] at hz
          rcases hz with hz | hz
          · intro hzP; exact n z hz (List.mem_cons_of_mem _ hzP)
          · simp at hz; subst hz; exact h2
        · intro z hz; rw [List.mem_append] at hz
          rcases hz with hz | hz
          · obtain ⟨d, hd, rd⟩ := r z hz
            exact ⟨x, by simp, Reach.step hd rd⟩
          · simp at hz; subst hz; exact ⟨z, by simp, Reach.refl z⟩
      | cycle => rw [hpa] at h; simp at h
      | fuel => rw [hpa] at h; simp at h

theorem push_zero : PushSpec adj 0 := by
  intro x stack P st h _
  simp [push] at h

theorem specs (f : Nat) : PushSpec adj f ∧ PushAllSpec adj f := by
  induction f with
  | zero => exact ⟨push_zero adj, pushAll_of_push adj 0 (push_zero adj)⟩
  | succ f ih =>
    have hp := push_succ adj f ih.2
    exact ⟨hp, pushAll_of_push adj (f + 1) hp⟩

/-! ### recursion depth: the fuel is never exhausted when it exceeds the number of nodes -/

theorem length_le_of_nodup_lt : ∀ (n : Nat) (P : List Nat), P.Nodup → (∀ p ∈ P, p < n) → P.length ≤ n := by
  intro n
  induction n with
  | zero =>
    intro P _ hb
    cases P with
    | nil => simp
    | cons a t => exact absurd (hb a (by simp)) (by omega)
  | succ n ih =>
    intro P hn hb
    by_cases hm : n ∈ P
    · have h1 := ih (P.erase n) (hn.erase n) (by
        intro p hp
        have hp' := (List.Nodup.mem_erase_iff hn).1 hp
        have := hb p hp'.2
        omega)
      have h2 := List.length_erase_of_mem hm
      have : 0 < P.length := List.length_pos_of_mem hm
      omega
    · have := ih P hn (by
        intro p hp
        have := hb p hp
        have : p ≠ n := by intro e; subst e; exact hm hp
        omega)
      omega

def Bounded (n : Nat) : Prop := ∀ x, ∀ d ∈ adj x, d < n

def NoFuelPush (n f : Nat) : Prop :=
  ∀ x stack P, x < n → P.Nodup → (∀ p ∈ P, p < n) → n < f + P.length → push adj f x stack P ≠ .fuel
def NoFuelAll (n f : Nat) : Prop :=
  ∀ xs stack P, (∀ x ∈ xs, x < n) → P.Nodup → (∀ p ∈ P, p < n) → n < f + P.length → pushAll adj f xs stack P ≠ .fuel

theorem noFuelAll_of_push (n f : Nat) (hp : NoFuelPush adj n f) : NoFuelAll adj n f := by
  intro xs
  induction xs with
  | nil => intro stack P _ _ _ _; simp [pushAll]
  | cons y ys ih =>
    intro stack P hx hn hb hf
    rw [pushAll]
    cases hpy : push adj f y stack P with
    | ok st1 => exact ih st1 P (fun x h => hx x (List.mem_cons_of_mem _ h)) hn hb hf
    | cycle => simp
    | fuel => exact absurd hpy (hp y stack P (hx y (by simp)) hn hb hf)

theorem noFuel (n : Nat) (hbd : Bounded adj n) : ∀ f, NoFuelPush adj n f ∧ NoFuelAll adj n f := by
  intro f
  induction f with
  | zero =>
    have hp : NoFuelPush adj n 0 := by
      intro x stack P _ hn hb hf
      have := length_le_of_nodup_lt n P hn hb
      omega
    exact ⟨hp, noFuelAll_of_push adj n 0 hp⟩
  | succ f ih =>
    have hp : NoFuelPush adj n (f + 1) := by
      intro x stack P hx hn hb hf
      rw [push]
      by_cases h1 : x ∈ stack
      · simp [h1]
      · by_cases h2 : x ∈ P
        · simp [h1, h2]
        · simp only [h1, h2, if_false]
          have := ih.2 (adj x) stack (x :: P) (hbd x) (List.nodup_cons.2 ⟨h2, hn⟩)
            (by intro p hp; rw [List.mem_cons] at hp; rcases hp with rfl | hp; exact hx; exact hb p hp)
            (by simp; omega)
          cases hpa : pushAll adj f (adj x) stack (x :: P) with
          | ok st => simp
          | cycle => simp
          | fuel => exact absurd hpa this
    exact ⟨hp, noFuelAll_of_push adj n (f + 1) hp⟩

end L21.Dep
