import L21.Proofs.RawProtoRT
/-
C14 — the converse trip (message → raw → message), layout level: regrouping what was imported
rebuilds every group in place.
-/
namespace L21.RawProto
open L21.Geom

theorem groupElems_append : ∀ (es1 es2 : List Elem) (acc : List LayerShapes),
    groupElems (es1 ++ es2) acc = groupElems es2 (groupElems es1 acc) := by
  intro es1
  induction es1 with
  | nil => intro es2 acc; rfl
  | cons e r ih => intro es2 acc; simp only [List.cons_append, groupElems]; exact ih es2 _

/-- a message rectangle as the exporter writes rectangles: lower-left corner present, sizes ≥ 0 -/
def rectCanon (r : PRect) : Bool := r.ll.isSome && decide (0 ≤ r.w) && decide (0 ≤ r.h)
def groupCanon (g : LayerShapes) : Bool :=
  (match g.layer with | some (ln, pn) => inI16 ln && inI16 pn | none => false) &&
  g.rects.all rectCanon && g.paths.all pathOk && !(g.rects.isEmpty && g.polys.isEmpty && g.paths.isEmpty)

theorem netStr_optNet (n : Bytes) : netStr (optNet n) = n := by
  unfold optNet; split <;> simp_all [netStr]

/-- adding, to a group that holds a prefix of `g`'s shapes, the next shapes of `g` -/
theorem upd_self (key : Int × Int) (net : Bytes) (s : Shape) (pre post : List LayerShapes) (g : LayerShapes)
    (hk : g.layer = some key) (hpre : ∀ x ∈ pre, x.layer ≠ some key) (hpost : ∀ x ∈ post, x.layer ≠ some key) :
    (pre ++ g :: post).map (fun x => if x.layer == some key then addShape x net s else x) = pre ++ addShape g net s :: post := by
  have hid : ∀ l : List LayerShapes, (∀ x ∈ l, x.layer ≠ some key) →
      l.map (fun x => if x.layer == some key then addShape x net s else x) = l := by
    intro l hl
    induction l with
    | nil => rfl
    | cons x r ih =>
      have : (x.layer == some key) = false := by simpa using hl x (by simp)
      simp only [List.map_cons, this, Bool.false_eq_true, if_false]
      rw [ih (fun y hy => hl y (by simp [hy]))]
  simp only [List.map_append, List.map_cons, hid pre hpre, hid post hpost, hk, beq_self_eq_true, if_true]


def build (es : List Elem) (h : LayerShapes) : LayerShapes := es.foldl (fun h e => addShape h (netStr e.net) e.shape) h

theorem build_layer (es : List Elem) (h : LayerShapes) : (build es h).layer = h.layer := by
  induction es generalizing h with
  | nil => rfl
  | cons e r ih => simp only [build, List.foldl_cons] at ih ⊢; rw [ih]; exact addShape_layer _ _ _

/-- elements of one key, arriving when their group is the last one: they all land in it, in order -/
theorem groupElems_same_key (key : Int × Int) : ∀ (es : List Elem) (acc : List LayerShapes) (h : LayerShapes),
    (∀ e ∈ es, (e.layer, e.purpose) = key) → h.layer = some key → (∀ x ∈ acc, x.layer ≠ some key) →
    groupElems es (acc ++ [h]) = acc ++ [build es h] := by
  intro es
  induction es with
  | nil => intro acc h _ _ _; rfl
  | cons e r ih =>
    intro acc h hes hh hacc
    have hk : (e.layer, e.purpose) = key := hes e (by simp)
    simp only [groupElems, hk]
    have hany : (acc ++ [h]).any (fun g => g.layer == some key) = true := by
      rw [List.any_eq_true]; exact ⟨h, by simp, by simp [hh]⟩
    simp only [hany, if_true]
    have := upd_self key (netStr e.net) e.shape acc [] h hh hacc (by simp)
    rw [this]
    rw [ih acc (addShape h (netStr e.net) e.shape) (fun x hx => hes x (by simp [hx])) (by rw [addShape_layer]; exact hh) hacc]
    rfl

/-- … and when no group has their key yet, the first one opens it -/
theorem groupElems_new_key (key : Int × Int) (es : List Elem) (acc : List LayerShapes)
    (hes : ∀ e ∈ es, (e.layer, e.purpose) = key) (hne : es ≠ []) (hacc : ∀ x ∈ acc, x.layer ≠ some key) :
    groupElems es acc = acc ++ [build es ⟨some key, [], [], []⟩] := by
  cases es with
  | nil => exact absurd rfl hne
  | cons e r =>
    have hk : (e.layer, e.purpose) = key := hes e (by simp)
    simp only [groupElems, hk]
    have hany : acc.any (fun g => g.layer == some key) = false := by
      rw [List.any_eq_false]; intro x hx; simpa using hacc x hx
    simp only [hany, Bool.false_eq_true, if_false]
    rw [groupElems_same_key key r acc _ (fun x hx => hes x (by simp [hx])) (by rw [addShape_layer]) hacc]
    rfl


theorem build_append (a b : List Elem) (h : LayerShapes) : build (a ++ b) h = build b (build a h) := by
  simp [build, List.foldl_append]

theorem build_rects (k : Int × Int) : ∀ (rs : List PRect) (h : LayerShapes), rs.all rectCanon = true →
    build ((rectsOf rs).map (fun s => (⟨optNet s.1, k.1, k.2, s.2⟩ : Elem))) h = { h with rects := h.rects ++ rs } := by
  intro rs
  induction rs with
  | nil => intro h _; simp [build, rectsOf]
  | cons r rest ih =>
    intro h hc
    simp only [List.all_cons, Bool.and_eq_true] at hc
    obtain ⟨hr, hrest⟩ := hc
    simp only [rectCanon, Bool.and_eq_true, decide_eq_true_eq] at hr
    obtain ⟨⟨hll, hw⟩, hh⟩ := hr
    cases hl : r.ll with
    | none => simp [hl] at hll
    | some p =>
      have hstep : addShape h (netStr (optNet r.net)) (.rect p ⟨p.x + r.w, p.y + r.h⟩) = { h with rects := h.rects ++ [r] } := by
        simp only [addShape, exportRect, netStr_optNet]
        have e1 : min p.x (p.x + r.w) = p.x := by omega
        have e2 : min p.y (p.y + r.h) = p.y := by omega
        have e3 : max p.x (p.x + r.w) - p.x = r.w := by omega
        have e4 : max p.y (p.y + r.h) - p.y = r.h := by omega
        simp only [e1, e2, e3, e4]
        cases r; simp_all
      have := ih { h with rects := h.rects ++ [r] } hrest
      simp only [rectsOf, List.map_cons, build, List.foldl_cons, hl, Option.getD_some] at this ⊢
      rw [hstep, this]
      simp

theorem build_polys (k : Int × Int) : ∀ (ps : List PPoly) (h : LayerShapes),
    build ((polysOf ps).map (fun s => (⟨optNet s.1, k.1, k.2, s.2⟩ : Elem))) h = { h with polys := h.polys ++ ps } := by
  intro ps
  induction ps with
  | nil => intro h; simp [build, polysOf]
  | cons q rest ih =>
    intro h
    have := ih { h with polys := h.polys ++ [q] }
    simp only [polysOf, List.map_cons, build, List.foldl_cons, addShape, netStr_optNet] at this ⊢
    rw [this]; simp

theorem build_paths (k : Int × Int) : ∀ (ps : List PPath) (h : LayerShapes), ps.all pathOk = true →
    build ((pathsOf ps).map (fun s => (⟨optNet s.1, k.1, k.2, s.2⟩ : Elem))) h = { h with paths := h.paths ++ ps } := by
  intro ps
  induction ps with
  | nil => intro h _; simp [build, pathsOf]
  | cons q rest ih =>
    intro h hc
    simp only [List.all_cons, Bool.and_eq_true, pathOk, decide_eq_true_eq] at hc
    have hq : ((q.width.toNat : Nat) : Int) = q.width := Int.toNat_of_nonneg hc.1
    have hstep : addShape h (netStr (optNet q.net)) (.path q.pts q.width.toNat) = { h with paths := h.paths ++ [q] } := by
      simp only [addShape, netStr_optNet, hq]
    have := ih { h with paths := h.paths ++ [q] } (by simpa [pathOk] using hc.2)
    simp only [pathsOf, List.map_cons, build, List.foldl_cons] at this ⊢
    rw [hstep, this]; simp

theorem build_group (g : LayerShapes) (k : Int × Int) (hk : g.layer = some k) (hc : groupCanon g = true) :
    build (groupElemsOut g) ⟨some k, [], [], []⟩ = g := by
  simp only [groupCanon, Bool.and_eq_true] at hc
  obtain ⟨⟨⟨_, hr⟩, hp⟩, _⟩ := hc
  simp only [groupElemsOut, hk, List.map_append, build_append]
  rw [build_rects k g.rects _ hr, build_polys, build_paths k g.paths _ hp]
  cases g; simp_all


theorem groupElemsOut_key (g : LayerShapes) (k : Int × Int) (hk : g.layer = some k) : ∀ e ∈ groupElemsOut g, (e.layer, e.purpose) = k := by
  intro e he
  simp only [groupElemsOut, hk, List.mem_map] at he
  obtain ⟨s, _, rfl⟩ := he
  rfl

theorem groupElemsOut_ne (g : LayerShapes) (k : Int × Int) (hk : g.layer = some k) (hc : groupCanon g = true) : groupElemsOut g ≠ [] := by
  simp only [groupCanon, Bool.and_eq_true, Bool.not_eq_true', Bool.and_eq_false_iff] at hc
  obtain ⟨_, hne⟩ := hc
  intro h
  simp only [groupElemsOut, hk, List.map_eq_nil_iff, List.append_eq_nil_iff, rectsOf, polysOf, pathsOf] at h
  obtain ⟨⟨h1, h2⟩, h3⟩ := h
  simp [h1, h2, h3] at hne

/-- **regrouping what was imported gives the groups back**: same groups, same order, same contents -/
theorem regroup : ∀ (gs acc : List LayerShapes), gs.all groupCanon = true → ((acc ++ gs).map (·.layer)).Nodup →
    groupElems (F gs) acc = acc ++ gs := by
  intro gs
  induction gs with
  | nil => intro acc _ _; simp [F, groupElems]
  | cons g rest ih =>
    intro acc hc hnd
    simp only [List.all_cons, Bool.and_eq_true] at hc
    obtain ⟨hg, hrest⟩ := hc
    have hgl : ∃ k, g.layer = some k := by
      simp only [groupCanon, Bool.and_eq_true] at hg
      cases hl : g.layer with
      | none => simp [hl] at hg
      | some k => exact ⟨k, rfl⟩
    obtain ⟨k, hk⟩ := hgl
    have hacc : ∀ x ∈ acc, x.layer ≠ some k := by
      intro x hx e
      simp only [List.map_append, List.map_cons] at hnd
      have := (List.nodup_append.1 hnd).2.2 x.layer (List.mem_map_of_mem hx) g.layer (by simp)
      exact this (by rw [e, hk])
    simp only [F, List.flatMap_cons]
    rw [groupElems_append, groupElems_new_key k _ acc (groupElemsOut_key g k hk) (groupElemsOut_ne g k hk hg) hacc,
      build_group g k hk hg]
    have := ih (acc ++ [g]) hrest (by simpa [List.append_assoc] using hnd)
    simpa [F, List.append_assoc] using this


/-- a message instance the importer accepts: a local reference to a known cell, with an origin -/
def pinstOk (known : List Bytes) (i : PInst) : Bool :=
  (match i.ref with | .localRef n => known.contains n | _ => false) && i.origin.isSome

theorem importInsts_back (known : List Bytes) : ∀ (is : List PInst), is.all (pinstOk known) = true →
    ∃ out, importInsts known is = .ok out ∧ out.map exportInst = is := by
  intro is
  induction is with
  | nil => intro _; exact ⟨[], rfl, rfl⟩
  | cons i r ih =>
    intro h
    simp only [List.all_cons, Bool.and_eq_true] at h
    obtain ⟨hi, hr⟩ := h
    obtain ⟨out, ho, hm⟩ := ih hr
    obtain ⟨name, ref, origin, refl, rot⟩ := i
    simp only [pinstOk, Bool.and_eq_true] at hi
    cases ref with
    | none => simp at hi
    | external => simp at hi
    | localRef n =>
      cases origin with
      | none => simp at hi
      | some loc =>
        have hkn : known.contains n = true := hi.1
        refine ⟨⟨name, n, loc, refl, if rot = 0 then none else some rot⟩ :: out, by simp only [importInsts, ho, hkn, if_true], ?_⟩
        simp only [List.map_cons, hm, exportInst]
        congr 1
        by_cases h0 : rot = 0 <;> simp [h0]

theorem importAnnots_back : ∀ (as : List (Bytes × Option Pt)), as.all (fun a => a.2.isSome) = true →
    ∃ out, importAnnots as = .ok out ∧ out.map (fun a => (a.1, some a.2)) = as := by
  intro as
  induction as with
  | nil => intro _; exact ⟨[], rfl, rfl⟩
  | cons a r ih =>
    intro h
    simp only [List.all_cons, Bool.and_eq_true] at h
    obtain ⟨out, ho, hm⟩ := ih h.2
    obtain ⟨s, p⟩ := a
    cases p with
    | none => simp at h
    | some q => exact ⟨(s, q) :: out, by simp [importAnnots, ho], by simp [hm]⟩

theorem groupCanon_ok (g : LayerShapes) (h : groupCanon g = true) : groupOk g = true := by
  simp only [groupCanon, Bool.and_eq_true] at h
  obtain ⟨⟨⟨h1, h2⟩, h3⟩, _⟩ := h
  simp only [groupOk, Bool.and_eq_true]
  refine ⟨⟨h1, ?_⟩, h3⟩
  rw [List.all_eq_true] at h2 ⊢
  intro r hr
  have := h2 r hr
  simp only [rectCanon, Bool.and_eq_true] at this
  exact this.1.1

end L21.RawProto
