import L21.Proofs.LefRT
/-
Library level of the LEF token round trip: every statement of `wLib` is read back by `libBody`,
and the whole token sequence of a well-formed library parses to that library.
-/
namespace L21.Lef
open L21.LefLex L21.LefEnum L21.Gen

theorem k_Version : isKey "Version" = true := by decide +kernel
theorem k_BusBitChars : isKey "BusBitChars" = true := by decide +kernel
theorem k_DividerChar : isKey "DividerChar" = true := by decide +kernel
theorem k_NamesCaseSensitive : isKey "NamesCaseSensitive" = true := by decide +kernel
theorem k_NoWireExtensionAtPin : isKey "NoWireExtensionAtPin" = true := by decide +kernel
theorem k_UseMinSpacing : isKey "UseMinSpacing" = true := by decide +kernel
theorem k_ClearanceMeasure : isKey "ClearanceMeasure" = true := by decide +kernel
theorem k_ManufacturingGrid : isKey "ManufacturingGrid" = true := by decide +kernel
theorem k_BeginExtension : isKey "BeginExtension" = true := by decide +kernel
theorem k_EndExtension : isKey "EndExtension" = true := by decide +kernel
theorem k_Library : isKey "Library" = true := by decide +kernel
theorem t_OnOff : (lefEnums.lookup "LefOnOff").isSome = true := by decide +kernel
theorem t_Clearance : (lefEnums.lookup "LefClearanceStyle").isSome = true := by decide +kernel

/-! one-statement steps of `libBody` -/
theorem lb_version (f : Nat) (ver : Dec) (lib : Lib) (d : Dec) (T : List Tok) (h : decOk d = true) (hv : versionOk d = true)
    (hg : (lib.namesCaseSensitive.isSome || lib.macros.any (·.source.isSome)) = false) :
    libBody (f + 1) ver lib (kw "Version" :: num d :: semiTok :: T) = libBody f d { lib with version := some d } T := by
  rw [libBody]; simp [peekKey_kw "Version" _ k_Version, number_num d _ h, semi_semiTok, hv, hg]

theorem lb_ncs (f : Nat) (ver : Dec) (lib : Lib) (e : String) (T : List Tok) (h : isVariant "LefOnOff" e = true) (hv : v5p4.lt ver = false) :
    libBody (f + 1) ver lib (kw "NamesCaseSensitive" :: en "LefOnOff" e :: semiTok :: T) = libBody f ver { lib with namesCaseSensitive := some e } T := by
  rw [libBody]; simp [peekKey_kw "NamesCaseSensitive" _ k_NamesCaseSensitive, parseEnum_en "LefOnOff" e _ t_OnOff h, semi_semiTok, hv]

theorem lb_nowire (f : Nat) (ver : Dec) (lib : Lib) (e : String) (T : List Tok) (h : isVariant "LefOnOff" e = true) :
    libBody (f + 1) ver lib (kw "NoWireExtensionAtPin" :: en "LefOnOff" e :: semiTok :: T) = libBody f ver { lib with noWireExt := some e } T := by
  rw [libBody]; simp [peekKey_kw "NoWireExtensionAtPin" _ k_NoWireExtensionAtPin, parseEnum_en "LefOnOff" e _ t_OnOff h, semi_semiTok]

theorem lb_busbit (f : Nat) (ver : Dec) (lib : Lib) (p : Char × Char) (T : List Tok) :
    libBody (f + 1) ver lib (kw "BusBitChars" :: strTok ['"', p.1, p.2, '"'] :: semiTok :: T) = libBody f ver { lib with busBitChars := some p } T := by
  rw [libBody]; simp [peekKey_kw "BusBitChars" _ k_BusBitChars, expectTT, strTok, semi_semiTok]

theorem lb_divider (f : Nat) (ver : Dec) (lib : Lib) (c : Char) (T : List Tok) :
    libBody (f + 1) ver lib (kw "DividerChar" :: strTok ['"', c, '"'] :: semiTok :: T) = libBody f ver { lib with dividerChar := some c } T := by
  rw [libBody]; simp [peekKey_kw "DividerChar" _ k_DividerChar, expectTT, strTok, semi_semiTok]

theorem lb_mfg (f : Nat) (ver : Dec) (lib : Lib) (d : Dec) (T : List Tok) (h : decOk d = true) :
    libBody (f + 1) ver lib (kw "ManufacturingGrid" :: num d :: semiTok :: T) = libBody f ver { lib with mfgGrid := some d } T := by
  rw [libBody]; simp [peekKey_kw "ManufacturingGrid" _ k_ManufacturingGrid, number_num d _ h, semi_semiTok]

theorem lb_ums (f : Nat) (ver : Dec) (lib : Lib) (e : String) (T : List Tok) (h : isVariant "LefOnOff" e = true) :
    libBody (f + 1) ver lib (kw "UseMinSpacing" :: kw "Obs" :: en "LefOnOff" e :: semiTok :: T) = libBody f ver { lib with useMinSpacing := some e } T := by
  rw [libBody]; simp [peekKey_kw "UseMinSpacing" _ k_UseMinSpacing, expectKey_kw "Obs" _ k_Obs, parseEnum_en "LefOnOff" e _ t_OnOff h, semi_semiTok]

theorem lb_clearance (f : Nat) (ver : Dec) (lib : Lib) (e : String) (T : List Tok) (h : isVariant "LefClearanceStyle" e = true) :
    libBody (f + 1) ver lib (kw "ClearanceMeasure" :: en "LefClearanceStyle" e :: semiTok :: T) = libBody f ver { lib with clearance := some e } T := by
  rw [libBody]; simp [peekKey_kw "ClearanceMeasure" _ k_ClearanceMeasure, parseEnum_en "LefClearanceStyle" e _ t_Clearance h, semi_semiTok]

theorem lb_fixedmask (f : Nat) (ver : Dec) (lib : Lib) (T : List Tok) :
    libBody (f + 1) ver lib (kw "FixedMask" :: semiTok :: T) = libBody f ver { lib with fixedMask := true } T := by
  rw [libBody]; simp [peekKey_kw "FixedMask" _ k_FixedMask, semi_semiTok]

theorem lb_end (f : Nat) (ver : Dec) (lib : Lib) (T : List Tok) :
    libBody (f + 1) ver lib (kw "End" :: kw "Library" :: T) = some lib := by
  rw [libBody]; simp [peekKey_kw "End" _ k_End, expectKey_kw "Library" _ k_Library]

theorem wUnits_cons (u : Units) : wUnits u = kw "Units" :: (wUnits u).tail := by simp [wUnits]

theorem lb_units (f : Nat) (ver : Dec) (lib : Lib) (u : Units) (T : List Tok) (h : unitsOk u = true) :
    libBody (f + 1) ver lib (wUnits u ++ T) = libBody f ver { lib with units := some u } T := by
  have hu := units_w u T h ((wUnits u ++ T).length + 1) (by
    simp only [wUnits, List.cons_append, List.nil_append, List.length_cons, List.length_append, List.length_nil]
    have a1 := st_le_opt u.time (fun d => [kw "Time", kw "Nanoseconds", num d, semiTok]) (by intro a; simp)
    have a2 := st_le_opt u.cap (fun d => [kw "Capacitance", kw "Picofarads", num d, semiTok]) (by intro a; simp)
    have a3 := st_le_opt u.res (fun d => [kw "Resistance", kw "Ohms", num d, semiTok]) (by intro a; simp)
    have a4 := st_le_opt u.power (fun d => [kw "Power", kw "Milliwatts", num d, semiTok]) (by intro a; simp)
    have a5 := st_le_opt u.current (fun d => [kw "Current", kw "Milliamps", num d, semiTok]) (by intro a; simp)
    have a6 := st_le_opt u.voltage (fun d => [kw "Voltage", kw "Volts", num d, semiTok]) (by intro a; simp)
    have a7 := st_le_opt u.dbu (fun v => [kw "Database", kw "Microns", num ⟨v, 0⟩, semiTok]) (by intro a; simp)
    have a8 := st_le_opt u.freq (fun d => [kw "Frequency", kw "Megahertz", num d, semiTok]) (by intro a; simp)
    omega)
  have hpk : peekKey (wUnits u ++ T) = some "Units" := by rw [wUnits_cons]; exact peekKey_kw _ _ k_Units
  have htl : (wUnits u ++ T).tail = (wUnits u).tail ++ T := by rw [wUnits_cons]; rfl
  have hl : T.length < (wUnits u ++ T).length := by
    have : 1 ≤ (wUnits u).length := by simp [wUnits]
    simp only [List.length_append]; omega
  have hne : (wUnits u ++ T).isEmpty = false := by rw [wUnits_cons]; rfl
  generalize wUnits u ++ T = ts at hu hpk htl hl hne
  rw [← htl] at hu
  rw [libBody]; simp [hpk, hu, hl, hne]

theorem lb_propdefs (f : Nat) (ver : Dec) (lib : Lib) (ds : List PropDef) (T : List Tok) (h : ds.all pdOk = true) :
    libBody (f + 1) ver lib (kw "PropertyDefinitions" :: (ds.flatMap wPropDef ++ kw "End" :: kw "PropertyDefinitions" :: T)) =
      libBody f ver { lib with propDefs := lib.propDefs ++ ds } T := by
  have hlen : ds.length ≤ (ds.flatMap wPropDef).length := by
    clear h
    induction ds with
    | nil => simp
    | cons a r ih =>
      have : 1 ≤ (wPropDef a).length := by cases a <;> simp [wPropDef]
      simp only [List.flatMap_cons, List.length_append, List.length_cons]; omega
  generalize hts : kw "PropertyDefinitions" :: (ds.flatMap wPropDef ++ kw "End" :: kw "PropertyDefinitions" :: T) = ts
  have hpk : peekKey ts = some "PropertyDefinitions" := by subst hts; exact peekKey_kw _ _ k_PropertyDefinitions
  have htl : ts.tail = ds.flatMap wPropDef ++ kw "End" :: kw "PropertyDefinitions" :: T := by subst hts; rfl
  have hl : T.length < ts.length := by subst hts; simp only [List.length_cons, List.length_append]; omega
  have hne : ts.isEmpty = false := by subst hts; rfl
  have hp := propDefs_w T ds [] (ts.length + 1) (by subst hts; simp only [List.length_cons, List.length_append]; omega) h
  rw [← htl] at hp
  rw [libBody]; simp [hpk, hp, hl, hne]

/-! extensions -/
def isEndExt (t : Tok) : Bool := t.tt == .name && LefEnum.parse keyTable t.txt == some "EndExtension"
def extJoin (ts : List Tok) : Str := ts.flatMap fun t => t.txt ++ [' ']

theorem extBody_w (T : List Tok) : ∀ (ts : List Tok) (acc : Str) (f : Nat), ts.length + 1 ≤ f → ts.all (fun t => !isEndExt t) = true →
    extBody f acc (ts ++ kw "EndExtension" :: T) = some (acc ++ extJoin ts, T) := by
  intro ts
  induction ts with
  | nil =>
    intro acc f hf _
    obtain ⟨g, rfl⟩ : ∃ g, f = g + 1 := ⟨f - 1, by simp at hf; omega⟩
    have : LefEnum.parse keyTable (kwText "LefKey" "EndExtension") = some "EndExtension" := by
      have := peekKey_kw "EndExtension" [] k_EndExtension
      simpa [peekKey, kw] using this
    simp [extBody, this, kw, extJoin]
  | cons t r ih =>
    intro acc f hf hok
    obtain ⟨g, rfl⟩ : ∃ g, f = g + 1 := ⟨f - 1, by simp at hf; omega⟩
    simp only [List.all_cons, Bool.and_eq_true, Bool.not_eq_true'] at hok
    have h1 : (t.tt == TT.name && LefEnum.parse keyTable t.txt == some "EndExtension") = false := hok.1
    simp only [List.cons_append, extBody, h1, Bool.false_eq_true, if_false]
    rw [ih _ g (by simp at hf; omega) (by simpa using hok.2)]
    simp [extJoin]

def extOk (e : Str × Str) : Bool := (extTokens e.2).all (fun t => !isEndExt t) && extJoin (extTokens e.2) == e.2
def wExt (e : Str × Str) : List Tok := [kw "BeginExtension", strTok e.1] ++ extTokens e.2 ++ [kw "EndExtension"]

theorem lb_ext (f : Nat) (ver : Dec) (lib : Lib) (e : Str × Str) (T : List Tok) (h : extOk e = true) :
    libBody (f + 1) ver lib (wExt e ++ T) = libBody f ver { lib with extensions := lib.extensions ++ [e] } T := by
  obtain ⟨n, data⟩ := e
  simp only [extOk, Bool.and_eq_true, beq_iff_eq] at h
  have he := extBody_w T (extTokens data) [] ((extTokens data ++ kw "EndExtension" :: T).length + 1) (by
    simp only [List.length_append, List.length_cons]; omega) h.1
  rw [h.2] at he
  have hRS : T.length < (extTokens data ++ kw "EndExtension" :: T).length := by simp only [List.length_append, List.length_cons]; omega
  have e1 : wExt (n, data) ++ T = kw "BeginExtension" :: strTok n :: (extTokens data ++ kw "EndExtension" :: T) := by simp [wExt]
  rw [e1]
  generalize extTokens data ++ kw "EndExtension" :: T = S at he hRS
  generalize hts : kw "BeginExtension" :: strTok n :: S = ts
  have hpk : peekKey ts = some "BeginExtension" := by subst hts; exact peekKey_kw _ _ k_BeginExtension
  have htl : ts.tail = strTok n :: S := by subst hts; rfl
  have hl : T.length < ts.length := by subst hts; simp only [List.length_cons]; omega
  have hne : ts.isEmpty = false := by subst hts; rfl
  rw [libBody]; simp [hpk, htl, expectTT, strTok, he, hl, hne]

/-! lists of definitions -/
theorem lb_vias (ver : Dec) (T : List Tok) : ∀ (vs : List ViaDef) (lib : Lib) (f : Nat), vs.length ≤ f → vs.all viaOk = true →
    libBody f ver lib (vs.flatMap wViaToks ++ T) = libBody (f - vs.length) ver { lib with vias := lib.vias ++ vs } T := by
  intro vs
  induction vs with
  | nil => intro lib f _ _; simp
  | cons v r ih =>
    intro lib f hf hok
    obtain ⟨n, rfl⟩ : ∃ n, f = n + 1 := ⟨f - 1, by simp at hf; omega⟩
    simp only [List.all_cons, Bool.and_eq_true] at hok
    simp only [List.flatMap_cons, List.append_assoc]
    have hp := viaDef_w v (r.flatMap wViaToks ++ T) hok.1
    have hpk : peekKey (wViaToks v ++ (r.flatMap wViaToks ++ T)) = some "Via" := peekKey_kw _ _ k_Via
    have hl : (r.flatMap wViaToks ++ T).length < (wViaToks v ++ (r.flatMap wViaToks ++ T)).length := by
      simp only [wViaToks, List.length_append, List.length_cons, List.cons_append]; omega
    have hne : (wViaToks v ++ (r.flatMap wViaToks ++ T)).isEmpty = false := rfl
    generalize hR : r.flatMap wViaToks ++ T = R at hp hpk hl hne
    generalize wViaToks v ++ R = ts at hp hpk hl hne
    rw [libBody]; simp [hpk, hp, hl, hne]
    subst hR
    rw [ih _ n (by simp at hf; omega) hok.2]
    simp [Nat.add_sub_add_right]

theorem lb_sites (ver : Dec) (T : List Tok) : ∀ (vs : List Site) (lib : Lib) (f : Nat), vs.length ≤ f → vs.all siteOk = true →
    libBody f ver lib (vs.flatMap wSite ++ T) = libBody (f - vs.length) ver { lib with sites := lib.sites ++ vs } T := by
  intro vs
  induction vs with
  | nil => intro lib f _ _; simp
  | cons v r ih =>
    intro lib f hf hok
    obtain ⟨n, rfl⟩ : ∃ n, f = n + 1 := ⟨f - 1, by simp at hf; omega⟩
    simp only [List.all_cons, Bool.and_eq_true] at hok
    simp only [List.flatMap_cons, List.append_assoc]
    have hp := site_w v (r.flatMap wSite ++ T) hok.1
    have hpk : peekKey (wSite v ++ (r.flatMap wSite ++ T)) = some "Site" := by
      simp only [wSite, List.cons_append, List.append_assoc]; exact peekKey_kw _ _ k_Site
    have hl : (r.flatMap wSite ++ T).length < (wSite v ++ (r.flatMap wSite ++ T)).length := by
      simp only [wSite, List.length_append, List.length_cons, List.cons_append]; omega
    have hne : (wSite v ++ (r.flatMap wSite ++ T)).isEmpty = false := by simp [wSite]
    generalize hR : r.flatMap wSite ++ T = R at hp hpk hl hne
    generalize wSite v ++ R = ts at hp hpk hl hne
    rw [libBody]; simp [hpk, hp, hl, hne]
    subst hR
    rw [ih _ n (by simp at hf; omega) hok.2]
    simp [Nat.add_sub_add_right]

theorem lb_macros (ver : Dec) (T : List Tok) : ∀ (vs : List Macro) (lib : Lib) (f : Nat), vs.length ≤ f → vs.all macroOk = true →
    (∀ m ∈ vs, m.source.isSome = true → v5p4.lt ver = false) →
    libBody f ver lib (vs.flatMap wMacroToks ++ T) = libBody (f - vs.length) ver { lib with macros := lib.macros ++ vs } T := by
  intro vs
  induction vs with
  | nil => intro lib f _ _ _; simp
  | cons v r ih =>
    intro lib f hf hok hv
    obtain ⟨n, rfl⟩ : ∃ n, f = n + 1 := ⟨f - 1, by simp at hf; omega⟩
    simp only [List.all_cons, Bool.and_eq_true] at hok
    simp only [List.flatMap_cons, List.append_assoc]
    have hp := macro_w ver v (r.flatMap wMacroToks ++ T) hok.1 (hv v (by simp))
    have hpk : peekKey (wMacroToks v ++ (r.flatMap wMacroToks ++ T)) = some "Macro" := by
      simp only [wMacroToks, List.cons_append, List.append_assoc]; exact peekKey_kw _ _ k_Macro
    have hl : (r.flatMap wMacroToks ++ T).length < (wMacroToks v ++ (r.flatMap wMacroToks ++ T)).length := by
      simp only [wMacroToks, List.length_append, List.length_cons, List.cons_append]; omega
    have hne : (wMacroToks v ++ (r.flatMap wMacroToks ++ T)).isEmpty = false := by simp [wMacroToks]
    generalize hR : r.flatMap wMacroToks ++ T = R at hp hpk hl hne
    generalize wMacroToks v ++ R = ts at hp hpk hl hne
    rw [libBody]; simp [hpk, hp, hl, hne]
    subst hR
    rw [ih _ n (by simp at hf; omega) hok.2 (fun m hm => hv m (by simp [hm]))]
    simp [Nat.add_sub_add_right]

theorem lb_exts (ver : Dec) (T : List Tok) : ∀ (vs : List (Str × Str)) (lib : Lib) (f : Nat), vs.length ≤ f → vs.all extOk = true →
    libBody f ver lib (vs.flatMap wExt ++ T) = libBody (f - vs.length) ver { lib with extensions := lib.extensions ++ vs } T := by
  intro vs
  induction vs with
  | nil => intro lib f _ _; simp
  | cons v r ih =>
    intro lib f hf hok
    obtain ⟨n, rfl⟩ : ∃ n, f = n + 1 := ⟨f - 1, by simp at hf; omega⟩
    simp only [List.all_cons, Bool.and_eq_true] at hok
    simp only [List.flatMap_cons, List.append_assoc]
    rw [lb_ext _ _ _ _ _ hok.1, ih _ n (by simp at hf; omega) hok.2]
    simp [Nat.add_sub_add_right]

/-! optional statements -/
def verOk (d : Dec) : Bool := decOk d && versionOk d
theorem lb_opt_version (f : Nat) (ver : Dec) (lib : Lib) (o : Option Dec) (T : List Tok) (hp : lib.version = none) (h : optOk o verOk = true)
    (hg : (lib.namesCaseSensitive.isSome || lib.macros.any (·.source.isSome)) = false) :
    libBody (f + st o) ver lib (opt o (fun v => [kw "Version", num v, semiTok]) ++ T) = libBody f (o.getD ver) { lib with version := o } T := by
  cases o with
  | none => cases lib; simp only at hp; subst hp; simp [st, opt]
  | some d =>
    simp only [optOk, verOk, Bool.and_eq_true] at h
    simpa [st, opt] using lb_version f ver lib d T h.1 h.2 hg
theorem lb_opt_ncs (f : Nat) (ver : Dec) (lib : Lib) (o : Option String) (T : List Tok) (hp : lib.namesCaseSensitive = none)
    (h : optOk o (isVariant "LefOnOff") = true) (hv : o.isSome = true → v5p4.lt ver = false) :
    libBody (f + st o) ver lib (opt o (fun e => [kw "NamesCaseSensitive", en "LefOnOff" e, semiTok]) ++ T) = libBody f ver { lib with namesCaseSensitive := o } T := by
  cases o with
  | none => cases lib; simp only at hp; subst hp; simp [st, opt]
  | some d => simpa [st, opt] using lb_ncs f ver lib d T h (hv rfl)

theorem lb_opt_nowire (f : Nat) (ver : Dec) (lib : Lib) (o : Option String) (T : List Tok) (hp : lib.noWireExt = none) (h : optOk o (isVariant "LefOnOff") = true) :
    libBody (f + st o) ver lib (opt o (fun e => [kw "NoWireExtensionAtPin", en "LefOnOff" e, semiTok]) ++ T) = libBody f ver { lib with noWireExt := o } T := by
  cases o with
  | none => cases lib; simp only at hp; subst hp; simp [st, opt]
  | some d => simpa [st, opt] using lb_nowire f ver lib d T h

theorem lb_opt_busbit (f : Nat) (ver : Dec) (lib : Lib) (o : Option (Char × Char)) (T : List Tok) (hp : lib.busBitChars = none) :
    libBody (f + st o) ver lib (opt o (fun p => [kw "BusBitChars", strTok ['"', p.1, p.2, '"'], semiTok]) ++ T) = libBody f ver { lib with busBitChars := o } T := by
  cases o with
  | none => cases lib; simp only at hp; subst hp; simp [st, opt]
  | some d => simpa [st, opt] using lb_busbit f ver lib d T

theorem lb_opt_divider (f : Nat) (ver : Dec) (lib : Lib) (o : Option Char) (T : List Tok) (hp : lib.dividerChar = none) :
    libBody (f + st o) ver lib (opt o (fun c => [kw "DividerChar", strTok ['"', c, '"'], semiTok]) ++ T) = libBody f ver { lib with dividerChar := o } T := by
  cases o with
  | none => cases lib; simp only at hp; subst hp; simp [st, opt]
  | some d => simpa [st, opt] using lb_divider f ver lib d T

theorem lb_opt_units (f : Nat) (ver : Dec) (lib : Lib) (o : Option Units) (T : List Tok) (hp : lib.units = none) (h : optOk o unitsOk = true) :
    libBody (f + st o) ver lib (opt o wUnits ++ T) = libBody f ver { lib with units := o } T := by
  cases o with
  | none => cases lib; simp only at hp; subst hp; simp [st, opt]
  | some d => simpa [st, opt] using lb_units f ver lib d T h

theorem lb_opt_mfg (f : Nat) (ver : Dec) (lib : Lib) (o : Option Dec) (T : List Tok) (hp : lib.mfgGrid = none) (h : optOk o decOk = true) :
    libBody (f + st o) ver lib (opt o (fun d => [kw "ManufacturingGrid", num d, semiTok]) ++ T) = libBody f ver { lib with mfgGrid := o } T := by
  cases o with
  | none => cases lib; simp only at hp; subst hp; simp [st, opt]
  | some d => simpa [st, opt] using lb_mfg f ver lib d T h

theorem lb_opt_ums (f : Nat) (ver : Dec) (lib : Lib) (o : Option String) (T : List Tok) (hp : lib.useMinSpacing = none) (h : optOk o (isVariant "LefOnOff") = true) :
    libBody (f + st o) ver lib (opt o (fun e => [kw "UseMinSpacing", kw "Obs", en "LefOnOff" e, semiTok]) ++ T) = libBody f ver { lib with useMinSpacing := o } T := by
  cases o with
  | none => cases lib; simp only at hp; subst hp; simp [st, opt]
  | some d => simpa [st, opt] using lb_ums f ver lib d T h

theorem lb_opt_clearance (f : Nat) (ver : Dec) (lib : Lib) (o : Option String) (T : List Tok) (hp : lib.clearance = none) (h : optOk o (isVariant "LefClearanceStyle") = true) :
    libBody (f + st o) ver lib (opt o (fun e => [kw "ClearanceMeasure", en "LefClearanceStyle" e, semiTok]) ++ T) = libBody f ver { lib with clearance := o } T := by
  cases o with
  | none => cases lib; simp only at hp; subst hp; simp [st, opt]
  | some d => simpa [st, opt] using lb_clearance f ver lib d T h


def wPropDefs (ds : List PropDef) : List Tok :=
  if ds.isEmpty then [] else [kw "PropertyDefinitions"] ++ ds.flatMap wPropDef ++ [kw "End", kw "PropertyDefinitions"]
theorem lb_opt_propdefs (f : Nat) (ver : Dec) (lib : Lib) (ds : List PropDef) (T : List Tok) (hp : lib.propDefs = []) (h : ds.all pdOk = true) :
    libBody (f + stl ds) ver lib (wPropDefs ds ++ T) = libBody f ver { lib with propDefs := ds } T := by
  cases ds with
  | nil => cases lib; simp only at hp; subst hp; simp [stl, wPropDefs]
  | cons a r =>
    have := lb_propdefs f ver lib (a :: r) T h
    rw [hp] at this
    simpa [stl, wPropDefs] using this
theorem lb_opt_fixedmask (f : Nat) (ver : Dec) (lib : Lib) (b : Bool) (T : List Tok) (hp : lib.fixedMask = false) :
    libBody (f + (if b then 1 else 0)) ver lib ((if b then [kw "FixedMask", semiTok] else []) ++ T) = libBody f ver { lib with fixedMask := b } T := by
  cases b with
  | false => cases lib; simp only at hp; subst hp; simp
  | true => simpa using lb_fixedmask f ver lib T
theorem lb_vias' (ver : Dec) (T : List Tok) (vs : List ViaDef) (lib : Lib) (f : Nat) (h : vs.all viaOk = true) :
    libBody (f + vs.length) ver lib (vs.flatMap wViaToks ++ T) = libBody f ver { lib with vias := lib.vias ++ vs } T := by
  rw [lb_vias ver T vs lib _ (by omega) h]; simp
theorem lb_sites' (ver : Dec) (T : List Tok) (vs : List Site) (lib : Lib) (f : Nat) (h : vs.all siteOk = true) :
    libBody (f + vs.length) ver lib (vs.flatMap wSite ++ T) = libBody f ver { lib with sites := lib.sites ++ vs } T := by
  rw [lb_sites ver T vs lib _ (by omega) h]; simp
theorem lb_macros' (ver : Dec) (T : List Tok) (vs : List Macro) (lib : Lib) (f : Nat) (h : vs.all macroOk = true)
    (hv : ∀ m ∈ vs, m.source.isSome = true → v5p4.lt ver = false) :
    libBody (f + vs.length) ver lib (vs.flatMap wMacroToks ++ T) = libBody f ver { lib with macros := lib.macros ++ vs } T := by
  rw [lb_macros ver T vs lib _ (by omega) h hv]; simp
theorem lb_exts' (ver : Dec) (T : List Tok) (vs : List (Str × Str)) (lib : Lib) (f : Nat) (h : vs.all extOk = true) :
    libBody (f + vs.length) ver lib (vs.flatMap wExt ++ T) = libBody f ver { lib with extensions := lib.extensions ++ vs } T := by
  rw [lb_exts ver T vs lib _ (by omega) h]; simp

/-- well-formedness of a library: what the reader's image satisfies, as a decidable predicate -/
def libOk (l : Lib) : Bool :=
  optOk l.version verOk && optOk l.namesCaseSensitive (isVariant "LefOnOff") && optOk l.noWireExt (isVariant "LefOnOff") &&
  optOk l.units unitsOk && optOk l.mfgGrid decOk && optOk l.useMinSpacing (isVariant "LefOnOff") &&
  optOk l.clearance (isVariant "LefClearanceStyle") && l.propDefs.all pdOk && l.vias.all viaOk && l.sites.all siteOk &&
  l.macros.all macroOk && l.extensions.all extOk

/-- the writer's token sequence with the macros already rendered -/
def wLibToks (l : Lib) : List Tok :=
  opt l.version (fun v => [kw "Version", num v, semiTok]) ++ (opt l.namesCaseSensitive (fun e => [kw "NamesCaseSensitive", en "LefOnOff" e, semiTok]) ++
  (opt l.noWireExt (fun e => [kw "NoWireExtensionAtPin", en "LefOnOff" e, semiTok]) ++
  (opt l.busBitChars (fun p => [kw "BusBitChars", strTok ['"', p.1, p.2, '"'], semiTok]) ++
  (opt l.dividerChar (fun c => [kw "DividerChar", strTok ['"', c, '"'], semiTok]) ++ (opt l.units wUnits ++
  (opt l.mfgGrid (fun d => [kw "ManufacturingGrid", num d, semiTok]) ++
  (opt l.useMinSpacing (fun e => [kw "UseMinSpacing", kw "Obs", en "LefOnOff" e, semiTok]) ++
  (opt l.clearance (fun e => [kw "ClearanceMeasure", en "LefClearanceStyle" e, semiTok]) ++ (wPropDefs l.propDefs ++
  ((if l.fixedMask then [kw "FixedMask", semiTok] else []) ++ (l.vias.flatMap wViaToks ++ (l.sites.flatMap wSite ++
  (l.macros.flatMap wMacroToks ++ (l.extensions.flatMap wExt ++ [kw "End", kw "Library"]))))))))))))))

theorem mapMOpt_wMacro (ver : Dec) : ∀ (ms : List Macro) (out : List (List Tok)), mapMOpt (wMacro ver) ms = some out →
    out.flatten = ms.flatMap wMacroToks ∧ ∀ m ∈ ms, m.source.isSome = true → v5p4.lt ver = false := by
  intro ms
  induction ms with
  | nil => intro out h; simp [mapMOpt] at h; subst h; simp
  | cons m r ih =>
    intro out h
    simp only [mapMOpt] at h
    cases hm : wMacro ver m with
    | none => simp [hm] at h
    | some t =>
      cases hr : mapMOpt (wMacro ver) r with
      | none => simp [hm, hr] at h
      | some ts =>
        simp only [hm, hr, Option.some.injEq] at h
        subst h
        obtain ⟨e1, e2⟩ := ih ts hr
        have hg : (m.source.isSome && v5p4.lt ver) = false := by
          cases hb : (m.source.isSome && v5p4.lt ver) with
          | false => rfl
          | true => simp [wMacro, hb] at hm
        have ht : t = wMacroToks m := by
          have := wMacro_eq ver m hg
          rw [hm] at this; exact Option.some.inj this
        refine ⟨by simp [ht, e1], ?_⟩
        intro m' hm' hs
        rcases List.mem_cons.1 hm' with rfl | hin
        · cases hv : v5p4.lt ver with
          | false => rfl
          | true => simp [hs, hv] at hg
        · exact e2 m' hin hs

theorem wLib_eq (l : Lib) (toks : List Tok) (h : wLib l = some toks) :
    toks = wLibToks l ∧ (l.namesCaseSensitive.isSome = true → v5p4.lt (l.version.getD ⟨58, 1⟩) = false) ∧
    (∀ m ∈ l.macros, m.source.isSome = true → v5p4.lt (l.version.getD ⟨58, 1⟩) = false) := by
  unfold wLib at h
  simp only at h
  split at h
  · cases h
  · rename_i hg
    split at h
    · cases h
    · rename_i ms hms
      obtain ⟨e1, e2⟩ := mapMOpt_wMacro _ _ _ hms
      refine ⟨?_, ?_, e2⟩
      · have := Option.some.inj h
        have hv : wVia = wViaToks := funext wVia_eq
        have he : wExt = fun e => [kw "BeginExtension", strTok e.1] ++ extTokens e.2 ++ [kw "EndExtension"] := rfl
        rw [← this, e1, hv]
        simp only [wLibToks, wPropDefs, he, List.append_assoc]
      · intro hs
        cases hv : v5p4.lt (l.version.getD ⟨58, 1⟩) with
        | false => rfl
        | true => simp [hs, hv] at hg

theorem stl_le_wPropDefs (ds : List PropDef) : stl ds ≤ (wPropDefs ds).length := by
  cases ds with
  | nil => simp [stl]
  | cons a r => simp [stl, wPropDefs]
theorem flatMap_len_le {α : Type} (w : α → List Tok) (h : ∀ a, 1 ≤ (w a).length) (l : List α) : l.length ≤ (l.flatMap w).length := by
  induction l with
  | nil => simp
  | cons a r ih => have := h a; simp only [List.flatMap_cons, List.length_append, List.length_cons]; omega

/-- the statement count of a library: the fuel `libBody` needs beyond the final END LIBRARY -/
def libCount (l : Lib) : Nat :=
  st l.version + st l.namesCaseSensitive + st l.noWireExt + st l.busBitChars + st l.dividerChar + st l.units + st l.mfgGrid +
  st l.useMinSpacing + st l.clearance + stl l.propDefs + (if l.fixedMask then 1 else 0) + l.vias.length + l.sites.length +
  l.macros.length + l.extensions.length

theorem libCount_le (l : Lib) : libCount l + 1 ≤ (wLibToks l).length + 1 := by
  simp only [libCount, wLibToks, List.length_append, List.length_cons, List.length_nil]
  have a1 := st_le_opt l.version (fun v => [kw "Version", num v, semiTok]) (by intro a; simp)
  have a2 := st_le_opt l.namesCaseSensitive (fun e => [kw "NamesCaseSensitive", en "LefOnOff" e, semiTok]) (by intro a; simp)
  have a3 := st_le_opt l.noWireExt (fun e => [kw "NoWireExtensionAtPin", en "LefOnOff" e, semiTok]) (by intro a; simp)
  have a4 := st_le_opt l.busBitChars (fun p => [kw "BusBitChars", strTok ['"', p.1, p.2, '"'], semiTok]) (by intro a; simp)
  have a5 := st_le_opt l.dividerChar (fun c => [kw "DividerChar", strTok ['"', c, '"'], semiTok]) (by intro a; simp)
  have a6 := st_le_opt l.units wUnits (by intro a; simp [wUnits])
  have a7 := st_le_opt l.mfgGrid (fun d => [kw "ManufacturingGrid", num d, semiTok]) (by intro a; simp)
  have a8 := st_le_opt l.useMinSpacing (fun e => [kw "UseMinSpacing", kw "Obs", en "LefOnOff" e, semiTok]) (by intro a; simp)
  have a9 := st_le_opt l.clearance (fun e => [kw "ClearanceMeasure", en "LefClearanceStyle" e, semiTok]) (by intro a; simp)
  have a10 := stl_le_wPropDefs l.propDefs
  have a11 : (if l.fixedMask then 1 else 0) ≤ (if l.fixedMask then [kw "FixedMask", semiTok] else []).length := by cases l.fixedMask <;> simp
  have a12 := flatMap_len_le wViaToks (by intro a; simp [wViaToks]) l.vias
  have a13 := flatMap_len_le wSite (by intro a; simp [wSite]) l.sites
  have a14 := flatMap_len_le wMacroToks (by intro a; simp [wMacroToks]) l.macros
  have a15 := flatMap_len_le wExt (by intro a; simp [wExt]) l.extensions
  omega

theorem libBody_w (l : Lib) (h : libOk l = true)
    (hn : l.namesCaseSensitive.isSome = true → v5p4.lt (l.version.getD ⟨58, 1⟩) = false)
    (hs : ∀ m ∈ l.macros, m.source.isSome = true → v5p4.lt (l.version.getD ⟨58, 1⟩) = false)
    (F : Nat) (hF : libCount l + 1 ≤ F) :
    libBody F ⟨58, 1⟩ {} (wLibToks l) = some l := by
  obtain ⟨macros, sites, vias, version, ncs, nowire, busbit, divider, units, fixedMask, clearance, exts, mfg, ums, propDefs⟩ := l
  simp only [libOk, Bool.and_eq_true] at h
  obtain ⟨⟨⟨⟨⟨⟨⟨⟨⟨⟨⟨h1, h2⟩, h3⟩, h4⟩, h5⟩, h6⟩, h7⟩, h8⟩, h9⟩, h10⟩, h11⟩, h12⟩ := h
  simp only [libCount] at hF
  simp only at hn hs
  obtain ⟨g, rfl⟩ : ∃ g, F = (((((((((((((((g + 1) + exts.length) + macros.length) + sites.length) + vias.length) + (if fixedMask then 1 else 0)) +
      stl propDefs) + st clearance) + st ums) + st mfg) + st units) + st divider) + st busbit) + st nowire) + st ncs) + st version :=
    ⟨F - (st version + st ncs + st nowire + st busbit + st divider + st units + st mfg + st ums + st clearance + stl propDefs +
      (if fixedMask then 1 else 0) + vias.length + sites.length + macros.length + exts.length + 1), by omega⟩
  simp only [wLibToks]
  rw [lb_opt_version _ _ _ _ _ rfl h1 rfl]; dsimp only
  rw [lb_opt_ncs _ _ _ _ _ rfl h2 hn]; dsimp only
  rw [lb_opt_nowire _ _ _ _ _ rfl h3]; dsimp only
  rw [lb_opt_busbit _ _ _ _ _ rfl]; dsimp only
  rw [lb_opt_divider _ _ _ _ _ rfl]; dsimp only
  rw [lb_opt_units _ _ _ _ _ rfl h4]; dsimp only
  rw [lb_opt_mfg _ _ _ _ _ rfl h5]; dsimp only
  rw [lb_opt_ums _ _ _ _ _ rfl h6]; dsimp only
  rw [lb_opt_clearance _ _ _ _ _ rfl h7]; dsimp only
  rw [lb_opt_propdefs _ _ _ _ _ rfl h8]; dsimp only
  rw [lb_opt_fixedmask _ _ _ _ _ rfl]; dsimp only
  rw [lb_vias' _ _ _ _ _ h9]; dsimp only
  rw [lb_sites' _ _ _ _ _ h10]; dsimp only
  rw [lb_macros' _ _ _ _ _ h11 hs]; dsimp only
  rw [lb_exts' _ _ _ _ _ h12]; dsimp only
  rw [lb_end]
  simp

/-- **write then read, at token level**: whatever token sequence the writer model produces for a
    well-formed library, the reader model parses back to exactly that library. -/
theorem lib_roundtrip (l : Lib) (toks : List Tok) (hw : wLib l = some toks) (h : libOk l = true) :
    libBody (toks.length + 1) ⟨58, 1⟩ {} toks = some l := by
  obtain ⟨rfl, hn, hs⟩ := wLib_eq l toks hw
  exact libBody_w l h hn hs _ (libCount_le l)

end L21.Lef
