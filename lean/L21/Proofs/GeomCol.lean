import L21.Proofs.GeomInv
import Mathlib.Tactic.LinearCombination
/-
C13 — a vertex written on an edge (collinear vertex) changes neither the winding number nor the
boundary test: cross-product sign identities for the former, an ordering argument along the
segment for the latter.
-/
namespace L21.Geom

theorem pos_transfer (X Y c d : Int) (hc : 0 < c) (hd : 0 < d) (h : X * c = d * Y) : (0 < X ↔ 0 < Y) := by
  constructor
  · intro hx
    by_contra hy
    have hy' : Y ≤ 0 := by omega
    have h1 : 0 < X * c := Int.mul_pos hx hc
    have h2 : d * Y ≤ 0 := Int.mul_nonpos_of_nonneg_of_nonpos (by omega) hy'
    omega
  · intro hy
    by_contra hx
    have hx' : X ≤ 0 := by omega
    have h1 : 0 < d * Y := Int.mul_pos hd hy
    have h2 : X * c ≤ 0 := Int.mul_nonpos_of_nonpos_of_nonneg hx' (by omega)
    omega

theorem edgeW_up (a b p : Pt) (h : a.y ≤ p.y ∧ p.y < b.y) : edgeW a b p = if 0 < cross a b p then 1 else 0 := by
  unfold edgeW; rw [if_pos h]
theorem edgeW_zero (a b p : Pt) (h1 : ¬ (a.y ≤ p.y ∧ p.y < b.y)) (h2 : ¬ (b.y ≤ p.y ∧ p.y < a.y)) : edgeW a b p = 0 := by
  unfold edgeW; rw [if_neg h1, if_neg h2]

/-- winding contributions add up along a subdivided edge (upward edge) -/
theorem edgeW_split_up (a m b p : Pt) (hcol : cross a b m = 0) (hy : a.y < b.y) (h1 : a.y ≤ m.y) (h2 : m.y ≤ b.y) :
    edgeW a m p + edgeW m b p = edgeW a b p := by
  have I1 : cross a m p * (b.y - a.y) = (m.y - a.y) * cross a b p := by
    unfold cross at hcol ⊢; linear_combination (a.y - p.y) * hcol
  have I2 : cross m b p * (b.y - a.y) = (b.y - m.y) * cross a b p := by
    unfold cross at hcol ⊢; linear_combination (p.y - b.y) * hcol
  by_cases c1 : a.y ≤ p.y ∧ p.y < m.y
  · have t := pos_transfer _ _ _ _ (by omega : 0 < b.y - a.y) (by omega : 0 < m.y - a.y) I1
    rw [edgeW_up a m p c1, edgeW_zero m b p (by omega) (by omega), edgeW_up a b p (by omega)]
    simp only [t, Int.add_zero]
  · by_cases c2 : m.y ≤ p.y ∧ p.y < b.y
    · have t := pos_transfer _ _ _ _ (by omega : 0 < b.y - a.y) (by omega : 0 < b.y - m.y) I2
      rw [edgeW_zero a m p c1 (by omega), edgeW_up m b p c2, edgeW_up a b p (by omega)]
      simp only [t, Int.zero_add]
    · rw [edgeW_zero a m p c1 (by omega), edgeW_zero m b p c2 (by omega), edgeW_zero a b p (by omega) (by omega)]
      rfl

/-- … for every edge direction -/
theorem edgeW_split (a m b p : Pt) (hm : onSeg a b m = true) : edgeW a m p + edgeW m b p = edgeW a b p := by
  simp only [onSeg, Bool.and_eq_true, decide_eq_true_eq] at hm
  obtain ⟨⟨⟨⟨hcol, _⟩, _⟩, hy1⟩, hy2⟩ := hm
  rcases Int.lt_trichotomy a.y b.y with hlt | heq | hgt
  · exact edgeW_split_up a m b p hcol hlt (by omega) (by omega)
  · have e1 : m.y = a.y := by omega
    rw [edgeW_zero a m p (by omega) (by omega), edgeW_zero m b p (by omega) (by omega), edgeW_zero a b p (by omega) (by omega)]
    rfl
  · have hcol' : cross b a m = 0 := by rw [cross_swap, hcol]; rfl
    have := edgeW_split_up b m a p hcol' hgt (by omega) (by omega)
    rw [edgeW_swap m b p, edgeW_swap a m p, edgeW_swap a b p] at this
    omega


theorem sign_mul (c u d v : Int) (hc : 0 < c) (h : c * u = d * v) :
    (0 ≤ d → 0 ≤ v → 0 ≤ u) ∧ (0 ≤ d → v ≤ 0 → u ≤ 0) ∧ (d ≤ 0 → 0 ≤ v → u ≤ 0) ∧ (d ≤ 0 → v ≤ 0 → 0 ≤ u) := by
  refine ⟨?_, ?_, ?_, ?_⟩
  · intro hd hv
    by_contra hu
    have : c * u < 0 := Int.mul_neg_of_pos_of_neg hc (by omega)
    have : 0 ≤ d * v := Int.mul_nonneg hd hv
    omega
  · intro hd hv
    by_contra hu
    have : 0 < c * u := Int.mul_pos hc (by omega)
    have : d * v ≤ 0 := Int.mul_nonpos_of_nonneg_of_nonpos hd hv
    omega
  · intro hd hv
    by_contra hu
    have : 0 < c * u := Int.mul_pos hc (by omega)
    have : d * v ≤ 0 := Int.mul_nonpos_of_nonpos_of_nonneg hd hv
    omega
  · intro hd hv
    by_contra hu
    have : c * u < 0 := Int.mul_neg_of_pos_of_neg hc (by omega)
    have : 0 ≤ d * v := Int.mul_nonneg_of_nonpos_of_nonpos hd hv
    omega

theorem onSeg_iff (a b p : Pt) : onSeg a b p = true ↔
    cross a b p = 0 ∧ min a.x b.x ≤ p.x ∧ p.x ≤ max a.x b.x ∧ min a.y b.y ≤ p.y ∧ p.y ≤ max a.y b.y := by
  simp only [onSeg, Bool.and_eq_true, decide_eq_true_eq, and_assoc]

/-- collinear points ordered in x are ordered the same way along the segment: the left part -/
theorem seg_left (a m b p : Pt) (hx : a.x < b.x) (hcol : cross a b m = 0) (hc : cross a b p = 0)
    (h1 : a.x ≤ p.x) (h2 : p.x ≤ m.x) : onSeg a m p = true := by
  have hdx : 0 < b.x - a.x := by omega
  have E1 : (b.x - a.x) * (m.y - a.y) = (b.y - a.y) * (m.x - a.x) := by unfold cross at hcol; linear_combination hcol
  have E2 : (b.x - a.x) * (p.y - a.y) = (b.y - a.y) * (p.x - a.x) := by unfold cross at hc; linear_combination hc
  have E3 : (b.x - a.x) * (p.y - m.y) = (b.y - a.y) * (p.x - m.x) := by linear_combination E2 - E1
  have J1 : (b.x - a.x) * cross a m p = (m.x - a.x) * cross a b p - (p.x - a.x) * cross a b m := by unfold cross; ring
  have hz : cross a m p = 0 := by
    have : (b.x - a.x) * cross a m p = 0 := by rw [J1, hc, hcol]; ring
    rcases Int.mul_eq_zero.1 this with h0 | h0
    · omega
    · exact h0
  obtain ⟨s1a, _, s1c, _⟩ := sign_mul _ _ _ _ hdx E1
  obtain ⟨s2a, _, s2c, _⟩ := sign_mul _ _ _ _ hdx E2
  obtain ⟨_, s3b, _, s3d⟩ := sign_mul _ _ _ _ hdx E3
  rw [onSeg_iff]
  clear E1 E2 E3 J1 hcol hc
  rcases Int.le_total 0 (b.y - a.y) with hd | hd
  · have q1 := s2a hd (by omega); have q2 := s1a hd (by omega); have q3 := s3b hd (by omega)
    clear s1a s1c s2a s2c s3b s3d
    refine ⟨hz, ?_, ?_, ?_, ?_⟩ <;> omega
  · have q1 := s3d hd (by omega); have q2 := s1c hd (by omega); have q3 := s2c hd (by omega)
    clear s1a s1c s2a s2c s3b s3d
    refine ⟨hz, ?_, ?_, ?_, ?_⟩ <;> omega

/-- … the right part -/
theorem seg_right (a m b p : Pt) (hx : a.x < b.x) (hcol : cross a b m = 0) (hc : cross a b p = 0)
    (h1 : m.x ≤ p.x) (h2 : p.x ≤ b.x) : onSeg m b p = true := by
  have hdx : 0 < b.x - a.x := by omega
  have E1 : (b.x - a.x) * (m.y - a.y) = (b.y - a.y) * (m.x - a.x) := by unfold cross at hcol; linear_combination hcol
  have E2 : (b.x - a.x) * (p.y - a.y) = (b.y - a.y) * (p.x - a.x) := by unfold cross at hc; linear_combination hc
  have E3 : (b.x - a.x) * (p.y - m.y) = (b.y - a.y) * (p.x - m.x) := by linear_combination E2 - E1
  have E4 : (b.x - a.x) * (b.y - p.y) = (b.y - a.y) * (b.x - p.x) := by linear_combination (-1 : Int) * E2
  have E5 : (b.x - a.x) * (b.y - m.y) = (b.y - a.y) * (b.x - m.x) := by linear_combination (-1 : Int) * E1
  have J2 : (b.x - a.x) * cross m b p = (b.x - m.x) * cross a b p - (b.x - p.x) * cross a b m := by unfold cross; ring
  have hz : cross m b p = 0 := by
    have : (b.x - a.x) * cross m b p = 0 := by rw [J2, hc, hcol]; ring
    rcases Int.mul_eq_zero.1 this with h0 | h0
    · omega
    · exact h0
  obtain ⟨s3a, _, s3c, _⟩ := sign_mul _ _ _ _ hdx E3
  obtain ⟨s4a, _, s4c, _⟩ := sign_mul _ _ _ _ hdx E4
  obtain ⟨s5a, _, s5c, _⟩ := sign_mul _ _ _ _ hdx E5
  rw [onSeg_iff]
  clear E1 E2 E3 E4 E5 J2 hcol hc
  rcases Int.le_total 0 (b.y - a.y) with hd | hd
  · have q1 := s3a hd (by omega); have q2 := s5a hd (by omega); have q3 := s4a hd (by omega)
    clear s3a s3c s4a s4c s5a s5c
    refine ⟨hz, ?_, ?_, ?_, ?_⟩ <;> omega
  · have q1 := s4c hd (by omega); have q2 := s5c hd (by omega); have q3 := s3c hd (by omega)
    clear s3a s3c s4a s4c s5a s5c
    refine ⟨hz, ?_, ?_, ?_, ?_⟩ <;> omega

/-- a point collinear with a and m (m ≠ a in x) is collinear with a and b -/
theorem col_left (a m b p : Pt) (hx : a.x < b.x) (hcol : cross a b m = 0) (hc : cross a m p = 0) (hne : m.x ≠ a.x) : cross a b p = 0 := by
  have J1 : (b.x - a.x) * cross a m p = (m.x - a.x) * cross a b p - (p.x - a.x) * cross a b m := by unfold cross; ring
  have : (m.x - a.x) * cross a b p = 0 := by rw [hc, hcol] at J1; linear_combination (-1 : Int) * J1
  rcases Int.mul_eq_zero.1 this with h0 | h0
  · omega
  · exact h0
theorem col_right (a m b p : Pt) (hx : a.x < b.x) (hcol : cross a b m = 0) (hc : cross m b p = 0) (hne : m.x ≠ b.x) : cross a b p = 0 := by
  have J2 : (b.x - a.x) * cross m b p = (b.x - m.x) * cross a b p - (b.x - p.x) * cross a b m := by unfold cross; ring
  have : (b.x - m.x) * cross a b p = 0 := by rw [hc, hcol] at J2; linear_combination (-1 : Int) * J2
  rcases Int.mul_eq_zero.1 this with h0 | h0
  · omega
  · exact h0

/-- on a non-vertical line, equal x means equal point -/
theorem same_x_same_pt (a m b : Pt) (hx : a.x < b.x) (hcol : cross a b m = 0) (q : Pt) (hq : cross a b q = 0) (he : m.x = q.x) : m.y = q.y := by
  have E : (b.x - a.x) * (m.y - q.y) = 0 := by unfold cross at hcol hq; rw [he] at hcol; linear_combination hcol - hq
  rcases Int.mul_eq_zero.1 E with h0 | h0 <;> omega


theorem cross_self_right (a b : Pt) : cross a b b = 0 := by unfold cross; ring
theorem cross_self_left (a b : Pt) : cross a b a = 0 := by unfold cross; ring

/-- a point of segment ab lies on am or on mb, and conversely — when the segment is not vertical -/
theorem onSeg_split_x (a m b p : Pt) (hm : onSeg a b m = true) (hx : a.x < b.x) :
    onSeg a b p = true ↔ (onSeg a m p = true ∨ onSeg m b p = true) := by
  have hm' := (onSeg_iff a b m).1 hm
  obtain ⟨hcol, hmx1, hmx2, _, _⟩ := hm'
  have hmx1' : a.x ≤ m.x := by omega
  have hmx2' : m.x ≤ b.x := by omega
  constructor
  · intro h
    obtain ⟨hc, hpx1, hpx2, _, _⟩ := (onSeg_iff a b p).1 h
    by_cases hpm : p.x ≤ m.x
    · exact Or.inl (seg_left a m b p hx hcol hc (by omega) hpm)
    · exact Or.inr (seg_right a m b p hx hcol hc (by omega) (by omega))
  · rintro (h | h)
    · obtain ⟨hc, hpx1, hpx2, hpy1, hpy2⟩ := (onSeg_iff a m p).1 h
      by_cases hma : m.x = a.x
      · have hmy : m.y = a.y := same_x_same_pt a m b hx hcol a (cross_self_left a b) hma
        have hp : p = a := by cases p; cases a; simp only [Pt.mk.injEq] at *; omega
        rw [hp]; exact onSeg_self_left a b
      · have hc' := col_left a m b p hx hcol hc hma
        exact seg_left a b b p hx (cross_self_right a b) hc' (by omega) (by omega)
    · obtain ⟨hc, hpx1, hpx2, hpy1, hpy2⟩ := (onSeg_iff m b p).1 h
      by_cases hmb : m.x = b.x
      · have hmy : m.y = b.y := same_x_same_pt a m b hx hcol b (cross_self_right a b) hmb
        have hp : p = b := by cases p; cases b; simp only [Pt.mk.injEq] at *; omega
        rw [hp, ← onSeg_swap]; exact onSeg_self_left b a
      · have hc' := col_right a m b p hx hcol hc hmb
        exact seg_left a b b p hx (cross_self_right a b) hc' (by omega) (by omega)


def tr (p : Pt) : Pt := ⟨p.y, p.x⟩
theorem cross_tr (a b p : Pt) : cross (tr a) (tr b) (tr p) = - cross a b p := by unfold cross tr; ring
theorem onSeg_tr (a b p : Pt) : onSeg (tr a) (tr b) (tr p) = true ↔ onSeg a b p = true := by
  rw [onSeg_iff, onSeg_iff, cross_tr]
  simp only [tr]
  constructor
  · rintro ⟨h0, h1, h2, h3, h4⟩; exact ⟨by omega, h3, h4, h1, h2⟩
  · rintro ⟨h0, h1, h2, h3, h4⟩; exact ⟨by omega, h3, h4, h1, h2⟩

/-- **a vertex inside an edge splits the edge's boundary test exactly** -/
theorem onSeg_split (a m b p : Pt) (hm : onSeg a b m = true) :
    onSeg a b p = true ↔ (onSeg a m p = true ∨ onSeg m b p = true) := by
  rcases Int.lt_trichotomy a.x b.x with hlt | heq | hgt
  · exact onSeg_split_x a m b p hm hlt
  · rcases Int.lt_trichotomy a.y b.y with hlt' | heq' | hgt'
    · have := onSeg_split_x (tr a) (tr m) (tr b) (tr p) ((onSeg_tr a b m).2 hm) (by simpa [tr] using hlt')
      rw [onSeg_tr, onSeg_tr, onSeg_tr] at this; exact this
    · -- a = b: the segment is a point
      have hab : a = b := by cases a; cases b; simp only [Pt.mk.injEq] at *; omega
      subst hab
      have hma : m = a := by
        obtain ⟨_, h1, h2, h3, h4⟩ := (onSeg_iff a a m).1 hm
        cases m; cases a; simp only [Pt.mk.injEq, min_self, max_self] at *; omega
      subst hma
      simp
    · have hm' : onSeg b a m = true := by rw [onSeg_swap]; exact hm
      have := onSeg_split_x (tr b) (tr m) (tr a) (tr p) ((onSeg_tr b a m).2 hm') (by simpa [tr] using hgt')
      rw [onSeg_tr, onSeg_tr, onSeg_tr, onSeg_swap a b, onSeg_swap m b, onSeg_swap a m] at this
      rw [this]; exact Or.comm
  · have hm' : onSeg b a m = true := by rw [onSeg_swap]; exact hm
    have := onSeg_split_x b m a p hm' hgt
    rw [onSeg_swap a b, onSeg_swap m b, onSeg_swap a m] at this
    rw [this]; exact Or.comm


theorem InClosed_collinear_head (a m b : Pt) (l : List Pt) (p : Pt) (hm : onSeg a b m = true) :
    InClosed (a :: m :: b :: l) p ↔ InClosed (a :: b :: l) p := by
  have e1 : edges (a :: m :: b :: l) = (a, m) :: (m, b) :: edgesFrom a (b :: l) := rfl
  have e2 : edges (a :: b :: l) = (a, b) :: edgesFrom a (b :: l) := rfl
  unfold InClosed
  rw [wn_eq, wn_eq, onBoundary_eq, onBoundary_eq, e1, e2]
  have hw : wnE ((a, m) :: (m, b) :: edgesFrom a (b :: l)) p = wnE ((a, b) :: edgesFrom a (b :: l)) p := by
    simp only [wnE, List.map_cons, List.sum_cons]
    rw [← edgeW_split a m b p hm]; omega
  have hb : bdE ((a, m) :: (m, b) :: edgesFrom a (b :: l)) p = bdE ((a, b) :: edgesFrom a (b :: l)) p := by
    simp only [bdE, List.any_cons]
    rw [Bool.eq_iff_iff]
    simp only [Bool.or_eq_true]
    rw [onSeg_split a m b p hm]
    tauto
  rw [hw, hb]

/-- **collinear vertices**: writing an extra vertex anywhere on an edge (interior or end point)
    changes no answer -/
theorem InClosed_collinear (l1 l2 : List Pt) (a m b p : Pt) (hm : onSeg a b m = true) :
    InClosed (l1 ++ a :: m :: b :: l2) p ↔ InClosed (l1 ++ a :: b :: l2) p := by
  rw [InClosed_rotate (a :: m :: b :: l2) l1, InClosed_rotate (a :: b :: l2) l1]
  exact InClosed_collinear_head a m b (l2 ++ l1) p hm

/-- … also on the closing edge from the last vertex back to the first -/
theorem InClosed_collinear_closing (l : List Pt) (a m b p : Pt) (hm : onSeg a b m = true) :
    InClosed (b :: l ++ [a, m]) p ↔ InClosed (b :: l ++ [a]) p := by
  have h1 := InClosed_rotate (b :: l) [a, m] p
  have h2 := InClosed_rotate (b :: l) [a] p
  rw [← h1, ← h2]
  exact InClosed_collinear_head a m b l p hm

end L21.Geom
