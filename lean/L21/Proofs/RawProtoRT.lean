import L21.Props.C14
/-
C14 — helper lemmas for the layout-level round trip through the protobuf schema: importing what
`groupElems` built returns, as a multiset, the elements that went in.
-/
namespace L21.RawProto
open L21.Geom

def normShape : Shape → Shape
  | .rect p0 p1 => .rect ⟨min p0.x p1.x, min p0.y p1.y⟩ ⟨max p0.x p1.x, max p0.y p1.y⟩
  | s => s
/-- what an element looks like after the trip: corners of rectangles named (min,min)/(max,max), an
    empty net name read as "no net"; layer, purpose, points, width unchanged -/
def normElem (e : Elem) : Elem := ⟨optNet (netStr e.net), e.layer, e.purpose, normShape e.shape⟩

def rectOk (r : PRect) : Bool := r.ll.isSome
def pathOk (p : PPath) : Bool := decide (0 ≤ p.width)
/-- a group the importer accepts -/
def groupOk (g : LayerShapes) : Bool :=
  (match g.layer with | some (ln, pn) => inI16 ln && inI16 pn | none => false) && g.rects.all rectOk && g.paths.all pathOk

def rectsOf (rs : List PRect) : List (Bytes × Shape) :=
  rs.map fun r => (r.net, .rect (r.ll.getD ⟨0, 0⟩) ⟨(r.ll.getD ⟨0, 0⟩).x + r.w, (r.ll.getD ⟨0, 0⟩).y + r.h⟩)
def pathsOf (ps : List PPath) : List (Bytes × Shape) := ps.map fun p => (p.net, .path p.pts p.width.toNat)
def polysOf (ps : List PPoly) : List (Bytes × Shape) := ps.map fun p => (p.net, Shape.polygon p.verts)

theorem importRects_ok : ∀ (rs : List PRect), rs.all rectOk = true → importRects rs = .ok (rectsOf rs) := by
  intro rs
  induction rs with
  | nil => intro _; rfl
  | cons r rest ih =>
    intro h
    simp only [List.all_cons, Bool.and_eq_true] at h
    cases hl : r.ll with
    | none => simp [rectOk, hl] at h
    | some p => simp [importRects, hl, ih h.2, rectsOf]

theorem importPaths_ok : ∀ (ps : List PPath), ps.all pathOk = true → importPaths ps = .ok (pathsOf ps) := by
  intro ps
  induction ps with
  | nil => intro _; rfl
  | cons p rest ih =>
    intro h
    simp only [List.all_cons, Bool.and_eq_true, pathOk, decide_eq_true_eq] at h
    have : ¬ p.width < 0 := by omega
    simp [importPaths, this, ih h.2, pathsOf]

/-- the elements a well-formed group is imported to -/
def groupElemsOut (g : LayerShapes) : List Elem :=
  match g.layer with
  | some k => (rectsOf g.rects ++ polysOf g.polys ++ pathsOf g.paths).map (fun s => ⟨optNet s.1, k.1, k.2, s.2⟩)
  | none => []

theorem importElems_ok : ∀ (gs : List LayerShapes), gs.all groupOk = true → importElems gs = .ok (gs.flatMap groupElemsOut) := by
  intro gs
  induction gs with
  | nil => intro _; rfl
  | cons g rest ih =>
    intro h
    simp only [List.all_cons, Bool.and_eq_true] at h
    obtain ⟨hg, hr⟩ := h
    simp only [groupOk, Bool.and_eq_true] at hg
    obtain ⟨⟨hl, hrects⟩, hpaths⟩ := hg
    cases hk : g.layer with
    | none => simp [hk] at hl
    | some k =>
      obtain ⟨ln, pn⟩ := k
      simp only [hk] at hl
      simp [importElems, importLayerShapes, hk, hl, importRects_ok _ hrects, importPaths_ok _ hpaths, ih hr, groupElemsOut, polysOf]


def elemOkI (e : Elem) : Bool := inI16 e.layer && inI16 e.purpose

/-- adding one shape to a group: the group stays well-formed and its output gains exactly that element -/
theorem addShape_ok (g : LayerShapes) (net : Bytes) (s : Shape) (h : groupOk g = true) : groupOk (addShape g net s) = true := by
  simp only [groupOk, Bool.and_eq_true] at h ⊢
  obtain ⟨⟨h1, h2⟩, h3⟩ := h
  cases s with
  | rect p0 p1 => exact ⟨⟨h1, by simp [addShape, h2, rectOk, exportRect]⟩, h3⟩
  | polygon pts => exact ⟨⟨h1, h2⟩, h3⟩
  | path pts w => exact ⟨⟨h1, h2⟩, by simp [addShape, h3, pathOk]⟩

theorem addShape_layer (g : LayerShapes) (net : Bytes) (s : Shape) : (addShape g net s).layer = g.layer := by
  cases s <;> rfl

theorem addShape_out (g : LayerShapes) (k : Int × Int) (hk : g.layer = some k) (n : Option Bytes) (s : Shape) :
    (groupElemsOut (addShape g (netStr n) s)).Perm (groupElemsOut g ++ [⟨optNet (netStr n), k.1, k.2, normShape s⟩]) := by
  cases s with
  | rect p0 p1 =>
    have e1 : min p0.x p1.x + (max p0.x p1.x - min p0.x p1.x) = max p0.x p1.x := by omega
    have e2 : min p0.y p1.y + (max p0.y p1.y - min p0.y p1.y) = max p0.y p1.y := by omega
    simp only [groupElemsOut, addShape, hk, rectsOf, List.map_append, List.map_cons, List.map_nil, exportRect, Option.getD_some, e1, e2, normShape]
    simp only [List.append_assoc]
    refine List.Perm.append_left _ ?_
    exact List.perm_append_comm.trans (by simp [List.perm_append_comm])
  | polygon pts =>
    simp only [groupElemsOut, addShape, hk, polysOf, List.map_append, List.map_cons, List.map_nil, normShape, List.append_assoc]
    refine List.Perm.append_left _ (List.Perm.append_left _ ?_)
    exact List.perm_append_comm
  | path pts w =>
    simp only [groupElemsOut, addShape, hk, pathsOf, List.map_append, List.map_cons, List.map_nil, normShape, List.append_assoc, Int.toNat_natCast]
    exact List.Perm.refl _


def F (gs : List LayerShapes) : List Elem := gs.flatMap groupElemsOut

def upd (key : Int × Int) (net : Bytes) (s : Shape) (g : LayerShapes) : LayerShapes :=
  if g.layer == some key then addShape g net s else g

theorem upd_layer (key : Int × Int) (net : Bytes) (s : Shape) (g : LayerShapes) : (upd key net s g).layer = g.layer := by
  unfold upd; split
  · exact addShape_layer g net s
  · rfl

theorem map_upd_id (key : Int × Int) (net : Bytes) (s : Shape) : ∀ (gs : List LayerShapes),
    (∀ g ∈ gs, g.layer ≠ some key) → gs.map (upd key net s) = gs := by
  intro gs h
  induction gs with
  | nil => rfl
  | cons g r ih =>
    have hg : (g.layer == some key) = false := by simpa using h g (by simp)
    simp only [List.map_cons, upd, hg, Bool.false_eq_true, if_false]
    congr 1
    exact ih (fun x hx => h x (by simp [hx]))

theorem map_upd_perm (key : Int × Int) (n : Option Bytes) (s : Shape) : ∀ (gs : List LayerShapes),
    (gs.map (·.layer)).Nodup → (∃ g ∈ gs, g.layer = some key) →
    (F (gs.map (upd key (netStr n) s))).Perm (F gs ++ [⟨optNet (netStr n), key.1, key.2, normShape s⟩]) := by
  intro gs
  induction gs with
  | nil => intro _ h; obtain ⟨g, hg, _⟩ := h; cases hg
  | cons g r ih =>
    intro hnd hex
    simp only [List.map_cons, List.nodup_cons] at hnd
    obtain ⟨hnotin, hnd'⟩ := hnd
    by_cases hk : g.layer = some key
    · -- this is the group; no other group has the key
      have hrest : ∀ x ∈ r, x.layer ≠ some key := by
        intro x hx e
        exact hnotin (by rw [hk, ← e]; exact List.mem_map_of_mem hx)
      have hu : upd key (netStr n) s g = addShape g (netStr n) s := by simp [upd, hk]
      simp only [List.map_cons, F, List.flatMap_cons, hu, map_upd_id key _ s r hrest]
      have := addShape_out g key hk n s
      exact (List.Perm.append_right _ this).trans (by
        simp only [List.append_assoc]
        exact List.Perm.append_left _ List.perm_append_comm)
    · have hu : upd key (netStr n) s g = g := by
        have : (g.layer == some key) = false := by simpa using hk
        simp [upd, this]
      have hex' : ∃ x ∈ r, x.layer = some key := by
        obtain ⟨x, hx, hxk⟩ := hex
        rcases List.mem_cons.1 hx with rfl | hx
        · exact absurd hxk hk
        · exact ⟨x, hx, hxk⟩
      simp only [List.map_cons, F, List.flatMap_cons, hu, List.append_assoc]
      exact List.Perm.append_left _ (ih hnd' hex')

/-- **no element is dropped, duplicated or moved to another layer**: grouping the elements of a
    layout by (layer, purpose) and importing the groups gives back, as a multiset, exactly the
    elements (each normalised) -/
theorem groupElems_perm : ∀ (es : List Elem) (acc : List LayerShapes),
    acc.all groupOk = true → (acc.map (·.layer)).Nodup → es.all elemOkI = true →
    (groupElems es acc).all groupOk = true ∧ (F (groupElems es acc)).Perm (F acc ++ es.map normElem) := by
  intro es
  induction es with
  | nil => intro acc h _ _; exact ⟨h, by simp [groupElems]⟩
  | cons e rest ih =>
    intro acc hok hnd hes
    simp only [List.all_cons, Bool.and_eq_true] at hes
    obtain ⟨he, hrest⟩ := hes
    simp only [groupElems]
    by_cases hany : acc.any (fun g => g.layer == some (e.layer, e.purpose)) = true
    · simp only [hany, if_true]
      have hex : ∃ g ∈ acc, g.layer = some (e.layer, e.purpose) := by
        obtain ⟨g, hg, hk⟩ := List.any_eq_true.1 hany
        exact ⟨g, hg, by simpa using hk⟩
      have hok' : (acc.map (upd (e.layer, e.purpose) (netStr e.net) e.shape)).all groupOk = true := by
        simp only [List.all_map, List.all_eq_true, Function.comp]
        intro g hg
        have := List.all_eq_true.1 hok g hg
        unfold upd; split
        · exact addShape_ok g _ _ this
        · exact this
      have hnd' : ((acc.map (upd (e.layer, e.purpose) (netStr e.net) e.shape)).map (·.layer)).Nodup := by
        simp only [List.map_map, Function.comp_def, upd_layer]; exact hnd
      obtain ⟨r1, r2⟩ := ih _ hok' hnd' hrest
      refine ⟨r1, r2.trans ?_⟩
      have := map_upd_perm (e.layer, e.purpose) e.net e.shape acc hnd hex
      simp only [List.map_cons, List.append_assoc]
      exact (List.Perm.append_right _ this).trans (by simp [normElem])
    · have hany' : acc.any (fun g => g.layer == some (e.layer, e.purpose)) = false := by simpa using hany
      simp only [hany', Bool.false_eq_true, if_false]
      have hnew : groupOk (addShape ⟨some (e.layer, e.purpose), [], [], []⟩ (netStr e.net) e.shape) = true := by
        apply addShape_ok
        simp only [elemOkI, Bool.and_eq_true] at he
        simp [groupOk, he.1, he.2]
      have hok' : (acc ++ [addShape ⟨some (e.layer, e.purpose), [], [], []⟩ (netStr e.net) e.shape]).all groupOk = true := by
        simp [List.all_append, hok, hnew]
      have hnd' : ((acc ++ [addShape ⟨some (e.layer, e.purpose), [], [], []⟩ (netStr e.net) e.shape]).map (·.layer)).Nodup := by
        simp only [List.map_append, List.map_cons, List.map_nil, addShape_layer]
        rw [List.nodup_append]
        refine ⟨hnd, by simp, ?_⟩
        intro a ha b hb
        simp only [List.mem_singleton] at hb
        subst hb
        intro e'
        subst e'
        obtain ⟨g, hg, hgl⟩ := List.mem_map.1 ha
        have := List.any_eq_false.1 hany' g hg
        simp [hgl] at this
      obtain ⟨r1, r2⟩ := ih _ hok' hnd' hrest
      refine ⟨r1, r2.trans ?_⟩
      have hout := addShape_out ⟨some (e.layer, e.purpose), [], [], []⟩ (e.layer, e.purpose) rfl e.net e.shape
      have h0 : groupElemsOut ⟨some (e.layer, e.purpose), [], [], []⟩ = [] := by simp [groupElemsOut, rectsOf, polysOf, pathsOf]
      rw [h0, List.nil_append] at hout
      simp only [F, List.flatMap_append, List.flatMap_cons, List.flatMap_nil, List.append_nil, List.map_cons, List.append_assoc]
      exact List.Perm.append_left _ ((List.Perm.append_right _ hout).trans (by simp [normElem]))


/-- an instance after the trip: a stored angle of 0° is read as "no angle" -/
def normInst (i : Inst) : Inst := { i with angle := if i.angle.getD 0 = 0 then none else some (i.angle.getD 0) }

theorem importInsts_export (known : List Bytes) : ∀ (is : List Inst), (∀ i ∈ is, known.contains i.cell = true) →
    importInsts known (is.map exportInst) = .ok (is.map normInst) := by
  intro is
  induction is with
  | nil => intro _; rfl
  | cons i r ih =>
    intro h
    have h1 := h i (by simp)
    simp only [List.map_cons, importInsts, exportInst, ih (fun x hx => h x (by simp [hx])), h1, if_true, normInst]

theorem importAnnots_export : ∀ (as : List (Bytes × Pt)), importAnnots (as.map (fun a => (a.1, some a.2))) = .ok as := by
  intro as
  induction as with
  | nil => rfl
  | cons a r ih => simp only [List.map_cons, importAnnots, ih]

end L21.RawProto
