import L21.Model.GdsLazy
import L21.Proofs.GdsFuel
import L21.Props.C10
/-
The lazy reader (`Model/GdsLazy.lean`: one record of look-ahead, faults surface one record early,
ENDLIB handed out forever) and the eager model (`Model/Gds.lean: dec` = tokenise to the first
ENDLIB, then parse the list) return the same result for EVERY byte string: `decLazy_eq_dec`.

Method.  `decodable bs` is the list of records the byte string holds up to the first ENDLIB or
the first undecodable record; `gview s` is that list as seen from a parser state.  One `next()`
either hands out the head of the view and moves to its tail, or fails — and it fails only when
the view is not `complete` (does not end with ENDLIB).  For every loop of the parser a simulation
lemma (`strans_sim`, `elem_sim`, `elems_sim`, `lib_sim`, `top_sim`) says: when the lazy loop
returns a value, the list loop on the view returns the same value and the views of the remaining
states correspond; when the lazy loop fails and the view is complete, the list loop fails too.  At
the top, a value can only be returned after ENDLIB was consumed, so the view was complete and the
eager tokenizer returns exactly it (`decodable_tokenize`); on an incomplete view the tokenizer fails.
The per-record decisions are factored through `elemAct` / `libAct`, which both readers are shown
to follow (`parseElem_step`, `parseElemL_step`, `parseLibBody_step`, `parseLibBodyL_step`).
-/
namespace L21.Gds

/-! ### what the byte string holds: the records decodable up to the first ENDLIB or the first fault -/

def decodable (bs : Bytes) : List Rec :=
  match h : readRecord bs with
  | .err => []
  | .ok (r, rest) => if r.rt = rEndLib then [r] else r :: decodable rest
termination_by bs.length
decreasing_by have := c10_progress _ _ _ h; omega

/-- the records the lazy parser will be handed from state `s` on -/
def gview (s : LS) : List Rec := if s.nxt.rt = rEndLib then [s.nxt] else s.nxt :: decodable s.rest

/-- the view ends with ENDLIB (no fault before the end of the library) -/
def complete (rs : List Rec) : Bool := match rs.getLast? with | some r => r.rt == rEndLib | none => false

theorem gview_ne_nil (s : LS) : gview s ≠ [] := by unfold gview; split <;> simp

theorem complete_cons (x : Rec) {rs : List Rec} (h : rs ≠ []) : complete (x :: rs) = complete rs := by
  unfold complete; rw [List.getLast?_cons_of_ne_nil h]

theorem complete_single (x : Rec) : complete [x] = (x.rt == rEndLib) := by simp [complete]

theorem decodable_length (bs : Bytes) : (decodable bs).length * 4 ≤ bs.length := by
  fun_induction decodable bs with
  | case1 bs _ => simp
  | case2 bs r rest h he => have := c10_progress _ _ _ h; simp; omega
  | case3 bs r rest h he ih => have := c10_progress _ _ _ h; simp; omega

theorem gview_length (s : LS) : (gview s).length ≤ s.rest.length / 4 + 1 := by
  unfold gview; split
  · simp
  · have := decodable_length s.rest; simp; omega

theorem decodable_eq (bs : Bytes) : decodable bs =
    match readRecord bs with
    | .err => []
    | .ok (r, rest) => if r.rt = rEndLib then [r] else r :: decodable rest := by
  rw [decodable]
  split
  · rename_i h; rw [h]
  · rename_i r rest h; rw [h]

/-- the eager tokenizer returns exactly the decodable records, and only when they end with ENDLIB -/
theorem tokenize_decodable : ∀ (fuel : Nat) (bs : Bytes) (rs : List Rec), tokenize fuel bs = .ok rs →
    decodable bs = rs ∧ complete rs = true := by
  intro fuel
  induction fuel with
  | zero => intro bs rs h; simp [tokenize] at h
  | succ f ih =>
    intro bs rs h
    rw [decodable_eq]
    simp only [tokenize] at h
    cases hr : readRecord bs with
    | err => simp [hr] at h
    | ok p =>
      obtain ⟨r, rest⟩ := p
      simp only [hr] at h ⊢
      by_cases he : r.rt = rEndLib
      · simp only [he, if_true] at h ⊢
        injection h with h; subst h; simp [complete, he]
      · simp only [he, if_false] at h ⊢
        cases ht : tokenize f rest with
        | err => simp [ht] at h
        | ok rs' =>
          simp [ht] at h; subst h
          obtain ⟨h1, h2⟩ := ih rest rs' ht
          refine ⟨by rw [h1], ?_⟩
          have : rs' ≠ [] := by intro e; subst e; simp [complete] at h2
          rw [complete_cons _ this]; exact h2

theorem decodable_tokenize : ∀ (fuel : Nat) (bs : Bytes), bs.length / 4 + 1 ≤ fuel → complete (decodable bs) = true →
    tokenize fuel bs = .ok (decodable bs) := by
  intro fuel
  induction fuel with
  | zero => intro bs h; omega
  | succ f ih =>
    intro bs hf hc
    rw [decodable_eq] at hc ⊢
    simp only [tokenize]
    cases hr : readRecord bs with
    | err => simp [hr, complete] at hc
    | ok p =>
      obtain ⟨r, rest⟩ := p
      simp only [hr] at hc ⊢
      by_cases he : r.rt = rEndLib
      · simp [he]
      · simp only [he, if_false] at hc ⊢
        have hp := c10_progress _ _ _ hr
        have hne : decodable rest ≠ [] := by
          intro e; rw [e] at hc; simp [complete] at hc; exact he hc
        rw [complete_cons _ hne] at hc
        rw [ih rest (by omega) hc]

/-! ### one `next()` against the view -/

theorem next_endlib (s : LS) (h : s.nxt.rt = rEndLib) : s.next = .ok (s.nxt, s) ∧ gview s = [s.nxt] := by
  simp [LS.next, gview, h]

theorem next_other (s : LS) (h : s.nxt.rt ≠ rEndLib) :
    (s.next = .err ∧ gview s = [s.nxt]) ∨
    (∃ s', s.next = .ok (s.nxt, s') ∧ gview s = s.nxt :: gview s' ∧ s'.rest.length + 4 ≤ s.rest.length) := by
  unfold LS.next gview
  simp only [h, if_false]
  rw [decodable_eq]
  cases hr : readRecord s.rest with
  | err => left; simp
  | ok p =>
    obtain ⟨r, rest⟩ := p
    right
    refine ⟨⟨r, rest⟩, rfl, ?_, c10_progress _ _ _ hr⟩
    simp

theorem complete_view_cons {s s' : LS} {x : Rec} (h : gview s = x :: gview s') :
    complete (gview s) = complete (gview s') := by
  rw [h, complete_cons _ (gview_ne_nil s')]

theorem view_len_cons {s s' : LS} {x : Rec} (h : gview s = x :: gview s') :
    (gview s').length + 1 = (gview s).length := by rw [h]; simp

/-! ### `parse_strans` -/

theorem pstl_other (f : Nat) (st : Strans) (s : LS) (h1 : ∀ m, s.nxt ≠ ⟨27, .reals [m]⟩) (h2 : ∀ a, s.nxt ≠ ⟨28, .reals [a]⟩) :
    parseStransTailL (f + 1) st s = .ok (st, s) := by
  unfold parseStransTailL
  split
  · rename_i m hm; exact absurd hm (h1 m)
  · rename_i a ha; exact absurd ha (h2 a)
  · rfl

theorem pst_other (st : Strans) (r : Rec) (rs : List Rec) (h1 : ∀ m, r ≠ ⟨27, .reals [m]⟩) (h2 : ∀ a, r ≠ ⟨28, .reals [a]⟩) :
    parseStransTail st (r :: rs) = (st, r :: rs) := by
  unfold parseStransTail
  split
  · rename_i m _ hm; injection hm with hm _; exact absurd hm (h1 m)
  · rename_i a _ ha; injection ha with ha _; exact absurd ha (h2 a)
  · rfl

def contL (f : Nat) (st2 : Strans) : Out (Rec × LS) → Out (Strans × LS)
  | .ok (_, s') => parseStransTailL f st2 s'
  | .err => .err

theorem pstl_mag (f : Nat) (st : Strans) (s : LS) (m : Nat) (h : s.nxt = ⟨27, .reals [m]⟩) :
    parseStransTailL (f + 1) st s = contL f { st with mag := some m } s.next := by
  unfold parseStransTailL
  split
  · rename_i m' hm; rw [h] at hm; injection hm with _ hm; injection hm with hm; injection hm with hm; subst hm; rfl
  · rename_i a ha; rw [h] at ha; injection ha with ha _; simp at ha
  · rename_i h1 _; exact absurd h (h1 m)

theorem pstl_angle (f : Nat) (st : Strans) (s : LS) (a : Nat) (h : s.nxt = ⟨28, .reals [a]⟩) :
    parseStransTailL (f + 1) st s = contL f { st with angle := some a } s.next := by
  unfold parseStransTailL
  split
  · rename_i m hm; rw [h] at hm; injection hm with hm _; simp at hm
  · rename_i a' ha; rw [h] at ha; injection ha with _ ha; injection ha with ha; injection ha with ha; subst ha; rfl
  · rename_i _ h2; exact absurd h (h2 a)

def StransGoal (st : Strans) (s : LS) (r : Out (Strans × LS)) : Prop :=
  match r with
  | .ok (st', s') => parseStransTail st (gview s) = (st', gview s') ∧ s'.rest.length ≤ s.rest.length ∧
      (gview s').length ≤ (gview s).length ∧ complete (gview s') = complete (gview s)
  | .err => complete (gview s) = false

theorem strans_sim : ∀ (f : Nat) (st : Strans) (s : LS), s.rest.length < f → StransGoal st s (parseStransTailL f st s) := by
  intro f
  induction f with
  | zero => intro st s h; omega
  | succ f ih =>
    intro st s hf
    have key : ∀ (st2 : Strans) (hrt : s.nxt.rt ≠ rEndLib) (hpt : ∀ rs, parseStransTail st (s.nxt :: rs) = parseStransTail st2 rs),
        StransGoal st s (contL f st2 s.next) := by
      intro st2 hrt hpt
      rcases next_other s hrt with ⟨hn, hv⟩ | ⟨s1, hn, hv, hl⟩
      · rw [hn]; simp only [StransGoal, contL]; rw [hv, complete_single]; simpa using hrt
      · rw [hn]
        have h0 := ih st2 s1 (by omega)
        simp only [contL]
        generalize parseStransTailL f st2 s1 = q at h0 ⊢
        cases q with
        | err => simp only [StransGoal] at h0 ⊢; rw [complete_view_cons hv]; exact h0
        | ok p =>
          obtain ⟨st', s'⟩ := p
          simp only [StransGoal] at h0 ⊢
          obtain ⟨h1, h2, h3, h4⟩ := h0
          refine ⟨by rw [hv, hpt, h1], by omega, by rw [hv]; simp; omega, by rw [h4, complete_view_cons hv]⟩
    by_cases hm : ∃ m, s.nxt = ⟨27, .reals [m]⟩
    · obtain ⟨m, hm⟩ := hm
      rw [pstl_mag f st s m hm]
      exact key { st with mag := some m } (by rw [hm]; simp [rEndLib]) (by intro rs; rw [hm]; simp [parseStransTail])
    · by_cases ha : ∃ a, s.nxt = ⟨28, .reals [a]⟩
      · obtain ⟨a, ha⟩ := ha
        rw [pstl_angle f st s a ha]
        exact key { st with angle := some a } (by rw [ha]; simp [rEndLib]) (by intro rs; rw [ha]; simp [parseStransTail])
      · have h1 : ∀ m, s.nxt ≠ ⟨27, .reals [m]⟩ := fun m h => hm ⟨m, h⟩
        have h2 : ∀ a, s.nxt ≠ ⟨28, .reals [a]⟩ := fun a h => ha ⟨a, h⟩
        rw [pstl_other f st s h1 h2]
        change _ ∧ _ ∧ _ ∧ _
        refine ⟨?_, Nat.le_refl _, Nat.le_refl _, rfl⟩
        unfold gview
        split
        · exact pst_other st _ _ h1 h2
        · exact pst_other st _ _ h1 h2

/-! ### one element -/

def propOf (k : EK) (f : Nat) (b : B) (attr : Int) : List Rec → Out (Elem × List Rec)
  | ⟨44, .str v⟩ :: rest' => parseElem k f { b with props := b.props ++ [⟨attr, v⟩] } rest'
  | _ => .err

/-- what the list parser does after classifying the record -/
def stepOf (k : EK) (f : Nat) (b : B) (rest : List Rec) : Act → Out (Elem × List Rec)
  | .done => (match build k b with | .ok e => .ok (e, rest) | .err => .err)
  | .upd b' => parseElem k f b' rest
  | .prop attr => propOf k f b attr rest
  | .strans d0 d1 =>
    if (parseStransTail (mkStrans d0 d1) rest).2.length ≤ rest.length then
      parseElem k f { b with strans := some (parseStransTail (mkStrans d0 d1) rest).1 } (parseStransTail (mkStrans d0 d1) rest).2
    else .err
  | .bad => .err

theorem parseElem_step (k : EK) (f : Nat) (b : B) (r : Rec) (rest : List Rec) :
    parseElem k (f + 1) b (r :: rest) = stepOf k f b rest (elemAct k b r) := by
  unfold parseElem
  split
  all_goals (try (simp [elemAct, stepOf]; done))
  all_goals (try (unfold elemAct stepOf propOf; rfl))
  all_goals (try (simp [elemAct, stepOf]; split <;> simp_all; done))
  all_goals (try (by_cases h1 : (k == EK.sref || k == EK.aref) = true <;> simp_all [elemAct, stepOf]; done))


def propL (k : EK) (f : Nat) (b : B) (attr : Int) : Out (Rec × LS) → Out (Elem × LS)
  | .ok (⟨44, .str v⟩, s2) => parseElemL k f { b with props := b.props ++ [⟨attr, v⟩] } s2
  | _ => .err

def stransL (k : EK) (f : Nat) (b : B) : Out (Strans × LS) → Out (Elem × LS)
  | .ok (st, s2) => parseElemL k f { b with strans := some st } s2
  | .err => .err

def stepL (k : EK) (f : Nat) (b : B) (s1 : LS) : Act → Out (Elem × LS)
  | .done => (match build k b with | .ok e => .ok (e, s1) | .err => .err)
  | .upd b' => parseElemL k f b' s1
  | .prop attr => propL k f b attr s1.next
  | .strans d0 d1 => stransL k f b (parseStransTailL (s1.rest.length + 2) (mkStrans d0 d1) s1)
  | .bad => .err

def nextL (k : EK) (f : Nat) (b : B) : Out (Rec × LS) → Out (Elem × LS)
  | .err => .err
  | .ok (r, s1) => stepL k f b s1 (elemAct k b r)

theorem parseElemL_step (k : EK) (f : Nat) (b : B) (s : LS) : parseElemL k (f + 1) b s = nextL k f b s.next := by
  rw [parseElemL]
  cases hn : s.next with
  | err => rfl
  | ok p =>
    obtain ⟨r, s1⟩ := p
    simp only [nextL]
    cases ha : elemAct k b r <;> first | rfl | (unfold stepL propL; rfl) | (unfold stepL stransL; rfl)

theorem elemAct_endlib (k : EK) (b : B) (r : Rec) (h : r.rt = rEndLib) : elemAct k b r = .bad := by
  obtain ⟨rt, pl⟩ := r
  simp only [rEndLib] at h; subst h
  unfold elemAct
  split <;> simp_all
  cases k <;> simp_all [xtypeRec] <;> omega

def ElemGoal (k : EK) (f : Nat) (b : B) (s : LS) (r : Out (Elem × LS)) : Prop :=
  match r with
  | .ok (e, s') => parseElem k f b (gview s) = .ok (e, gview s') ∧ s'.rest.length ≤ s.rest.length ∧
      (gview s').length ≤ (gview s).length ∧ complete (gview s') = complete (gview s)
  | .err => complete (gview s) = true → parseElem k f b (gview s) = .err

theorem ElemGoal.lift {k : EK} {f F : Nat} {b b' : B} {s s1 : LS} {r : Out (Elem × LS)}
    (hlist : parseElem k F b (gview s) = parseElem k f b' (gview s1)) (hl : s1.rest.length ≤ s.rest.length)
    (hlen : (gview s1).length ≤ (gview s).length) (hc : complete (gview s1) = complete (gview s))
    (h : ElemGoal k f b' s1 r) : ElemGoal k F b s r := by
  cases r with
  | err => simp only [ElemGoal] at h ⊢; intro hcs; rw [hlist]; exact h (by rw [hc]; exact hcs)
  | ok p =>
    obtain ⟨e, s'⟩ := p
    simp only [ElemGoal] at h ⊢
    obtain ⟨h1, h2, h3, h4⟩ := h
    exact ⟨by rw [hlist, h1], by omega, by omega, by rw [h4, hc]⟩

theorem propL_not44 (k : EK) (f : Nat) (b : B) (attr : Int) (r : Rec) (s2 : LS) (h : ∀ v, r ≠ ⟨44, .str v⟩) :
    propL k f b attr (.ok (r, s2)) = .err := by
  unfold propL; split
  · rename_i v _ hv; injection hv with hv; injection hv with hv _; exact absurd hv (h v)
  · rfl

theorem propOf_not44 (k : EK) (f : Nat) (b : B) (attr : Int) (r : Rec) (rs : List Rec) (h : ∀ v, r ≠ ⟨44, .str v⟩) :
    propOf k f b attr (r :: rs) = .err := by
  unfold propOf; split
  · rename_i v _ hv; injection hv with hv _; exact absurd hv (h v)
  · rfl

theorem elem_sim (k : EK) : ∀ (f : Nat) (b : B) (s : LS), ElemGoal k f b s (parseElemL k f b s) := by
  intro f
  induction f with
  | zero => intro b s; simp only [parseElemL, ElemGoal]; intro _; simp [parseElem]
  | succ f ih =>
    intro b s
    rw [parseElemL_step]
    by_cases he : s.nxt.rt = rEndLib
    · obtain ⟨hn, hv⟩ := next_endlib s he
      rw [hn]
      simp only [nextL, elemAct_endlib k b _ he, stepL, ElemGoal]
      intro _
      rw [hv, parseElem_step, elemAct_endlib k b _ he]; rfl
    · rcases next_other s he with ⟨hn, hv⟩ | ⟨s1, hn, hv, hl⟩
      · rw [hn]; simp only [nextL, ElemGoal]
        intro hc; rw [hv, complete_single] at hc; simp at hc; exact absurd hc he
      · rw [hn]; simp only [nextL]
        have hlist : parseElem k (f + 1) b (gview s) = stepOf k f b (gview s1) (elemAct k b s.nxt) := by
          rw [hv, parseElem_step]
        have hlen := view_len_cons hv
        have hcv := complete_view_cons hv
        cases ha : elemAct k b s.nxt with
        | done =>
          simp only [stepL]; rw [ha] at hlist; simp only [stepOf] at hlist
          cases hb : build k b with
          | err => simp only [ElemGoal]; intro _; rw [hlist, hb]
          | ok e => simp only [ElemGoal]; rw [hb] at hlist; exact ⟨hlist, by omega, by omega, hcv.symm⟩
        | upd b' =>
          simp only [stepL]; rw [ha] at hlist; simp only [stepOf] at hlist
          exact ElemGoal.lift hlist (by omega) (by omega) hcv.symm (ih b' s1)
        | bad =>
          simp only [stepL, ElemGoal]; rw [ha] at hlist; intro _; rw [hlist]; rfl
        | prop attr =>
          simp only [stepL]; rw [ha] at hlist; simp only [stepOf] at hlist
          by_cases he1 : s1.nxt.rt = rEndLib
          · obtain ⟨hn1, hv1⟩ := next_endlib s1 he1
            have hne : ∀ v, s1.nxt ≠ ⟨44, .str v⟩ := by
              intro v hh; rw [hh] at he1; simp [rEndLib] at he1
            rw [hn1, propL_not44 _ _ _ _ _ _ hne]
            simp only [ElemGoal]; intro _
            rw [hlist, hv1, propOf_not44 _ _ _ _ _ _ hne]
          · rcases next_other s1 he1 with ⟨hn1, hv1⟩ | ⟨s2, hn1, hv1, hl1⟩
            · rw [hn1]; simp only [propL, ElemGoal]
              intro hc; rw [hcv, hv1, complete_single] at hc; simp at hc; exact absurd hc he1
            · rw [hn1]
              by_cases h44 : ∃ v, s1.nxt = ⟨44, .str v⟩
              · obtain ⟨v, h44⟩ := h44
                rw [h44]; simp only [propL]
                have hl2 : parseElem k (f + 1) b (gview s) =
                    parseElem k f { b with props := b.props ++ [⟨attr, v⟩] } (gview s2) := by
                  rw [hlist, hv1, h44]; simp [propOf]
                have := view_len_cons hv1
                exact ElemGoal.lift hl2 (by omega) (by omega) (by rw [← complete_view_cons hv1, ← hcv]) (ih _ s2)
              · have hne : ∀ v, s1.nxt ≠ ⟨44, .str v⟩ := fun v hh => h44 ⟨v, hh⟩
                rw [propL_not44 _ _ _ _ _ _ hne]
                simp only [ElemGoal]; intro _
                rw [hlist, hv1, propOf_not44 _ _ _ _ _ _ hne]
        | strans d0 d1 =>
          simp only [stepL]; rw [ha] at hlist; simp only [stepOf] at hlist
          have hs := strans_sim (s1.rest.length + 2) (mkStrans d0 d1) s1 (by omega)
          generalize parseStransTailL (s1.rest.length + 2) (mkStrans d0 d1) s1 = q at hs ⊢
          cases q with
          | err =>
            simp only [StransGoal] at hs
            simp only [stransL, ElemGoal]
            intro hc; rw [hcv, hs] at hc; simp at hc
          | ok p =>
            obtain ⟨st, s2⟩ := p
            simp only [StransGoal] at hs
            obtain ⟨h1, h2, h3, h4⟩ := hs
            simp only [stransL]
            have hl2 : parseElem k (f + 1) b (gview s) = parseElem k f { b with strans := some st } (gview s2) := by
              rw [hlist, h1]; simp [h3]
            exact ElemGoal.lift hl2 (by omega) (by omega) (by rw [h4, ← hcv]) (ih _ s2)

/-! ### the element loop of a structure -/

def ElemsGoal (f : Nat) (acc : List Elem) (s : LS) (r : Out (List Elem × LS)) : Prop :=
  match r with
  | .ok (es, s') => parseElems f acc (gview s) = .ok (es, gview s') ∧ s'.rest.length ≤ s.rest.length ∧
      (gview s').length + 1 ≤ (gview s).length ∧ complete (gview s') = complete (gview s)
  | .err => complete (gview s) = true → parseElems f acc (gview s) = .err

/-- the inner budgets differ (bytes + 2 for the stream reader, records + 1 for the list reader): both suffice -/
theorem parseElem_budget (k : EK) (b : B) (s : LS) :
    parseElem k (s.rest.length + 2) b (gview s) = parseElem k ((gview s).length + 1) b (gview s) := by
  have h := gview_length s
  obtain ⟨n, hn⟩ : ∃ n, s.rest.length + 2 = (gview s).length + 1 + n := ⟨s.rest.length + 2 - ((gview s).length + 1), by omega⟩
  rw [hn, parseElem_fuel_any]

def elemsStepL (fuel : Nat) (acc : List Elem) (r : Rec) (s1 : LS) : Out (List Elem × LS) :=
  if r.rt = rEndStruct ∧ r.pl = .none then .ok (acc, s1)
  else match elemKind r.rt with
    | none => .err
    | some k =>
      match parseElemL k (s1.rest.length + 2) {} s1 with
      | .err => .err
      | .ok (e, s2) => parseElemsL fuel (acc ++ [e]) s2

theorem parseElemsL_step (fuel : Nat) (acc : List Elem) (s : LS) :
    parseElemsL (fuel + 1) acc s = match s.next with | .err => .err | .ok (r, s1) => elemsStepL fuel acc r s1 := by
  rw [parseElemsL]; rfl

theorem elemKind_endlib (r : Rec) (h : r.rt = rEndLib) : elemKind r.rt = none ∧ ¬ (r.rt = rEndStruct ∧ r.pl = .none) := by
  rw [h]; simp [elemKind, rEndLib, rEndStruct]

theorem elems_sim : ∀ (f : Nat) (acc : List Elem) (s : LS), ElemsGoal f acc s (parseElemsL f acc s) := by
  intro f
  induction f with
  | zero => intro acc s; simp only [parseElemsL, ElemsGoal]; intro _; simp [parseElems]
  | succ f ih =>
    intro acc s
    rw [parseElemsL_step]
    by_cases he : s.nxt.rt = rEndLib
    · obtain ⟨hn, hv⟩ := next_endlib s he
      obtain ⟨hk, hne⟩ := elemKind_endlib _ he
      rw [hn]; simp only [elemsStepL, hne, if_false, hk, ElemsGoal]
      intro _; rw [hv]; simp [parseElems, hne, hk]
    · rcases next_other s he with ⟨hn, hv⟩ | ⟨s1, hn, hv, hl⟩
      · rw [hn]; simp only [ElemsGoal]
        intro hc; rw [hv, complete_single] at hc; simp at hc; exact absurd hc he
      · rw [hn]; simp only [elemsStepL]
        have hlen := view_len_cons hv
        have hcv := complete_view_cons hv
        rw [show parseElemsL f = parseElemsL f from rfl]
        by_cases hend : s.nxt.rt = rEndStruct ∧ s.nxt.pl = .none
        · simp only [hend, and_self, if_true, ElemsGoal]
          refine ⟨?_, by omega, by omega, hcv.symm⟩
          rw [hv]; simp [parseElems, hend]
        · simp only [hend, if_false]
          cases hk : elemKind s.nxt.rt with
          | none =>
            simp only [ElemsGoal]; intro _; rw [hv]; simp [parseElems, hend, hk]
          | some k =>
            simp only
            have he1 := elem_sim k (s1.rest.length + 2) {} s1
            generalize parseElemL k (s1.rest.length + 2) {} s1 = q at he1 ⊢
            cases q with
            | err =>
              simp only [ElemGoal] at he1
              simp only [ElemsGoal]
              intro hc
              have := he1 (by rw [← hcv]; exact hc)
              rw [parseElem_budget] at this
              rw [hv]; simp [parseElems, hend, hk, this]
            | ok p =>
              obtain ⟨e, s2⟩ := p
              simp only [ElemGoal] at he1
              obtain ⟨h1, h2, h3, h4⟩ := he1
              rw [parseElem_budget] at h1
              simp only
              have hlist : parseElems (f + 1) acc (gview s) = parseElems f (acc ++ [e]) (gview s2) := by
                rw [hv]; simp [parseElems, hend, hk, h1]; omega
              have h0 := ih (acc ++ [e]) s2
              generalize parseElemsL f (acc ++ [e]) s2 = q2 at h0 ⊢
              cases q2 with
              | err => simp only [ElemsGoal] at h0 ⊢; intro hc; rw [hlist]; exact h0 (by rw [h4, ← hcv]; exact hc)
              | ok p2 =>
                obtain ⟨es, s3⟩ := p2
                simp only [ElemsGoal] at h0 ⊢
                obtain ⟨g1, g2, g3, g4⟩ := h0
                exact ⟨by rw [hlist, g1], by omega, by omega, by rw [g4, h4, ← hcv]⟩

/-! ### the library loop -/

inductive LAct where
  | endlib | name (n : Bytes) | units (a b : Nat) | bgnstr (dates : List Int) | bad

def libAct : Rec → LAct
  | ⟨4, .none⟩ => .endlib
  | ⟨2, .str n⟩ => .name n
  | ⟨3, .reals [a, b]⟩ => .units a b
  | ⟨5, .ints sdates⟩ => .bgnstr sdates
  | _ => .bad

def strOf (v : Int) (d : List Int) (f : Nat) (lb : LB) (sdates : List Int) (rest : List Rec) : Out Library :=
  match rest with
  | ⟨6, .str sname⟩ :: rest1 =>
    (match parseElems (rest1.length + 1) [] rest1 with
     | .err => .err
     | .ok (elems, rest2) =>
       if rest2.length < rest.length then
         parseLibBody v d f { lb with structs := lb.structs ++ [⟨sname, sdates, elems⟩] } rest2
       else .err)
  | _ => .err

def libStepOf (v : Int) (d : List Int) (f : Nat) (lb : LB) (rest : List Rec) : LAct → Out Library
  | .endlib => (match lb.name, lb.units with
      | some n, some u => .ok ⟨n, v, d, u, lb.structs⟩
      | _, _ => .err)
  | .name n => parseLibBody v d f { lb with name := some n } rest
  | .units a b => parseLibBody v d f { lb with units := some (a, b) } rest
  | .bgnstr sdates => strOf v d f lb sdates rest
  | .bad => .err

theorem parseLibBody_step (v : Int) (d : List Int) (f : Nat) (lb : LB) (r : Rec) (rest : List Rec) :
    parseLibBody v d (f + 1) lb (r :: rest) = libStepOf v d f lb rest (libAct r) := by
  unfold parseLibBody
  split
  all_goals (try (unfold libAct libStepOf; rfl))
  all_goals (try (unfold libAct libStepOf strOf; rfl))
  rename_i h1 h2 h3 h4
  unfold libAct
  split <;> first | rfl | (exfalso; simp_all)

def strL (v : Int) (d : List Int) (f : Nat) (lb : LB) (sdates : List Int) : Out (Rec × LS) → Out Library
  | .ok (⟨6, .str sname⟩, s2) =>
    (match parseElemsL (s2.rest.length + 2) [] s2 with
     | .err => .err
     | .ok (elems, s3) => parseLibBodyL v d f { lb with structs := lb.structs ++ [⟨sname, sdates, elems⟩] } s3)
  | _ => .err

def libStepL (v : Int) (d : List Int) (f : Nat) (lb : LB) (s1 : LS) : LAct → Out Library
  | .endlib => (match lb.name, lb.units with
      | some n, some u => .ok ⟨n, v, d, u, lb.structs⟩
      | _, _ => .err)
  | .name n => parseLibBodyL v d f { lb with name := some n } s1
  | .units a b => parseLibBodyL v d f { lb with units := some (a, b) } s1
  | .bgnstr sdates => strL v d f lb sdates s1.next
  | .bad => .err

def libNextL (v : Int) (d : List Int) (f : Nat) (lb : LB) : Out (Rec × LS) → Out Library
  | .err => .err
  | .ok (r, s1) => libStepL v d f lb s1 (libAct r)

theorem parseLibBodyL_step (v : Int) (d : List Int) (f : Nat) (lb : LB) (s : LS) :
    parseLibBodyL v d (f + 1) lb s = libNextL v d f lb s.next := by
  rw [parseLibBodyL]
  cases hn : s.next with
  | err => rfl
  | ok p =>
    obtain ⟨r, s1⟩ := p
    simp only [libNextL]
    split
    all_goals (try (unfold libAct libStepL; rfl))
    all_goals (try (unfold libAct libStepL strL; rfl))
    rename_i h1 h2 h3 h4
    unfold libAct
    split <;> first | rfl | (exfalso; simp_all)

def LibGoal (v : Int) (d : List Int) (f : Nat) (lb : LB) (s : LS) (r : Out Library) : Prop :=
  match r with
  | .ok l => parseLibBody v d f lb (gview s) = .ok l ∧ complete (gview s) = true
  | .err => complete (gview s) = true → parseLibBody v d f lb (gview s) = .err

theorem LibGoal.lift {v : Int} {d : List Int} {f F : Nat} {lb lb' : LB} {s s1 : LS} {r : Out Library}
    (hlist : parseLibBody v d F lb (gview s) = parseLibBody v d f lb' (gview s1))
    (hc : complete (gview s1) = complete (gview s)) (h : LibGoal v d f lb' s1 r) : LibGoal v d F lb s r := by
  cases r with
  | err => simp only [LibGoal] at h ⊢; intro hcs; rw [hlist]; exact h (by rw [hc]; exact hcs)
  | ok l => simp only [LibGoal] at h ⊢; exact ⟨by rw [hlist, h.1], by rw [← hc]; exact h.2⟩

theorem libAct_endlib (r : Rec) (h : libAct r = .endlib) : r.rt = rEndLib := by
  unfold libAct at h; split at h <;> simp_all [rEndLib]

theorem libAct_of_endlib (r : Rec) (h : r.rt = rEndLib) : libAct r = .endlib ∨ libAct r = .bad := by
  obtain ⟨rt, pl⟩ := r
  simp only [rEndLib] at h; subst h
  unfold libAct; split <;> simp_all

theorem strL_not6 (v : Int) (d : List Int) (f : Nat) (lb : LB) (sd : List Int) (r : Rec) (s2 : LS)
    (h : ∀ n, r ≠ ⟨6, .str n⟩) : strL v d f lb sd (.ok (r, s2)) = .err := by
  unfold strL; split
  · rename_i n _ hv; injection hv with hv; injection hv with hv _; exact absurd hv (h n)
  · rfl

theorem strOf_not6 (v : Int) (d : List Int) (f : Nat) (lb : LB) (sd : List Int) (r : Rec) (rs : List Rec)
    (h : ∀ n, r ≠ ⟨6, .str n⟩) : strOf v d f lb sd (r :: rs) = .err := by
  unfold strOf; split
  · rename_i n _ hv; injection hv with hv _; exact absurd hv (h n)
  · rfl

theorem parseElems_budget (acc : List Elem) (s : LS) :
    parseElems (s.rest.length + 2) acc (gview s) = parseElems ((gview s).length + 1) acc (gview s) := by
  have h := gview_length s
  obtain ⟨n, hn⟩ : ∃ n, s.rest.length + 2 = (gview s).length + 1 + n := ⟨s.rest.length + 2 - ((gview s).length + 1), by omega⟩
  rw [hn, parseElems_fuel_any]

theorem parseLibBody_budget (v : Int) (d : List Int) (lb : LB) (s : LS) :
    parseLibBody v d (s.rest.length + 2) lb (gview s) = parseLibBody v d ((gview s).length + 1) lb (gview s) := by
  have h := gview_length s
  obtain ⟨n, hn⟩ : ∃ n, s.rest.length + 2 = (gview s).length + 1 + n := ⟨s.rest.length + 2 - ((gview s).length + 1), by omega⟩
  rw [hn, parseLibBody_fuel_any]

theorem lib_sim (v : Int) (d : List Int) : ∀ (f : Nat) (lb : LB) (s : LS), LibGoal v d f lb s (parseLibBodyL v d f lb s) := by
  intro f
  induction f with
  | zero => intro lb s; simp only [parseLibBodyL, LibGoal]; intro _; simp [parseLibBody]
  | succ f ih =>
    intro lb s
    rw [parseLibBodyL_step]
    by_cases he : s.nxt.rt = rEndLib
    · obtain ⟨hn, hv⟩ := next_endlib s he
      rw [hn]; simp only [libNextL]
      have hcomp : complete (gview s) = true := by rw [hv, complete_single]; simpa using he
      have hlist : parseLibBody v d (f + 1) lb (gview s) = libStepOf v d f lb [] (libAct s.nxt) := by
        rw [hv, parseLibBody_step]
      rcases libAct_of_endlib _ he with ha | ha
      · rw [ha] at hlist ⊢
        simp only [libStepL]; simp only [libStepOf] at hlist
        generalize hq : (match lb.name, lb.units with
          | some n, some u => (Out.ok ⟨n, v, d, u, lb.structs⟩ : Out Library)
          | _, _ => .err) = q at hlist ⊢
        cases q with
        | err => simp only [LibGoal]; intro _; exact hlist
        | ok l => simp only [LibGoal]; exact ⟨hlist, hcomp⟩
      · rw [ha] at hlist ⊢
        simp only [libStepL, LibGoal]; intro _; rw [hlist]; rfl
    · rcases next_other s he with ⟨hn, hv⟩ | ⟨s1, hn, hv, hl⟩
      · rw [hn]; simp only [libNextL, LibGoal]
        intro hc; rw [hv, complete_single] at hc; simp at hc; exact absurd hc he
      · rw [hn]; simp only [libNextL]
        have hlist : parseLibBody v d (f + 1) lb (gview s) = libStepOf v d f lb (gview s1) (libAct s.nxt) := by
          rw [hv, parseLibBody_step]
        have hlen := view_len_cons hv
        have hcv := complete_view_cons hv
        cases ha : libAct s.nxt with
        | endlib => exact absurd (libAct_endlib _ ha) he
        | bad => simp only [libStepL, LibGoal]; rw [ha] at hlist; intro _; rw [hlist]; rfl
        | name n =>
          simp only [libStepL]; rw [ha] at hlist; simp only [libStepOf] at hlist
          exact LibGoal.lift hlist hcv.symm (ih _ s1)
        | units a b =>
          simp only [libStepL]; rw [ha] at hlist; simp only [libStepOf] at hlist
          exact LibGoal.lift hlist hcv.symm (ih _ s1)
        | bgnstr sd =>
          simp only [libStepL]; rw [ha] at hlist; simp only [libStepOf] at hlist
          by_cases he1 : s1.nxt.rt = rEndLib
          · obtain ⟨hn1, hv1⟩ := next_endlib s1 he1
            have hne : ∀ n, s1.nxt ≠ ⟨6, .str n⟩ := by
              intro n hh; rw [hh] at he1; simp [rEndLib] at he1
            rw [hn1, strL_not6 _ _ _ _ _ _ _ hne]
            simp only [LibGoal]; intro _
            rw [hlist, hv1, strOf_not6 _ _ _ _ _ _ _ hne]
          · rcases next_other s1 he1 with ⟨hn1, hv1⟩ | ⟨s2, hn1, hv1, hl1⟩
            · rw [hn1]; simp only [strL, LibGoal]
              intro hc; rw [hcv, hv1, complete_single] at hc; simp at hc; exact absurd hc he1
            · rw [hn1]
              by_cases h6 : ∃ n, s1.nxt = ⟨6, .str n⟩
              · obtain ⟨n, h6⟩ := h6
                rw [h6]; simp only [strL]
                have hlen1 := view_len_cons hv1
                have hcv1 := complete_view_cons hv1
                have hes := elems_sim (s2.rest.length + 2) [] s2
                generalize parseElemsL (s2.rest.length + 2) [] s2 = q at hes ⊢
                cases q with
                | err =>
                  simp only [ElemsGoal] at hes
                  simp only [LibGoal]; intro hc
                  have := hes (by rw [← hcv1, ← hcv]; exact hc)
                  rw [parseElems_budget] at this
                  rw [hlist, hv1, h6]; simp [strOf, this]
                | ok p =>
                  obtain ⟨es, s3⟩ := p
                  simp only [ElemsGoal] at hes
                  obtain ⟨g1, g2, g3, g4⟩ := hes
                  rw [parseElems_budget] at g1
                  simp only
                  have hl2 : parseLibBody v d (f + 1) lb (gview s) =
                      parseLibBody v d f { lb with structs := lb.structs ++ [⟨n, sd, es⟩] } (gview s3) := by
                    rw [hlist, hv1, h6]; simp [strOf, g1]; omega
                  exact LibGoal.lift hl2 (by rw [g4, ← hcv1, ← hcv]) (ih _ s3)
              · have hne : ∀ n, s1.nxt ≠ ⟨6, .str n⟩ := fun n hh => h6 ⟨n, hh⟩
                rw [strL_not6 _ _ _ _ _ _ _ hne]
                simp only [LibGoal]; intro _
                rw [hlist, hv1, strOf_not6 _ _ _ _ _ _ _ hne]

/-! ### `parse_lib` and `from_bytes` -/

def top2L (v : Int) : Out (Rec × LS) → Out Library
  | .ok (⟨1, .ints dates⟩, s2) => parseLibBodyL v dates (s2.rest.length + 2) {} s2
  | _ => .err

def top1L : Out (Rec × LS) → Out Library
  | .ok (⟨0, .ints [v]⟩, s1) => top2L v s1.next
  | _ => .err

theorem parseLibL_eq (s : LS) : parseLibL s = top1L s.next := by
  unfold parseLibL top1L
  split
  · rename_i v s1 h; rw [h]; simp only [top2L]; rfl
  · rename_i h
    split
    · rename_i v s1 h2; exact absurd h2 (h v s1)
    · rfl

theorem top1L_not0 (r : Rec) (s1 : LS) (h : ∀ v, r ≠ ⟨0, .ints [v]⟩) : top1L (.ok (r, s1)) = .err := by
  unfold top1L; split
  · rename_i v _ hv; injection hv with hv; injection hv with hv _; exact absurd hv (h v)
  · rfl

theorem top2L_not1 (v : Int) (r : Rec) (s2 : LS) (h : ∀ d, r ≠ ⟨1, .ints d⟩) : top2L v (.ok (r, s2)) = .err := by
  unfold top2L; split
  · rename_i d _ hv; injection hv with hv; injection hv with hv _; exact absurd hv (h d)
  · rfl

theorem parseLib_not0 (r : Rec) (rs : List Rec) (h : ∀ v, r ≠ ⟨0, .ints [v]⟩) : parseLib (r :: rs) = .err := by
  unfold parseLib; split
  · rename_i v _ _ hv; injection hv with hv _; exact absurd hv (h v)
  · rfl

theorem parseLib_not1 (r0 r : Rec) (rs : List Rec) (h : ∀ d, r ≠ ⟨1, .ints d⟩) : parseLib (r0 :: r :: rs) = .err := by
  unfold parseLib; split
  · rename_i v d _ hv; injection hv with _ hv; injection hv with hv _; exact absurd hv (h d)
  · rfl

theorem parseLib_single (r : Rec) : parseLib [r] = .err := by
  unfold parseLib; split
  · rename_i hv; simp at hv
  · rfl

def TopGoal (s : LS) (r : Out Library) : Prop :=
  match r with
  | .ok l => parseLib (gview s) = .ok l ∧ complete (gview s) = true
  | .err => complete (gview s) = true → parseLib (gview s) = .err

theorem top_sim (s : LS) : TopGoal s (parseLibL s) := by
  rw [parseLibL_eq]
  by_cases he : s.nxt.rt = rEndLib
  · obtain ⟨hn, hv⟩ := next_endlib s he
    have hne : ∀ v, s.nxt ≠ ⟨0, .ints [v]⟩ := by intro v hh; rw [hh] at he; simp [rEndLib] at he
    rw [hn, top1L_not0 _ _ hne]; simp only [TopGoal]; intro _; rw [hv]; exact parseLib_single _
  · rcases next_other s he with ⟨hn, hv⟩ | ⟨s1, hn, hv, hl⟩
    · rw [hn]; simp only [top1L, TopGoal]
      intro hc; rw [hv, complete_single] at hc; simp at hc; exact absurd hc he
    · rw [hn]
      have hcv := complete_view_cons hv
      by_cases h0 : ∃ v, s.nxt = ⟨0, .ints [v]⟩
      · obtain ⟨v, h0⟩ := h0
        rw [h0]; simp only [top1L]
        by_cases he1 : s1.nxt.rt = rEndLib
        · obtain ⟨hn1, hv1⟩ := next_endlib s1 he1
          have hne : ∀ d, s1.nxt ≠ ⟨1, .ints d⟩ := by intro d hh; rw [hh] at he1; simp [rEndLib] at he1
          rw [hn1, top2L_not1 _ _ _ hne]; simp only [TopGoal]; intro _
          rw [hv, hv1]; exact parseLib_not1 _ _ _ hne
        · rcases next_other s1 he1 with ⟨hn1, hv1⟩ | ⟨s2, hn1, hv1, hl1⟩
          · rw [hn1]; simp only [top2L, TopGoal]
            intro hc; rw [hcv, hv1, complete_single] at hc; simp at hc; exact absurd hc he1
          · rw [hn1]
            have hcv1 := complete_view_cons hv1
            by_cases h1 : ∃ dd, s1.nxt = ⟨1, .ints dd⟩
            · obtain ⟨dd, h1⟩ := h1
              rw [h1]; simp only [top2L]
              have hlist : parseLib (gview s) = parseLibBody v dd (s2.rest.length + 2) {} (gview s2) := by
                rw [hv, hv1, h0, h1, parseLibBody_budget]; rfl
              have h := lib_sim v dd (s2.rest.length + 2) {} s2
              generalize parseLibBodyL v dd (s2.rest.length + 2) {} s2 = q at h ⊢
              cases q with
              | err => simp only [LibGoal] at h; simp only [TopGoal]; intro hc; rw [hlist]; exact h (by rw [← hcv1, ← hcv]; exact hc)
              | ok l => simp only [LibGoal] at h; simp only [TopGoal]; exact ⟨by rw [hlist, h.1], by rw [hcv, hcv1]; exact h.2⟩
            · have hne : ∀ d, s1.nxt ≠ ⟨1, .ints d⟩ := fun d hh => h1 ⟨d, hh⟩
              rw [top2L_not1 _ _ _ hne]; simp only [TopGoal]; intro _
              rw [hv, hv1]; exact parseLib_not1 _ _ _ hne
      · have hne : ∀ v, s.nxt ≠ ⟨0, .ints [v]⟩ := fun v hh => h0 ⟨v, hh⟩
        rw [top1L_not0 _ _ hne]; simp only [TopGoal]; intro _
        rw [hv]; exact parseLib_not0 _ _ hne

/-- **The lazy reader and the eager model agree on every byte string.** -/
theorem decLazy_eq_dec (bs : Bytes) : decLazy bs = dec bs := by
  unfold decLazy dec LS.init
  cases hr : readRecord bs with
  | err => simp [tokenize, hr]
  | ok p =>
    obtain ⟨r, rest⟩ := p
    simp only
    have hview : gview ⟨r, rest⟩ = decodable bs := by
      rw [decodable_eq, hr]; simp only [gview]
    have h := top_sim ⟨r, rest⟩
    generalize parseLibL ⟨r, rest⟩ = q at h ⊢
    cases q with
    | ok l =>
      simp only [TopGoal] at h
      rw [hview] at h
      rw [decodable_tokenize _ bs (Nat.le_refl _) h.2]
      exact h.1.symm
    | err =>
      simp only [TopGoal] at h
      rw [hview] at h
      cases ht : tokenize (bs.length / 4 + 1) bs with
      | err => rfl
      | ok rs =>
        obtain ⟨h1, h2⟩ := tokenize_decodable _ bs rs ht
        simp only
        rw [← h1]; exact (h (by rw [h1]; exact h2)).symm

end L21.Gds
