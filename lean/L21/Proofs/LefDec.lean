import L21.Model.LefWrite
/-
`Decimal` text round trip: what `Display` prints, `from_str` reads back as the same (mantissa, scale),
for every decimal rust_decimal can hold (|mantissa| < 2^96, scale ≤ 28).
-/
namespace L21.Lef
open L21.LefLex L21.LefEnum

def lsdVal (cs : List Char) : Nat := cs.foldr (fun c acc => acc * 10 + dig c) 0

theorem digitChar_facts : ∀ k : Fin 10, isDigit (digitChar k) = true ∧ dig (digitChar k) = k ∧ digitChar k ≠ '-' ∧ digitChar k ≠ '+' ∧ digitChar k ≠ '.' := by
  decide

theorem digitChar_mod (n : Nat) : digitChar n = digitChar (n % 10) := by simp [digitChar]

theorem digitChar_isDigit (n : Nat) : isDigit (digitChar n) = true := by
  rw [digitChar_mod]; exact (digitChar_facts ⟨n % 10, Nat.mod_lt _ (by decide)⟩).1
theorem digitChar_dig (n : Nat) : dig (digitChar n) = n % 10 := by
  rw [digitChar_mod]; exact (digitChar_facts ⟨n % 10, Nat.mod_lt _ (by decide)⟩).2.1
theorem digit_not_sign (c : Char) (h : isDigit c = true) : c ≠ '-' ∧ c ≠ '+' ∧ c ≠ '.' := by
  refine ⟨?_, ?_, ?_⟩ <;> (intro e; subst e; revert h; decide)

theorem digitsRev_props : ∀ (f n : Nat), n < f → (∀ c ∈ digitsRev f n, isDigit c = true) ∧ lsdVal (digitsRev f n) = n ∧ digitsRev f n ≠ [] := by
  intro f
  induction f with
  | zero => intro n h; omega
  | succ f ih =>
    intro n h
    unfold digitsRev
    split
    · rename_i hn
      refine ⟨?_, ?_, by simp⟩
      · intro c hc; simp at hc; subst hc; exact digitChar_isDigit n
      · simp [lsdVal, digitChar_dig]; omega
    · rename_i hn
      obtain ⟨a, b, _⟩ := ih (n / 10) (by omega)
      refine ⟨?_, ?_, by simp⟩
      · intro c hc
        simp at hc
        rcases hc with rfl | hc
        · exact digitChar_isDigit _
        · exact a c hc
      · simp only [lsdVal, List.foldr_cons] at b ⊢
        rw [b, digitChar_dig]; omega

theorem natText_props (n : Nat) : (∀ c ∈ natText n, isDigit c = true) ∧ dval (natText n) = n ∧ natText n ≠ [] := by
  obtain ⟨a, b, c⟩ := digitsRev_props (n + 1) n (by omega)
  refine ⟨?_, ?_, ?_⟩
  · intro ch h; exact a ch (by simpa [natText] using h)
  · simp only [natText, dval, List.foldl_reverse]; exact b
  · simpa [natText] using c

theorem dval_zeros (k : Nat) (l : List Char) : dval (List.replicate k '0' ++ l) = dval l := by
  simp only [dval, List.foldl_append]
  congr 1
  induction k with
  | zero => rfl
  | succ k ih => simp only [List.replicate_succ, List.foldl_cons]; simpa [dig] using ih

theorem spanP_all (p : Char → Bool) : ∀ (l r : List Char), (∀ c ∈ l, p c = true) → (r = [] ∨ ∃ c r', r = c :: r' ∧ p c = false) →
    spanP p (l ++ r) = (l, r) := by
  intro l
  induction l with
  | nil =>
    intro r _ hr
    rcases hr with rfl | ⟨c, r', rfl, hc⟩
    · rfl
    · simp [spanP, hc]
  | cons a t ih =>
    intro r hl hr
    have := ih r (fun c hc => hl c (by simp [hc])) hr
    simp [spanP, hl a (by simp), this]

/-- a decimal rust_decimal can represent -/
def decWf (d : Dec) : Prop := d.mant.natAbs < 2 ^ 96 ∧ d.scale ≤ 28

/-- the digit string `Display` builds: integer part and `scale` fractional digits -/
theorem decText_parts (d : Dec) : ∃ ip fp : List Char,
    decText d = (if d.mant < 0 then ['-'] else []) ++ ip ++ (if d.scale = 0 then [] else '.' :: fp) ∧
    ip ≠ [] ∧ fp.length = d.scale ∧ (∀ c ∈ ip, isDigit c = true) ∧ (∀ c ∈ fp, isDigit c = true) ∧ dval (ip ++ fp) = d.mant.natAbs := by
  obtain ⟨ha, hb, hc⟩ := natText_props d.mant.natAbs
  let ds := List.replicate (d.scale + 1 - (natText d.mant.natAbs).length) '0' ++ natText d.mant.natAbs
  have hlen : d.scale + 1 ≤ ds.length := by simp only [ds, List.length_append, List.length_replicate]; omega
  have hdig : ∀ c ∈ ds, isDigit c = true := by
    intro c hc
    simp only [ds, List.mem_append, List.mem_replicate] at hc
    rcases hc with ⟨_, rfl⟩ | hc
    · decide
    · exact ha c hc
  refine ⟨ds.take (ds.length - d.scale), ds.drop (ds.length - d.scale), rfl, ?_, ?_, ?_, ?_, ?_⟩
  · intro h
    have := congrArg List.length h
    simp only [List.length_take, List.length_nil] at this
    omega
  · simp only [List.length_drop]; omega
  · intro c hc; exact hdig c (List.mem_of_mem_take hc)
  · intro c hc; exact hdig c (List.mem_of_mem_drop hc)
  · rw [List.take_append_drop]; simp only [ds]; rw [dval_zeros]; exact hb

theorem signSplit_digit (c : Char) (r : List Char) (h : isDigit c = true) : signSplit (c :: r) = (false, c :: r) := by
  have hc := digit_not_sign c h
  unfold signSplit
  split
  · rename_i heq; simp at heq; exact absurd heq.1 hc.1
  · rename_i heq; simp at heq; exact absurd heq.1 hc.2.1
  · rfl

theorem parseUnsigned_parts (neg : Bool) (ip fp : List Char) (tail : List Char) (hip : ip ≠ [])
    (hdi : ∀ c ∈ ip, isDigit c = true) (hdf : ∀ c ∈ fp, isDigit c = true) (hfl : fp.length ≤ 28)
    (hm : dval (ip ++ fp) < 2 ^ 96) (ht : (tail = [] ∧ fp = []) ∨ tail = '.' :: fp) :
    parseUnsigned neg (ip ++ tail) = some ⟨if neg then -(dval (ip ++ fp) : Int) else dval (ip ++ fp), fp.length⟩ := by
  have hspan1 : spanP isDigit (ip ++ tail) = (ip, tail) := by
    apply spanP_all _ _ _ hdi
    rcases ht with ⟨rfl, _⟩ | rfl
    · left; rfl
    · right; exact ⟨'.', fp, rfl, by decide⟩
  have hspan2 : spanP isDigit fp = (fp, []) := by
    have := spanP_all isDigit fp [] hdf (Or.inl rfl)
    simpa using this
  have hne : ip.isEmpty = false := by cases ip with | nil => exact absurd rfl hip | cons a b => rfl
  have h1 : ¬ (fp.length > 28) := by omega
  have h2 : ¬ (dval (ip ++ fp) ≥ 2 ^ 96) := by omega
  unfold parseUnsigned parseCore
  rcases ht with ⟨rfl, rfl⟩ | rfl
  · simp only [hspan1, fracSpan, List.isEmpty_nil, Bool.not_true, Bool.false_eq_true, if_false, hne, Bool.false_and, h1, h2]
  · simp only [hspan1, fracSpan, hspan2, List.isEmpty_nil, Bool.not_true, Bool.false_eq_true, if_false, hne, Bool.false_and, h1, h2]

theorem parseDecText_decText (d : Dec) (h : decWf d) : parseDecText (decText d) = some d := by
  obtain ⟨hm, hs⟩ := h
  obtain ⟨ip, fp, htext, hip, hfl, hdi, hdf, hval⟩ := decText_parts d
  rw [htext]
  obtain ⟨c0, ip', rfl⟩ : ∃ c0 ip', ip = c0 :: ip' := by cases ip with | nil => exact absurd rfl hip | cons a b => exact ⟨a, b, rfl⟩
  have hc0 := hdi c0 (by simp)
  have ht : ((if d.scale = 0 then [] else '.' :: fp) = [] ∧ fp = []) ∨ (if d.scale = 0 then [] else '.' :: fp) = '.' :: fp := by
    by_cases h0 : d.scale = 0
    · left; rw [h0] at hfl; exact ⟨by simp [h0], List.eq_nil_of_length_eq_zero hfl⟩
    · right; simp [h0]
  have hp := fun neg => parseUnsigned_parts neg (c0 :: ip') fp _ hip hdi hdf (by omega) (by rw [hval]; exact hm) ht
  unfold parseDecText
  by_cases hneg : d.mant < 0
  · have e : signSplit (([if d.mant < 0 then ['-'] else []].flatten ++ (c0 :: ip')) ++ (if d.scale = 0 then [] else '.' :: fp))
        = (true, (c0 :: ip') ++ (if d.scale = 0 then [] else '.' :: fp)) := by simp [hneg, signSplit]
    simp only [List.flatten_cons, List.flatten_nil, List.append_nil] at e
    rw [e, hp true, hval, hfl]
    cases d; simp at hneg ⊢; omega
  · have e : signSplit (((if d.mant < 0 then ['-'] else []) ++ (c0 :: ip')) ++ (if d.scale = 0 then [] else '.' :: fp))
        = (false, (c0 :: ip') ++ (if d.scale = 0 then [] else '.' :: fp)) := by
      simp only [hneg, if_false, List.nil_append, List.cons_append]
      exact signSplit_digit c0 _ hc0
    rw [e, hp false, hval, hfl]
    cases d; simp at hneg ⊢; omega

end L21.Lef
