import L21.Proofs.LefRTLib
import L21.Proofs.LefDec
/-
The image of the reader model: every value a parse routine returns meets the well-formedness
predicate under which the writer's output is read back (`LefRT`): decimals are representable,
enumerated values are table variants, polygons have ≥ 3 points, …  Together with `lib_roundtrip`
this gives C05 for every library the reader can produce.
-/
namespace L21.Lef
open L21.LefLex L21.LefEnum L21.Gen

/-! ### primitives -/
theorem c05_decOk_of_wf_aux (d : Dec) (h : decWf d) : decOk d = true := by
  simp [decOk, parseDecText_decText d h]

theorem parseCore_wf (neg : Bool) (ip fp rest : Str) (d : Dec) (h : parseCore neg ip fp rest = some d) : decWf d := by
  unfold parseCore at h
  split at h
  · cases h
  · split at h
    · cases h
    · split at h
      · cases h
      · split at h
        · cases h
        · rename_i h1 h2
          cases h
          refine ⟨?_, by simpa using h1⟩
          cases neg <;> simp <;> omega

theorem parseUnsigned_wf (neg : Bool) (body : Str) (d : Dec) (h : parseUnsigned neg body = some d) : decWf d :=
  parseCore_wf _ _ _ _ _ h

theorem number_img (ts : List Tok) (d : Dec) (r : List Tok) (h : number ts = some (d, r)) : decOk d = true := by
  unfold number at h
  split at h
  · simp only [Option.map_eq_some_iff] at h
    obtain ⟨d', hd, he⟩ := h
    cases he
    exact c05_decOk_of_wf_aux d (parseUnsigned_wf _ _ _ hd)
  · cases h

theorem point_img (ts : List Tok) (p : Pt) (r : List Tok) (h : point ts = some (p, r)) : ptOk p = true := by
  unfold point at h
  split at h
  · rename_i x r1 h1
    split at h
    · rename_i y r2 h2
      cases h
      simp [ptOk, number_img _ _ _ h1, number_img _ _ _ h2]
    · cases h
  · cases h

theorem pointList_img : ∀ (f : Nat) (ts : List Tok) (ps : List Pt) (r : List Tok), pointList f ts = some (ps, r) → ps.all ptOk = true := by
  intro f
  induction f with
  | zero => intro ts ps r h; simp [pointList] at h
  | succ f ih =>
    intro ts ps r h
    rw [pointList] at h
    split at h
    · split at h
      · rename_i p r1 hp
        simp only [Option.map_eq_some_iff, Prod.exists] at h
        obtain ⟨ps', r', hr, he⟩ := h
        cases he
        simp [point_img _ _ _ hp, ih _ _ _ hr]
      · cases h
    · cases h; rfl

theorem fromStr_variant (tbl : Table) (txt v : String) (h : fromStr tbl txt = some v) : (toStr tbl v).isSome = true := by
  unfold fromStr at h
  simp only [Option.map_eq_some_iff] at h
  obtain ⟨p, hp, rfl⟩ := h
  have hm := List.mem_of_find?_eq_some hp
  unfold toStr
  simp only [Option.isSome_map]
  rw [List.find?_isSome]
  exact ⟨p, hm, by simp⟩

theorem parseEnum_img (tb : String) (ts : List Tok) (e : String) (r : List Tok) (h : parseEnum tb ts = some (e, r)) : isVariant tb e = true := by
  unfold parseEnum at h
  split at h
  · simp only [Option.map_eq_some_iff] at h
    obtain ⟨v, hv, he⟩ := h
    cases he
    exact fromStr_variant _ _ _ hv
  · cases h

theorem geomMask_img (ts : List Tok) (m : Option Dec) (r : List Tok) (h : geomMask ts = some (m, r)) : maskOk m = true := by
  unfold geomMask at h
  split at h
  · split at h
    · cases h
    · split at h
      · simp only [Option.map_eq_some_iff, Prod.exists] at h
        obtain ⟨d, r', hn, he⟩ := h
        cases he
        exact number_img _ _ _ hn
      · cases h; rfl
  · cases h; rfl

theorem stepPattern_img (ts : List Tok) (p : Step) (r : List Tok) (h : stepPattern ts = some (p, r)) : stepOk p = true := by
  unfold stepPattern at h
  simp only [Option.bind_eq_bind, Option.bind_eq_some_iff, Prod.exists, Option.pure_def, Option.some.injEq, Prod.mk.injEq] at h
  obtain ⟨_, r1, _, nx, r2, h1, _, r3, _, ny, r4, h2, _, r5, _, sx, r6, h3, sy, r7, h4, he, _⟩ := h
  subst he
  simp [stepOk, number_img _ _ _ h1, number_img _ _ _ h2, number_img _ _ _ h3, number_img _ _ _ h4]

theorem geomTail_img (it : Bool) (s : Shape) (ts : List Tok) (g : Geometry) (r : List Tok) (hs : shapeOk s = true)
    (h : geomTail it s ts = some (g, r)) : geomOk g = true := by
  unfold geomTail at h
  split at h
  · simp only [Option.bind_eq_bind, Option.bind_eq_some_iff, Prod.exists, Option.pure_def, Option.some.injEq, Prod.mk.injEq] at h
    obtain ⟨p, r1, hp, _, r2, _, he, _⟩ := h
    subst he
    simp [geomOk, hs, stepPattern_img _ _ _ hp]
  · simp only [Option.bind_eq_bind, Option.bind_eq_some_iff, Prod.exists, Option.pure_def, Option.some.injEq, Prod.mk.injEq] at h
    obtain ⟨_, r2, _, he, _⟩ := h
    subst he
    simp [geomOk, hs]

theorem geometry_img (ts : List Tok) (g : Geometry) (r : List Tok) (h : geometry ts = some (g, r)) : geomOk g = true := by
  unfold geometry at h
  simp only [Option.bind_eq_bind, Option.bind_eq_some_iff, Prod.exists] at h
  obtain ⟨k, r0, _, h⟩ := h
  split at h
  · simp only [Option.bind_eq_some_iff, Prod.exists] at h
    obtain ⟨m, r1, hm, it, r2, _, a, r3, ha, b, r4, hb, ht⟩ := h
    exact geomTail_img _ _ _ _ _ (by simp [shapeOk, geomMask_img _ _ _ hm, point_img _ _ _ ha, point_img _ _ _ hb]) ht
  · split at h
    · simp only [Option.bind_eq_some_iff, Prod.exists] at h
      obtain ⟨m, r1, hm, it, r2, _, ps, r3, hps, ht⟩ := h
      split at ht
      · cases ht
      · rename_i hl
        exact geomTail_img _ _ _ _ _ (by simp [shapeOk, geomMask_img _ _ _ hm, pointList_img _ _ _ _ hps]; omega) ht
    · split at h
      · simp only [Option.bind_eq_some_iff, Prod.exists] at h
        obtain ⟨m, r1, hm, it, r2, _, ps, r3, hps, ht⟩ := h
        split at ht
        · cases ht
        · rename_i hl
          exact geomTail_img _ _ _ _ _ (by simp [shapeOk, geomMask_img _ _ _ hm, pointList_img _ _ _ _ hps]; omega) ht
      · cases h

/-! ### layer geometries, ports -/
theorem layerHeader_img : ∀ (f : Nat) (lg : LayerGeoms) (ts : List Tok) (lg' : LayerGeoms) (r : List Tok),
    layerHeader f lg ts = some (lg', r) → lgOk lg = true → lgOk lg' = true := by
  intro f
  induction f with
  | zero => intro lg ts lg' r h; simp [layerHeader] at h
  | succ f ih =>
    intro lg ts lg' r h hok
    rw [layerHeader] at h
    split at h
    · cases h; exact hok
    · split at h
      · cases h
      · rename_i k r0 _
        simp only [lgOk, Bool.and_eq_true] at hok
        split at h
        · exact ih _ _ _ _ h (by simp [lgOk, hok.1.1.1.1, hok.1.1.1.2, hok.1.2, hok.2])
        · split at h
          · simp only [Option.bind_eq_some_iff, Prod.exists] at h
            obtain ⟨d, r', hn, h⟩ := h
            exact ih _ _ _ _ h (by simp [lgOk, hok.1.1.1.1, hok.1.1.1.2, hok.1.1.2, hok.2, spacingOk, number_img _ _ _ hn])
          · split at h
            · simp only [Option.bind_eq_some_iff, Prod.exists] at h
              obtain ⟨d, r', hn, h⟩ := h
              exact ih _ _ _ _ h (by simp [lgOk, hok.1.1.1.1, hok.1.1.1.2, hok.1.1.2, hok.2, spacingOk, number_img _ _ _ hn])
            · cases h

theorem layerBody_img : ∀ (f : Nat) (lg : LayerGeoms) (ts : List Tok) (lg' : LayerGeoms) (r : List Tok),
    layerBody f lg ts = some (lg', r) → lgOk lg = true → lgOk lg' = true := by
  intro f
  induction f with
  | zero => intro lg ts lg' r h; simp [layerBody] at h
  | succ f ih =>
    intro lg ts lg' r h hok
    rw [layerBody] at h
    split at h
    · cases h; exact hok
    · split at h
      · cases h
      · simp only [lgOk, Bool.and_eq_true] at hok
        split at h
        · cases h; simp [lgOk, hok]
        · split at h
          · simp only [Option.bind_eq_some_iff, Prod.exists] at h
            obtain ⟨g, r', hg, h⟩ := h
            exact ih _ _ _ _ h (by simp [lgOk, hok.1.1.1.1, hok.1.1.1.2, hok.1.1.2, hok.1.2, hok.2, geometry_img _ _ _ hg])
          · split at h
            · simp only at h
              split at h
              · cases h
              · simp only [Option.bind_eq_some_iff, Prod.exists] at h
                obtain ⟨p, r1, hp, n, r2, _, _, r3, _, h⟩ := h
                exact ih _ _ _ _ h (by simp [lgOk, hok.1.1.1.1, hok.1.1.1.2, hok.1.1.2, hok.1.2, hok.2, viaInstOk, point_img _ _ _ hp])
            · split at h
              · simp only [Option.bind_eq_some_iff, Prod.exists] at h
                obtain ⟨d, r1, hd, _, r2, _, h⟩ := h
                exact ih _ _ _ _ h (by simp [lgOk, hok.1.1.1.1, hok.1.1.1.2, hok.1.1.2, hok.1.2, number_img _ _ _ hd])
              · cases h

theorem layerGeoms_img (ts : List Tok) (lg : LayerGeoms) (r : List Tok) (h : layerGeoms ts = some (lg, r)) : lgOk lg = true := by
  unfold layerGeoms at h
  simp only [Option.bind_eq_bind, Option.bind_eq_some_iff, Prod.exists] at h
  obtain ⟨_, r1, _, n, r2, _, lg1, r3, h1, h2⟩ := h
  exact layerBody_img _ _ _ _ _ h2 (layerHeader_img _ _ _ _ _ h1 (by simp [lgOk, spacingOk]))

theorem portBody_img : ∀ (f : Nat) (p : Port) (ts : List Tok) (p' : Port) (r : List Tok),
    portBody f p ts = some (p', r) → portOk p = true → portOk p' = true := by
  intro f
  induction f with
  | zero => intro p ts p' r h; simp [portBody] at h
  | succ f ih =>
    intro p ts p' r h hok
    rw [portBody] at h
    split at h
    · cases h
    · simp only [portOk, Bool.and_eq_true] at hok
      split at h
      · simp only [Option.bind_eq_some_iff, Prod.exists] at h
        obtain ⟨c, r1, hc, _, r2, _, h⟩ := h
        exact ih _ _ _ _ h (by simp [portOk, hok.1, parseEnum_img _ _ _ _ hc])
      · split at h
        · simp only [Option.bind_eq_some_iff, Prod.exists] at h
          obtain ⟨lg, r1, hl, h⟩ := h
          split at h
          · exact ih _ _ _ _ h (by simp [portOk, hok.1, hok.2, layerGeoms_img _ _ _ hl])
          · cases h
        · split at h
          · cases h; simp [portOk, hok]
          · cases h

theorem port_img (ts : List Tok) (p : Port) (r : List Tok) (h : port ts = some (p, r)) : portOk p = true := by
  unfold port at h
  simp only [Option.bind_eq_bind, Option.bind_eq_some_iff, Prod.exists] at h
  obtain ⟨_, r1, _, h⟩ := h
  exact portBody_img _ _ _ _ _ h (by simp [portOk])

@[simp] theorem optOk_some {α : Type} (a : α) (f : α → Bool) : optOk (some a) f = f a := rfl
@[simp] theorem optOk_none {α : Type} (f : α → Bool) : optOk (none : Option α) f = true := rfl

/-! ### pins -/
theorem pinDirection_img (ts : List Tok) (d : String × Bool) (r : List Tok) (h : pinDirection ts = some (d, r)) : dirOk d = true := by
  unfold pinDirection at h
  simp only [Option.bind_eq_bind, Option.bind_eq_some_iff, Prod.exists] at h
  obtain ⟨_, r1, _, k, r2, _, h⟩ := h
  split at h
  · simp only [Option.map_eq_some_iff, Prod.exists] at h; obtain ⟨_, _, _, he⟩ := h; cases he; rfl
  · split at h
    · simp only [Option.map_eq_some_iff, Prod.exists] at h; obtain ⟨_, _, _, he⟩ := h; cases he; rfl
    · split at h
      · simp only [Option.map_eq_some_iff, Prod.exists] at h; obtain ⟨_, _, _, he⟩ := h; cases he; rfl
      · split at h
        · split at h
          · cases h; rfl
          · simp only [Option.bind_eq_some_iff, Prod.exists, Option.pure_def, Option.some.injEq, Prod.mk.injEq] at h
            obtain ⟨_, _, _, _, _, _, he, _⟩ := h; subst he; rfl
        · cases h

theorem upperC_idem (c : Char) : upperC (upperC c) = upperC c := by
  by_cases hc : 'a' ≤ c ∧ c ≤ 'z'
  · have h1 : 97 ≤ c.toNat := hc.1
    have h2 : c.toNat ≤ 122 := hc.2
    have : ∀ n, n < 26 → upperC (upperC (Char.ofNat (97 + n))) = upperC (Char.ofNat (97 + n)) := by decide
    have e : Char.ofNat c.toNat = c := Char.ofNat_toNat c
    rw [← e, show c.toNat = 97 + (c.toNat - 97) by omega]; exact this _ (by omega)
  · have : upperC c = c := by simp [upperC, hc]
    rw [this, this]

theorem upper_idem (s : Str) : upper (upper s) = upper s := by
  simp [upper, upperC_idem]

theorem antenna_ok (key : Str) (k : String) (v : Dec) (l : Option Str) (hk : LefEnum.parse keyTable key = some k)
    (hc : antennaKeys.contains k = true) (hv : decOk v = true) : antennaOk ⟨upperStr key, v, l⟩ = true := by
  have : LefEnum.parse keyTable (upper key) = some k := by
    simp only [LefEnum.parse, upper_idem] at hk ⊢; exact hk
  simp only [antennaOk, upperStr, this, hc, hv, upper_idem, beq_self_eq_true, Bool.and_self]

theorem peekKey_getName (ts : List Tok) (k : String) (key : Str) (r : List Tok) (h1 : peekKey ts = some k) (h2 : getName ts = some (key, r)) :
    LefEnum.parse keyTable key = some k := by
  cases ts with
  | nil => simp [peekKey] at h1
  | cons t r' =>
    obtain ⟨tt, txt⟩ := t
    cases tt <;> simp [peekKey, getName, expectTT] at h1 h2
    obtain ⟨rfl, _⟩ := h2
    exact h1

theorem pinBody_img : ∀ (f : Nat) (p : Pin) (ts : List Tok) (p' : Pin) (r : List Tok),
    pinBody f p ts = some (p', r) → pinOk p = true → pinOk p' = true := by
  intro f
  induction f with
  | zero => intro p ts p' r h; simp [pinBody] at h
  | succ f ih =>
    intro p ts p' r h hok
    rw [pinBody] at h
    split at h
    · cases h
    · rename_i k hk
      have hok' := hok
      simp only [pinOk, Bool.and_eq_true] at hok
      obtain ⟨⟨⟨⟨⟨o1, o2⟩, o3⟩, o4⟩, o5⟩, o6⟩ := hok
      dsimp only at h
      by_cases c1 : (k == "End") = true
      · rw [if_pos c1] at h; cases h; exact hok'
      rw [if_neg c1] at h
      by_cases c2 : (k == "Port") = true
      · rw [if_pos c2] at h
        simp only [Option.bind_eq_some_iff, Prod.exists] at h
        obtain ⟨pt, r1, hp, h⟩ := h
        split at h
        · exact ih _ _ _ _ h (by simp [pinOk, o1, o2, o3, o4, o5, o6, port_img _ _ _ hp])
        · cases h
      rw [if_neg c2] at h
      by_cases c3 : (k == "Direction") = true
      · rw [if_pos c3] at h
        simp only [Option.bind_eq_some_iff, Prod.exists] at h
        obtain ⟨d, b, r1, hd, h⟩ := h
        split at h
        · exact ih _ _ _ _ h (by simp [pinOk, o2, o3, o4, o5, o6, pinDirection_img _ _ _ hd])
        · cases h
      rw [if_neg c3] at h
      by_cases c4 : (k == "Use") = true
      · rw [if_pos c4] at h
        simp only [Option.bind_eq_some_iff, Prod.exists] at h
        obtain ⟨e, r1, he, _, r2, _, h⟩ := h
        exact ih _ _ _ _ h (by simp [pinOk, o1, o3, o4, o5, o6, parseEnum_img _ _ _ _ he])
      rw [if_neg c4] at h
      by_cases c5 : (k == "Shape") = true
      · rw [if_pos c5] at h
        simp only [Option.bind_eq_some_iff, Prod.exists] at h
        obtain ⟨e, r1, he, _, r2, _, h⟩ := h
        exact ih _ _ _ _ h (by simp [pinOk, o1, o2, o4, o5, o6, parseEnum_img _ _ _ _ he])
      rw [if_neg c5] at h
      by_cases c6 : (k == "AntennaModel") = true
      · rw [if_pos c6] at h
        simp only [Option.bind_eq_some_iff, Prod.exists] at h
        obtain ⟨e, r1, he, _, r2, _, h⟩ := h
        exact ih _ _ _ _ h (by simp [pinOk, o1, o2, o3, o5, o6, parseEnum_img _ _ _ _ he])
      rw [if_neg c6] at h
      by_cases c7 : antennaKeys.contains k = true
      · rw [if_pos c7] at h
        simp only [Option.bind_eq_some_iff, Prod.exists] at h
        obtain ⟨key, r1, hkey, v, r2, hv, h⟩ := h
        have hpk := peekKey_getName _ _ _ _ hk hkey
        split at h
        · exact ih _ _ _ _ h (by simp [pinOk, o1, o2, o3, o4, o5, o6, antenna_ok key k v none hpk c7 (number_img _ _ _ hv)])
        · simp only [Option.bind_eq_some_iff, Prod.exists] at h
          obtain ⟨_, r3, _, l, r4, _, _, r5, _, h⟩ := h
          exact ih _ _ _ _ h (by simp [pinOk, o1, o2, o3, o4, o5, o6, antenna_ok key k v (some l) hpk c7 (number_img _ _ _ hv)])
      rw [if_neg c7] at h
      by_cases c8 : (k == "TaperRule") = true
      · rw [if_pos c8] at h
        simp only [Option.bind_eq_some_iff, Prod.exists] at h
        obtain ⟨v, r1, _, _, r2, _, h⟩ := h
        exact ih _ _ _ _ h (by simp [pinOk, o1, o2, o3, o4, o5, o6])
      rw [if_neg c8] at h
      by_cases c9 : (k == "MustJoin") = true
      · rw [if_pos c9] at h
        simp only [Option.bind_eq_some_iff, Prod.exists] at h
        obtain ⟨v, r1, _, _, r2, _, h⟩ := h
        exact ih _ _ _ _ h (by simp [pinOk, o1, o2, o3, o4, o5, o6])
      rw [if_neg c9] at h
      by_cases c10 : (k == "SupplySensitivity") = true
      · rw [if_pos c10] at h
        simp only [Option.bind_eq_some_iff, Prod.exists] at h
        obtain ⟨v, r1, _, _, r2, _, h⟩ := h
        exact ih _ _ _ _ h (by simp [pinOk, o1, o2, o3, o4, o5, o6])
      rw [if_neg c10] at h
      by_cases c11 : (k == "GroundSensitivity") = true
      · rw [if_pos c11] at h
        simp only [Option.bind_eq_some_iff, Prod.exists] at h
        obtain ⟨v, r1, _, _, r2, _, h⟩ := h
        exact ih _ _ _ _ h (by simp [pinOk, o1, o2, o3, o4, o5, o6])
      rw [if_neg c11] at h
      by_cases c12 : (k == "NetExpr") = true
      · rw [if_pos c12] at h
        simp only [Option.bind_eq_some_iff, Prod.exists] at h
        obtain ⟨v, r1, _, _, r2, _, h⟩ := h
        exact ih _ _ _ _ h (by simp [pinOk, o1, o2, o3, o4, o5, o6])
      rw [if_neg c12] at h
      by_cases c13 : (k == "Property") = true
      · rw [if_pos c13] at h
        simp only [Option.bind_eq_some_iff, Prod.exists] at h
        obtain ⟨ps, r1, _, h⟩ := h
        split at h
        · exact ih _ _ _ _ h (by simp [pinOk, o1, o2, o3, o4, o5, o6])
        · cases h
      rw [if_neg c13] at h
      cases h

theorem pin_img (ts : List Tok) (p : Pin) (r : List Tok) (h : pin ts = some (p, r)) : pinOk p = true := by
  unfold pin at h
  simp only [Option.bind_eq_bind, Option.bind_eq_some_iff, Prod.exists, Option.pure_def, Option.some.injEq, Prod.mk.injEq] at h
  obtain ⟨_, r1, _, n, r2, _, p1, r3, hb, _, r4, _, he, _⟩ := h
  subst he
  exact pinBody_img _ _ _ _ _ hb (by simp [pinOk])

/-! ### macros -/
theorem obsBody_img : ∀ (f : Nat) (acc : List LayerGeoms) (ts : List Tok) (res : List LayerGeoms) (r : List Tok),
    obsBody f acc ts = some (res, r) → acc.all lgOk = true → res.all lgOk = true := by
  intro f
  induction f with
  | zero => intro acc ts res r h; simp [obsBody] at h
  | succ f ih =>
    intro acc ts res r h hok
    rw [obsBody] at h
    split at h
    · cases h; exact hok
    · split at h
      · cases h
      · split at h
        · simp only [Option.bind_eq_some_iff, Prod.exists] at h
          obtain ⟨lg, r1, hl, h⟩ := h
          split at h
          · exact ih _ _ _ _ h (by simp [hok, layerGeoms_img _ _ _ hl])
          · cases h
        · split at h
          · cases h; exact hok
          · cases h

theorem densityRects_img : ∀ (f : Nat) (acc : List DensityRect) (ts : List Tok) (res : List DensityRect) (r : List Tok),
    densityRects f acc ts = some (res, r) → acc.all drOk = true → res.all drOk = true := by
  intro f
  induction f with
  | zero => intro acc ts res r h; simp [densityRects] at h
  | succ f ih =>
    intro acc ts res r h hok
    rw [densityRects] at h
    split at h
    · cases h
    · split at h
      · cases h; exact hok
      · split at h
        · simp only [Option.bind_eq_some_iff, Prod.exists] at h
          obtain ⟨a, r1, ha, b, r2, hb, v, r3, hv, _, r4, _, h⟩ := h
          exact ih _ _ _ _ h (by simp [hok, drOk, point_img _ _ _ ha, point_img _ _ _ hb, number_img _ _ _ hv])
        · cases h

theorem densityBody_img : ∀ (f : Nat) (acc : List DensityGeoms) (ts : List Tok) (res : List DensityGeoms) (r : List Tok),
    densityBody f acc ts = some (res, r) → acc.all dlOk = true → res.all dlOk = true := by
  intro f
  induction f with
  | zero => intro acc ts res r h; simp [densityBody] at h
  | succ f ih =>
    intro acc ts res r h hok
    rw [densityBody] at h
    split at h
    · cases h
    · split at h
      · simp only [Option.bind_eq_some_iff, Prod.exists] at h
        obtain ⟨n, r1, _, _, r2, _, rs, r3, hr, h⟩ := h
        split at h
        · exact ih _ _ _ _ h (by simp [hok, dlOk, densityRects_img _ _ _ _ _ hr (by rfl)])
        · cases h
      · split at h
        · cases h; exact hok
        · cases h

theorem symmetries_img : ∀ (f : Nat) (acc : List String) (ts : List Tok) (res : List String) (r : List Tok),
    symmetries f acc ts = some (res, r) → symOk acc = true → symOk res = true := by
  intro f
  induction f with
  | zero => intro acc ts res r h; simp [symmetries] at h
  | succ f ih =>
    intro acc ts res r h hok
    rw [symmetries] at h
    split at h
    · cases h; exact hok
    · simp only [Option.bind_eq_some_iff, Prod.exists] at h
      obtain ⟨e, r1, he, h⟩ := h
      simp only [symOk] at hok
      exact ih _ _ _ _ h (by simp [symOk, hok, parseEnum_img _ _ _ _ he])

theorem sizeStmt_img (ts : List Tok) (sz : Dec × Dec) (r : List Tok) (h : sizeStmt ts = some (sz, r)) : sizeOk sz = true := by
  unfold sizeStmt at h
  simp only [Option.bind_eq_bind, Option.bind_eq_some_iff, Prod.exists, Option.pure_def, Option.some.injEq, Prod.mk.injEq] at h
  obtain ⟨_, r1, _, x, r2, hx, _, r3, _, y, r4, hy, _, r5, _, he, _⟩ := h
  subst he
  simp [sizeOk, number_img _ _ _ hx, number_img _ _ _ hy]

theorem optSub_img (c table : String) (r : List Tok) (res : String × Option String × Bool) (r' : List Tok)
    (h : (if matchesTT .semi r then some ((c, none, false), r.tail)
      else (parseEnum table r).bind fun x => (semi x.2).map fun y => ((c, some x.1, false), y.2)) = some (res, r')) :
    res.1 = c ∧ optOk res.2.1 (isVariant table) = true ∧ res.2.2 = false := by
  split at h
  · cases h; simp
  · simp only [Option.bind_eq_some_iff, Prod.exists, Option.map_eq_some_iff] at h
    obtain ⟨t, r1, ht, _, r2, _, he⟩ := h
    cases he
    simp [parseEnum_img _ _ _ _ ht]

theorem macroClass_img (ts : List Tok) (c : String × Option String × Bool) (r : List Tok) (h : macroClass ts = some (c, r)) : classOk c = true := by
  unfold macroClass at h
  simp only [Option.bind_eq_bind, Option.bind_eq_some_iff, Prod.exists] at h
  obtain ⟨_, r1, _, cn, r2, _, h⟩ := h
  skip
  by_cases c1 : (cn == "Block") = true
  · rw [if_pos c1] at h
    obtain ⟨e1, e2, e3⟩ := optSub_img _ _ _ _ _ h
    simp only [beq_iff_eq] at c1; subst c1
    simp [classOk, e1, e2, e3]
  rw [if_neg c1] at h
  by_cases c2 : (cn == "Pad") = true
  · rw [if_pos c2] at h
    obtain ⟨e1, e2, e3⟩ := optSub_img _ _ _ _ _ h
    simp only [beq_iff_eq] at c2; subst c2
    simp [classOk, e1, e2, e3]
  rw [if_neg c2] at h
  by_cases c3 : (cn == "Core") = true
  · rw [if_pos c3] at h
    obtain ⟨e1, e2, e3⟩ := optSub_img _ _ _ _ _ h
    simp only [beq_iff_eq] at c3; subst c3
    simp [classOk, e1, e2, e3]
  rw [if_neg c3] at h
  by_cases c4 : (cn == "EndCap") = true
  · rw [if_pos c4] at h
    simp only [Option.bind_eq_some_iff, Prod.exists, Option.map_eq_some_iff] at h
    obtain ⟨t, r3, ht, _, r4, _, he⟩ := h
    cases he
    simp only [beq_iff_eq] at c4; subst c4
    simp [classOk, parseEnum_img _ _ _ _ ht]
  rw [if_neg c4] at h
  by_cases c5 : (cn == "Cover") = true
  · rw [if_pos c5] at h
    simp only [beq_iff_eq] at c5; subst c5
    split at h
    · cases h; simp [classOk]
    · simp only [Option.bind_eq_some_iff, Prod.exists, Option.map_eq_some_iff] at h
      obtain ⟨_, r3, _, _, r4, _, he⟩ := h
      cases he; simp [classOk]
  rw [if_neg c5] at h
  by_cases c6 : (cn == "Ring") = true
  · rw [if_pos c6] at h
    simp only [beq_iff_eq] at c6; subst c6
    simp only [Option.map_eq_some_iff, Prod.exists] at h
    obtain ⟨_, r4, _, he⟩ := h
    cases he; simp [classOk]
  rw [if_neg c6] at h
  cases h

/-- invariant of `macroBody`: the macro so far is well-formed, and SOURCE was accepted only at a version admitting it -/
def mInv (ver : Dec) (m : Macro) : Prop := macroOk m = true ∧ (m.source.isSome = true → v5p4.lt ver = false)

theorem macroBody_img (ver : Dec) : ∀ (f : Nat) (m : Macro) (ts : List Tok) (m' : Macro) (r : List Tok),
    macroBody ver f m ts = some (m', r) → mInv ver m → mInv ver m' := by
  intro f
  induction f with
  | zero => intro m ts m' r h; simp [macroBody] at h
  | succ f ih =>
    intro m ts m' r h hinv
    rw [macroBody] at h
    split at h
    · cases h
    · rename_i k hk
      obtain ⟨hok, hsrc⟩ := hinv
      have hok' := hok
      simp only [macroOk, Bool.and_eq_true] at hok
      obtain ⟨⟨⟨⟨⟨⟨⟨⟨o1, o2⟩, o3⟩, o4⟩, o5⟩, o6⟩, o7⟩, o8⟩, o9⟩ := hok
      dsimp only at h
      by_cases c1 : (k == "Class") = true
      · rw [if_pos c1] at h
        simp only [Option.bind_eq_some_iff, Prod.exists] at h
        obtain ⟨cn, sub, b, r1, hc, h⟩ := h
        split at h
        · exact ih _ _ _ _ h ⟨by simp [macroOk, o2, o3, o4, o5, o6, o7, o8, o9, macroClass_img _ _ _ hc], hsrc⟩
        · cases h
      rw [if_neg c1] at h
      by_cases c2 : (k == "Site") = true
      · rw [if_pos c2] at h
        simp only [Option.bind_eq_some_iff, Prod.exists] at h
        obtain ⟨v, r1, _, _, r2, _, h⟩ := h
        split at h
        · exact ih _ _ _ _ h ⟨by simp [macroOk, o1, o2, o3, o4, o5, o6, o7, o8, o9], hsrc⟩
        · cases h
      rw [if_neg c2] at h
      by_cases c3 : (k == "Eeq") = true
      · rw [if_pos c3] at h
        simp only [Option.bind_eq_some_iff, Prod.exists] at h
        obtain ⟨v, r1, _, _, r2, _, h⟩ := h
        split at h
        · exact ih _ _ _ _ h ⟨by simp [macroOk, o1, o2, o3, o4, o5, o6, o7, o8, o9], hsrc⟩
        · cases h
      rw [if_neg c3] at h
      by_cases c4 : (k == "FixedMask") = true
      · rw [if_pos c4] at h
        simp only [Option.bind_eq_some_iff, Prod.exists] at h
        obtain ⟨_, r2, _, h⟩ := h
        split at h
        · exact ih _ _ _ _ h ⟨by simp [macroOk, o1, o2, o3, o4, o5, o6, o7, o8, o9], hsrc⟩
        · cases h
      rw [if_neg c4] at h
      by_cases c5 : (k == "Foreign") = true
      · rw [if_pos c5] at h
        simp only [Option.bind_eq_some_iff, Prod.exists] at h
        obtain ⟨c, r1, _, h⟩ := h
        split at h
        · split at h
          · exact ih _ _ _ _ h ⟨by simp [macroOk, o1, o3, o4, o5, o6, o7, o8, o9, foreignOk], hsrc⟩
          · cases h
        · simp only [Option.bind_eq_some_iff, Prod.exists] at h
          obtain ⟨p, r2, hp, h⟩ := h
          split at h
          · split at h
            · exact ih _ _ _ _ h ⟨by simp [macroOk, o1, o3, o4, o5, o6, o7, o8, o9, foreignOk, point_img _ _ _ hp], hsrc⟩
            · cases h
          · simp only [Option.bind_eq_some_iff, Prod.exists] at h
            obtain ⟨o, r3, ho, _, r4, _, h⟩ := h
            split at h
            · exact ih _ _ _ _ h ⟨by simp [macroOk, o1, o3, o4, o5, o6, o7, o8, o9, foreignOk, point_img _ _ _ hp, parseEnum_img _ _ _ _ ho], hsrc⟩
            · cases h
      rw [if_neg c5] at h
      by_cases c6 : (k == "Origin") = true
      · rw [if_pos c6] at h
        simp only [Option.bind_eq_some_iff, Prod.exists] at h
        obtain ⟨p, r1, hp, _, r2, _, h⟩ := h
        split at h
        · exact ih _ _ _ _ h ⟨by simp [macroOk, o1, o2, o4, o5, o6, o7, o8, o9, point_img _ _ _ hp], hsrc⟩
        · cases h
      rw [if_neg c6] at h
      by_cases c7 : (k == "Size") = true
      · rw [if_pos c7] at h
        simp only [Option.bind_eq_some_iff, Prod.exists] at h
        obtain ⟨a, b, r1, hs, h⟩ := h
        split at h
        · exact ih _ _ _ _ h ⟨by simp [macroOk, o1, o2, o3, o4, o6, o7, o8, o9, sizeStmt_img _ _ _ hs], hsrc⟩
        · cases h
      rw [if_neg c7] at h
      by_cases c8 : (k == "Pin") = true
      · rw [if_pos c8] at h
        simp only [Option.bind_eq_some_iff, Prod.exists] at h
        obtain ⟨p, r1, hp, h⟩ := h
        split at h
        · exact ih _ _ _ _ h ⟨by simp [macroOk, o1, o2, o3, o4, o5, o6, o7, o8, o9, pin_img _ _ _ hp], hsrc⟩
        · cases h
      rw [if_neg c8] at h
      by_cases c9 : (k == "Obs") = true
      · rw [if_pos c9] at h
        simp only [Option.bind_eq_some_iff, Prod.exists] at h
        obtain ⟨o, r1, ho, h⟩ := h
        split at h
        · exact ih _ _ _ _ h ⟨by simp [macroOk, o1, o2, o3, o4, o5, o6, o7, o9, obsBody_img _ _ _ _ _ ho (by rfl)], hsrc⟩
        · cases h
      rw [if_neg c9] at h
      by_cases c10 : (k == "Property") = true
      · rw [if_pos c10] at h
        simp only [Option.bind_eq_some_iff, Prod.exists] at h
        obtain ⟨ps, r1, _, h⟩ := h
        split at h
        · exact ih _ _ _ _ h ⟨by simp [macroOk, o1, o2, o3, o4, o5, o6, o7, o8, o9], hsrc⟩
        · cases h
      rw [if_neg c10] at h
      by_cases c11 : (k == "Symmetry") = true
      · rw [if_pos c11] at h
        simp only [Option.bind_eq_some_iff, Prod.exists] at h
        obtain ⟨ss, r1, hs, h⟩ := h
        split at h
        · exact ih _ _ _ _ h ⟨by simp [macroOk, o1, o2, o3, o4, o5, o7, o8, o9, symmetries_img _ _ _ _ _ hs (by rfl)], hsrc⟩
        · cases h
      rw [if_neg c11] at h
      by_cases c12 : (k == "Source") = true
      · rw [if_pos c12] at h
        split at h
        · cases h
        · rename_i hv
          simp only [Option.bind_eq_some_iff, Prod.exists] at h
          obtain ⟨e, r1, he, _, r2, _, h⟩ := h
          split at h
          · exact ih _ _ _ _ h ⟨by simp [macroOk, o1, o2, o3, o5, o6, o7, o8, o9, parseEnum_img _ _ _ _ he], by intro _; simpa using hv⟩
          · cases h
      rw [if_neg c12] at h
      by_cases c13 : (k == "Density") = true
      · rw [if_pos c13] at h
        simp only [Option.bind_eq_some_iff, Prod.exists] at h
        obtain ⟨d, r1, hd, h⟩ := h
        split at h
        · exact ih _ _ _ _ h ⟨by simp [macroOk, o1, o2, o3, o4, o5, o6, o7, o8, densOk, densityBody_img _ _ _ _ _ hd (by rfl)], hsrc⟩
        · cases h
      rw [if_neg c13] at h
      by_cases c14 : (k == "End") = true
      · rw [if_pos c14] at h; cases h; exact ⟨hok', hsrc⟩
      rw [if_neg c14] at h
      cases h

theorem macro_img (ver : Dec) (ts : List Tok) (m : Macro) (r : List Tok) (h : macro_ ver ts = some (m, r)) : mInv ver m := by
  unfold macro_ at h
  simp only [Option.bind_eq_bind, Option.bind_eq_some_iff, Prod.exists, Option.pure_def, Option.some.injEq, Prod.mk.injEq] at h
  obtain ⟨_, r1, _, n, r2, _, m1, r3, hb, _, r4, _, he, _⟩ := h
  subst he
  exact macroBody_img ver _ _ _ _ _ hb ⟨by simp [macroOk], by simp⟩

/-! ### units, sites -/
theorem legalDbu_ok : legalDbu.all dbuOk = true := by decide +kernel

theorem dbuTryNew_img (d : LefEnum.Dec) (v : Int) (h : dbuTryNew d = some v) : dbuOk v = true := by
  unfold dbuTryNew at h
  split at h
  · cases h
  · split at h
    · rename_i hc
      cases h
      exact List.all_eq_true.1 legalDbu_ok _ (by simpa using hc)
    · cases h

theorem unitsBody_img : ∀ (f : Nat) (u : Units) (ts : List Tok) (u' : Units) (r : List Tok),
    unitsBody f u ts = some (u', r) → unitsOk u = true → unitsOk u' = true := by
  intro f
  induction f with
  | zero => intro u ts u' r h; simp [unitsBody] at h
  | succ f ih =>
    intro u ts u' r h hok
    rw [unitsBody] at h
    split at h
    · cases h
    · rename_i k r0 hk
      have hok' := hok
      simp only [unitsOk, Bool.and_eq_true] at hok
      obtain ⟨⟨⟨⟨⟨⟨⟨u1, u2⟩, u3⟩, u4⟩, u5⟩, u6⟩, u7⟩, u8⟩ := hok
      dsimp only at h
      by_cases c1 : (k == "Database") = true
      · rw [if_pos c1] at h
        simp only [Option.bind_eq_some_iff, Prod.exists, Option.map_eq_some_iff] at h
        obtain ⟨_, r1, _, d, r2, hd, _, r3, _, u', ⟨v, hv, he⟩, h⟩ := h
        subst he
        exact ih _ _ _ _ h (by simp [unitsOk, u1, u2, u3, u4, u5, u6, u8, dbuTryNew_img _ _ hv])
      rw [if_neg c1] at h
      by_cases c2 : (k == "Time") = true
      · rw [if_pos c2] at h
        simp only [Option.bind_eq_some_iff, Prod.exists, Option.some.injEq] at h
        obtain ⟨_, r1, _, d, r2, hd, _, r3, _, u', he, h⟩ := h
        subst he
        exact ih _ _ _ _ h (by simp [unitsOk, u2, u3, u4, u5, u6, u7, u8, number_img _ _ _ hd])
      rw [if_neg c2] at h
      by_cases c3 : (k == "Capacitance") = true
      · rw [if_pos c3] at h
        simp only [Option.bind_eq_some_iff, Prod.exists, Option.some.injEq] at h
        obtain ⟨_, r1, _, d, r2, hd, _, r3, _, u', he, h⟩ := h
        subst he
        exact ih _ _ _ _ h (by simp [unitsOk, u1, u3, u4, u5, u6, u7, u8, number_img _ _ _ hd])
      rw [if_neg c3] at h
      by_cases c4 : (k == "Resistance") = true
      · rw [if_pos c4] at h
        simp only [Option.bind_eq_some_iff, Prod.exists, Option.some.injEq] at h
        obtain ⟨_, r1, _, d, r2, hd, _, r3, _, u', he, h⟩ := h
        subst he
        exact ih _ _ _ _ h (by simp [unitsOk, u1, u2, u4, u5, u6, u7, u8, number_img _ _ _ hd])
      rw [if_neg c4] at h
      by_cases c5 : (k == "Power") = true
      · rw [if_pos c5] at h
        simp only [Option.bind_eq_some_iff, Prod.exists, Option.some.injEq] at h
        obtain ⟨_, r1, _, d, r2, hd, _, r3, _, u', he, h⟩ := h
        subst he
        exact ih _ _ _ _ h (by simp [unitsOk, u1, u2, u3, u5, u6, u7, u8, number_img _ _ _ hd])
      rw [if_neg c5] at h
      by_cases c6 : (k == "Current") = true
      · rw [if_pos c6] at h
        simp only [Option.bind_eq_some_iff, Prod.exists, Option.some.injEq] at h
        obtain ⟨_, r1, _, d, r2, hd, _, r3, _, u', he, h⟩ := h
        subst he
        exact ih _ _ _ _ h (by simp [unitsOk, u1, u2, u3, u4, u6, u7, u8, number_img _ _ _ hd])
      rw [if_neg c6] at h
      by_cases c7 : (k == "Voltage") = true
      · rw [if_pos c7] at h
        simp only [Option.bind_eq_some_iff, Prod.exists, Option.some.injEq] at h
        obtain ⟨_, r1, _, d, r2, hd, _, r3, _, u', he, h⟩ := h
        subst he
        exact ih _ _ _ _ h (by simp [unitsOk, u1, u2, u3, u4, u5, u7, u8, number_img _ _ _ hd])
      rw [if_neg c7] at h
      by_cases c8 : (k == "Frequency") = true
      · rw [if_pos c8] at h
        simp only [Option.bind_eq_some_iff, Prod.exists, Option.some.injEq] at h
        obtain ⟨_, r1, _, d, r2, hd, _, r3, _, u', he, h⟩ := h
        subst he
        exact ih _ _ _ _ h (by simp [unitsOk, u1, u2, u3, u4, u5, u6, u7, number_img _ _ _ hd])
      rw [if_neg c8] at h
      by_cases c9 : (k == "End") = true
      · rw [if_pos c9] at h
        simp only [Option.map_eq_some_iff, Prod.exists, Prod.mk.injEq] at h
        obtain ⟨_, r1, _, he, _⟩ := h
        subst he; exact hok'
      rw [if_neg c9] at h
      cases h

def sbInv (b : SiteB) : Prop := optOk b.cls (isVariant "LefSiteClass") = true ∧ optOk b.size sizeOk = true ∧ optOk b.symmetry symOk = true

theorem siteBody_img (name : Str) : ∀ (f : Nat) (b : SiteB) (ts : List Tok) (s : Site) (r : List Tok),
    siteBody name f b ts = some (s, r) → sbInv b → siteOk s = true := by
  intro f
  induction f with
  | zero => intro b ts s r h; simp [siteBody] at h
  | succ f ih =>
    intro b ts s r h hinv
    rw [siteBody] at h
    split at h
    · cases h
    · rename_i k hk
      obtain ⟨i1, i2, i3⟩ := hinv
      dsimp only at h
      by_cases c1 : (k == "End") = true
      · rw [if_pos c1] at h
        simp only [Option.bind_eq_some_iff, Prod.exists] at h
        obtain ⟨_, r1, _, h⟩ := h
        split at h
        · rename_i c sz hc hs
          cases h
          rw [hc] at i1; rw [hs] at i2
          simp only [optOk_some] at i1 i2
          simp [siteOk, i1, i2, i3]
        · cases h
      rw [if_neg c1] at h
      by_cases c2 : (k == "Class") = true
      · rw [if_pos c2] at h
        simp only [Option.bind_eq_some_iff, Prod.exists] at h
        obtain ⟨e, r1, he, _, r2, _, h⟩ := h
        split at h
        · exact ih _ _ _ _ h ⟨by simp [parseEnum_img _ _ _ _ he], i2, i3⟩
        · cases h
      rw [if_neg c2] at h
      by_cases c3 : (k == "Symmetry") = true
      · rw [if_pos c3] at h
        simp only [Option.bind_eq_some_iff, Prod.exists] at h
        obtain ⟨ss, r1, hs, h⟩ := h
        split at h
        · exact ih _ _ _ _ h ⟨i1, i2, by simp [symmetries_img _ _ _ _ _ hs (by rfl)]⟩
        · cases h
      rw [if_neg c3] at h
      by_cases c4 : (k == "Size") = true
      · rw [if_pos c4] at h
        simp only [Option.bind_eq_some_iff, Prod.exists] at h
        obtain ⟨a, b', r1, hs, h⟩ := h
        split at h
        · exact ih _ _ _ _ h ⟨i1, by simp [sizeStmt_img _ _ _ hs], i3⟩
        · cases h
      rw [if_neg c4] at h
      cases h

theorem site_img (ts : List Tok) (s : Site) (r : List Tok) (h : site ts = some (s, r)) : siteOk s = true := by
  unfold site at h
  simp only [Option.bind_eq_bind, Option.bind_eq_some_iff, Prod.exists] at h
  obtain ⟨_, r1, _, n, r2, _, h⟩ := h
  exact siteBody_img n _ _ _ _ _ h ⟨rfl, rfl, rfl⟩

/-! ### vias -/
theorem viaMask_img (ts : List Tok) (m : Option Dec) (r : List Tok) (h : viaMask ts = some (m, r)) : maskOk m = true := by
  unfold viaMask at h
  split at h
  · split at h
    · split at h
      · simp only [Option.map_eq_some_iff, Prod.exists] at h
        obtain ⟨d, r', hn, he⟩ := h
        cases he
        exact number_img _ _ _ hn
      · cases h
    · cases h
  · cases h; rfl

theorem viaShape_img (ts : List Tok) (s : ViaShape) (r : List Tok) (h : viaShape ts = some (s, r)) : vshapeOk s = true := by
  unfold viaShape at h
  split at h
  · cases h
  · split at h
    · simp only [Option.bind_eq_bind, Option.bind_eq_some_iff, Prod.exists, Option.pure_def, Option.some.injEq, Prod.mk.injEq] at h
      obtain ⟨m, r1, hm, a, r2, ha, b, r3, hb, _, r4, _, he, _⟩ := h
      subst he
      simp [vshapeOk, viaMask_img _ _ _ hm, point_img _ _ _ ha, point_img _ _ _ hb]
    · split at h
      · simp only [Option.bind_eq_bind, Option.bind_eq_some_iff, Prod.exists] at h
        obtain ⟨m, r1, hm, ps, r2, hps, h⟩ := h
        split at h
        · cases h
        · simp only [Option.bind_eq_some_iff, Prod.exists, Option.pure_def, Option.some.injEq, Prod.mk.injEq] at h
          obtain ⟨_, r4, _, he, _⟩ := h
          subst he
          simp [vshapeOk, viaMask_img _ _ _ hm, pointList_img _ _ _ _ hps]; omega
      · cases h

theorem viaShapes_img : ∀ (f : Nat) (acc : List ViaShape) (ts : List Tok) (res : List ViaShape) (r : List Tok),
    viaShapes f acc ts = some (res, r) → acc.all vshapeOk = true → res.all vshapeOk = true := by
  intro f
  induction f with
  | zero => intro acc ts res r h; simp [viaShapes] at h
  | succ f ih =>
    intro acc ts res r h hok
    rw [viaShapes] at h
    split at h
    · cases h; exact hok
    · split at h
      · cases h
      · split at h
        · cases h; exact hok
        · split at h
          · simp only [Option.bind_eq_some_iff, Prod.exists] at h
            obtain ⟨s, r1, hs, h⟩ := h
            split at h
            · exact ih _ _ _ _ h (by simp [hok, viaShape_img _ _ _ hs])
            · cases h
          · cases h

theorem viaLayers_img : ∀ (f : Nat) (acc : List ViaLayer) (ts : List Tok) (res : List ViaLayer) (r : List Tok),
    viaLayers f acc ts = some (res, r) → acc.all vlayerOk = true → res.all vlayerOk = true := by
  intro f
  induction f with
  | zero => intro acc ts res r h; simp [viaLayers] at h
  | succ f ih =>
    intro acc ts res r h hok
    rw [viaLayers] at h
    split at h
    · cases h
    · split at h
      · simp only [Option.bind_eq_some_iff, Prod.exists] at h
        obtain ⟨n, r1, _, _, r2, _, ss, r3, hs, h⟩ := h
        split at h
        · exact ih _ _ _ _ h (by simp [hok, vlayerOk, viaShapes_img _ _ _ _ _ hs (by rfl)])
        · cases h
      · cases h; exact hok

theorem num2_img (ts : List Tok) (v : Dec × Dec) (r : List Tok) (h : num2 ts = some (v, r)) : d2Ok v = true := by
  unfold num2 at h
  simp only [Option.bind_eq_some_iff, Prod.exists, Option.map_eq_some_iff] at h
  obtain ⟨a, r1, ha, b, r2, hb, he⟩ := h
  cases he
  simp [d2Ok, number_img _ _ _ ha, number_img _ _ _ hb]

theorem num4_img (ts : List Tok) (v : Dec × Dec × Dec × Dec) (r : List Tok) (h : num4 ts = some (v, r)) : d4Ok v = true := by
  unfold num4 at h
  simp only [Option.bind_eq_some_iff, Prod.exists, Option.map_eq_some_iff] at h
  obtain ⟨a, b, r1, h1, c, d, r2, h2, he⟩ := h
  cases he
  have e1 := num2_img _ _ _ h1
  have e2 := num2_img _ _ _ h2
  simp only [d2Ok, Bool.and_eq_true] at e1 e2
  simp [d4Ok, e1.1, e1.2, e2.1, e2.2]

def gbInv (g : GenB) : Prop :=
  optOk g.cutSize d2Ok = true ∧ optOk g.cutSpacing d2Ok = true ∧ optOk g.enclosure d4Ok = true ∧
  optOk g.rowcol d2Ok = true ∧ optOk g.origin ptOk = true ∧ optOk g.offset d4Ok = true

theorem genViaBody_img : ∀ (f : Nat) (g : GenB) (ts : List Tok) (g' : GenB) (r : List Tok),
    genViaBody f g ts = some (g', r) → gbInv g → gbInv g' := by
  intro f
  induction f with
  | zero => intro g ts g' r h; simp [genViaBody] at h
  | succ f ih =>
    intro g ts g' r h hinv
    rw [genViaBody] at h
    split at h
    · cases h
    · rename_i k hk
      obtain ⟨i1, i2, i3, i4, i5, i6⟩ := hinv
      dsimp only at h
      by_cases c1 : (k == "CutSize") = true
      · rw [if_pos c1] at h
        simp only [Option.bind_eq_some_iff, Prod.exists] at h
        obtain ⟨a, b, r1, hv, _, r2, _, h⟩ := h
        exact ih _ _ _ _ h ⟨by simp [num2_img _ _ _ hv], i2, i3, i4, i5, i6⟩
      rw [if_neg c1] at h
      by_cases c2 : (k == "Layers") = true
      · rw [if_pos c2] at h
        simp only [Option.bind_eq_some_iff, Prod.exists] at h
        obtain ⟨a, r1, _, b, r2, _, c, r3, _, _, r4, _, h⟩ := h
        exact ih _ _ _ _ h ⟨i1, i2, i3, i4, i5, i6⟩
      rw [if_neg c2] at h
      by_cases c3 : (k == "CutSpacing") = true
      · rw [if_pos c3] at h
        simp only [Option.bind_eq_some_iff, Prod.exists] at h
        obtain ⟨a, b, r1, hv, _, r2, _, h⟩ := h
        exact ih _ _ _ _ h ⟨i1, by simp [num2_img _ _ _ hv], i3, i4, i5, i6⟩
      rw [if_neg c3] at h
      by_cases c4 : (k == "Enclosure") = true
      · rw [if_pos c4] at h
        simp only [Option.bind_eq_some_iff, Prod.exists] at h
        obtain ⟨a, b, c, d, r1, hv, _, r2, _, h⟩ := h
        exact ih _ _ _ _ h ⟨i1, i2, by simp [num4_img _ _ _ hv], i4, i5, i6⟩
      rw [if_neg c4] at h
      by_cases c5 : (k == "RowCol") = true
      · rw [if_pos c5] at h
        simp only [Option.bind_eq_some_iff, Prod.exists] at h
        obtain ⟨a, b, r1, hv, _, r2, _, h⟩ := h
        exact ih _ _ _ _ h ⟨i1, i2, i3, by simp [num2_img _ _ _ hv], i5, i6⟩
      rw [if_neg c5] at h
      by_cases c6 : (k == "Origin") = true
      · rw [if_pos c6] at h
        simp only [Option.bind_eq_some_iff, Prod.exists] at h
        obtain ⟨p, r1, hv, _, r2, _, h⟩ := h
        exact ih _ _ _ _ h ⟨i1, i2, i3, i4, by simp [point_img _ _ _ hv], i6⟩
      rw [if_neg c6] at h
      by_cases c7 : (k == "Offset") = true
      · rw [if_pos c7] at h
        simp only [Option.bind_eq_some_iff, Prod.exists] at h
        obtain ⟨a, b, c, d, r1, hv, _, r2, _, h⟩ := h
        exact ih _ _ _ _ h ⟨i1, i2, i3, i4, i5, by simp [num4_img _ _ _ hv]⟩
      rw [if_neg c7] at h
      by_cases c8 : (k == "End") = true
      · rw [if_pos c8] at h; cases h; exact ⟨i1, i2, i3, i4, i5, i6⟩
      rw [if_neg c8] at h
      cases h

theorem viaDataP_img (ts : List Tok) (d : ViaData) (r : List Tok) (h : viaDataP ts = some (d, r)) : viaDataOk d = true := by
  unfold viaDataP at h
  simp only [Option.bind_eq_bind, Option.bind_eq_some_iff] at h
  obtain ⟨k2, _, h⟩ := h
  by_cases c1 : (k2 == "ViaRule") = true
  · rw [if_pos c1] at h
    simp only [Option.bind_eq_some_iff, Prod.exists] at h
    obtain ⟨rule, r1, _, _, r2, _, g, r3, hg, h⟩ := h
    have hi := genViaBody_img _ _ _ _ _ hg ⟨rfl, rfl, rfl, rfl, rfl, rfl⟩
    obtain ⟨i1, i2, i3, i4, i5, i6⟩ := hi
    split at h
    · rename_i cs ls sp en e1 e2 e3 e4
      simp only [Option.pure_def, Option.some.injEq, Prod.mk.injEq] at h
      obtain ⟨he, _⟩ := h
      subst he
      rw [e1] at i1; rw [e3] at i2; rw [e4] at i3
      simp only [optOk_some] at i1 i2 i3
      simp [viaDataOk, genOk, i1, i2, i3, i4, i5, i6]
    · cases h
  · rw [if_neg c1] at h
    by_cases c2 : (k2 == "Resistance") = true
    · rw [if_pos c2] at h
      simp only [Option.bind_eq_some_iff, Prod.exists, Option.map_eq_some_iff, Option.pure_def, Option.some.injEq, Prod.mk.injEq] at h
      obtain ⟨res, r1, ⟨d0, r3, hd, _, r4, _, he1, _⟩, ls, r2, hl, he, _⟩ := h
      subst he; subst he1
      simp [viaDataOk, number_img _ _ _ hd, viaLayers_img _ _ _ _ _ hl (by rfl)]
    · rw [if_neg c2] at h
      simp only [Option.bind_eq_some_iff, Prod.exists, Option.pure_def, Option.some.injEq, Prod.mk.injEq] at h
      obtain ⟨res, r1, ⟨he1, _⟩, ls, r2, hl, he, _⟩ := h
      subst he; subst he1
      simp [viaDataOk, viaLayers_img _ _ _ _ _ hl (by rfl)]

theorem viaDef_img (ts : List Tok) (v : ViaDef) (r : List Tok) (h : viaDef ts = some (v, r)) : viaOk v = true := by
  unfold viaDef at h
  simp only [Option.bind_eq_bind, Option.bind_eq_some_iff, Prod.exists] at h
  obtain ⟨_, r1, _, n, r2, _, k1, _, d, r3, hd, k3, _, h⟩ := h
  split at h
  · simp only [Option.bind_eq_some_iff, Prod.exists, Option.pure_def, Option.some.injEq, Prod.mk.injEq] at h
    obtain ⟨_, r4, _, he, _⟩ := h
    subst he
    exact viaDataP_img _ _ _ hd
  · cases h

/-! ### property definitions -/
theorem propDefTail_img (ts : List Tok) (v : Option Dec) (rg : Option (Dec × Dec)) (r : List Tok)
    (h : propDefTail ts = some ((v, rg), r)) : optOk v decOk = true ∧ optOk rg d2Ok = true := by
  unfold propDefTail at h
  have tail : ∀ (range : Option (Dec × Dec)) (r1 : List Tok), optOk range d2Ok = true →
      (if matchesTT TT.number r1 = true then
        (Option.map (fun x => (some x.fst, x.snd)) (number r1)).bind fun x_1 =>
          (semi x_1.snd).bind fun x_2 => some ((x_1.fst, range), x_2.snd)
      else (some (none, r1)).bind fun x_1 => (semi x_1.snd).bind fun x_2 => some ((x_1.fst, range), x_2.snd)) = some ((v, rg), r) →
      optOk v decOk = true ∧ optOk rg d2Ok = true := by
    intro range r1 hrg h
    by_cases c2 : matchesTT TT.number r1 = true
    · rw [if_pos c2] at h
      simp only [Option.bind_eq_some_iff, Prod.exists, Option.map_eq_some_iff, Option.some.injEq, Prod.mk.injEq] at h
      obtain ⟨value, r2, ⟨d, r3, hd, he, _⟩, _, r4, _, ⟨he1, he2⟩, _⟩ := h
      subst he1; subst he2; subst he
      exact ⟨by simp [number_img _ _ _ hd], hrg⟩
    · rw [if_neg c2] at h
      simp only [Option.bind_eq_some_iff, Prod.exists, Option.some.injEq, Prod.mk.injEq] at h
      obtain ⟨value, r2, ⟨he, _⟩, _, r4, _, ⟨he1, he2⟩, _⟩ := h
      subst he1; subst he2; subst he
      exact ⟨rfl, hrg⟩
  by_cases c1 : matchesTT TT.name ts = true
  · simp only [c1, if_true, Option.bind_eq_bind, Option.pure_def] at h
    simp only [Option.bind_eq_some_iff, Prod.exists, Option.map_eq_some_iff, Prod.mk.injEq] at h
    obtain ⟨range, r1, ⟨_, r5, _, a, b, r6, hn, he, he'⟩, h⟩ := h
    subst he; subst he'
    exact tail _ _ (by simp [num2_img _ _ _ hn]) h
  · simp only [c1, Bool.false_eq_true, if_false, Option.bind_eq_bind, Option.pure_def, Option.bind_some] at h
    exact tail _ _ rfl h

theorem propDefs_img : ∀ (f : Nat) (acc : List PropDef) (ts : List Tok) (res : List PropDef) (r : List Tok),
    propDefs f acc ts = some (res, r) → acc.all pdOk = true → res.all pdOk = true := by
  intro f
  induction f with
  | zero => intro acc ts res r h; simp [propDefs] at h
  | succ f ih =>
    intro acc ts res r h hok
    rw [propDefs] at h
    split at h
    · cases h
    · rename_i k hk
      by_cases c0 : propDefObjects.contains k = true
      · rw [if_pos c0] at h
        simp only [Option.bind_eq_some_iff, Prod.exists] at h
        obtain ⟨obj, r1, ho, name, r2, _, tk, r3, _, h⟩ := h
        have hobj := parseEnum_img _ _ _ _ ho
        by_cases c1 : (tk == "String") = true
        · rw [if_pos c1] at h
          split at h
          · exact ih _ _ _ _ h (by simp [hok, pdOk, hobj])
          · simp only [Option.bind_eq_some_iff, Prod.exists] at h
            obtain ⟨v, r4, _, _, r5, _, h⟩ := h
            exact ih _ _ _ _ h (by simp [hok, pdOk, hobj])
        rw [if_neg c1] at h
        by_cases c2 : (tk == "Real") = true
        · rw [if_pos c2] at h
          simp only [Option.bind_eq_some_iff, Prod.exists] at h
          obtain ⟨v, rg, r4, ht, h⟩ := h
          obtain ⟨e1, e2⟩ := propDefTail_img _ _ _ _ ht
          exact ih _ _ _ _ h (by simp [hok, pdOk, hobj, e1, e2])
        rw [if_neg c2] at h
        by_cases c3 : (tk == "Integer") = true
        · rw [if_pos c3] at h
          simp only [Option.bind_eq_some_iff, Prod.exists] at h
          obtain ⟨v, rg, r4, ht, h⟩ := h
          obtain ⟨e1, e2⟩ := propDefTail_img _ _ _ _ ht
          exact ih _ _ _ _ h (by simp [hok, pdOk, hobj, e1, e2])
        rw [if_neg c3] at h
        cases h
      rw [if_neg c0] at h
      split at h
      · simp only [Option.map_eq_some_iff, Prod.exists, Prod.mk.injEq] at h
        obtain ⟨_, r1, _, he, _⟩ := h
        subst he; exact hok
      · cases h

/-! ### the library -/
/-- `libOk` without the condition on extension data -/
def libOkNoExt (l : Lib) : Bool :=
  optOk l.version verOk && optOk l.namesCaseSensitive (isVariant "LefOnOff") && optOk l.noWireExt (isVariant "LefOnOff") &&
  optOk l.units unitsOk && optOk l.mfgGrid decOk && optOk l.useMinSpacing (isVariant "LefOnOff") &&
  optOk l.clearance (isVariant "LefClearanceStyle") && l.propDefs.all pdOk && l.vias.all viaOk && l.sites.all siteOk &&
  l.macros.all macroOk

theorem libOk_of_noExt (l : Lib) (h : libOkNoExt l = true) (he : l.extensions.all extOk = true) : libOk l = true := by
  simp only [libOkNoExt, Bool.and_eq_true] at h
  simp only [libOk, Bool.and_eq_true]
  exact ⟨h, he⟩

/-- invariant of `libBody`: the library so far is well-formed, the session version is the last VERSION
    read (or the default), and 5.4-only statements were accepted only at a version admitting them -/
def lInv (ver : Dec) (l : Lib) : Prop :=
  libOkNoExt l = true ∧ ver = l.version.getD ⟨58, 1⟩ ∧ (l.namesCaseSensitive.isSome = true → v5p4.lt ver = false) ∧
  (∀ m ∈ l.macros, m.source.isSome = true → v5p4.lt ver = false)

theorem libBody_img : ∀ (f : Nat) (ver : Dec) (lib : Lib) (ts : List Tok) (l : Lib),
    libBody f ver lib ts = some l → lInv ver lib → ∃ ver', lInv ver' l := by
  intro f
  induction f with
  | zero => intro ver lib ts l h; simp [libBody] at h
  | succ f ih =>
    intro ver lib ts l h hinv
    rw [libBody] at h
    by_cases c0 : (ts.isEmpty && v5p6.le ver) = true
    · rw [if_pos c0] at h; cases h; exact ⟨ver, hinv⟩
    rw [if_neg c0] at h
    cases hk : peekKey ts with
    | none => rw [hk] at h; cases h
    | some k =>
    rw [hk] at h
    obtain ⟨hok, hver, hncs, hsrc⟩ := hinv
    have hok' := hok
    simp only [libOkNoExt, Bool.and_eq_true] at hok
    obtain ⟨⟨⟨⟨⟨⟨⟨⟨⟨⟨o1, o2⟩, o3⟩, o4⟩, o5⟩, o6⟩, o7⟩, o8⟩, o9⟩, o10⟩, o11⟩ := hok
    dsimp only at h
    by_cases c1 : (k == "Macro") = true
    · rw [if_pos c1] at h
      simp only [Option.bind_eq_some_iff, Prod.exists] at h
      obtain ⟨m, r1, hm, h⟩ := h
      obtain ⟨m1, m2⟩ := macro_img ver _ _ _ hm
      split at h
      · refine ih _ _ _ _ h ⟨by simp [libOkNoExt, o1, o2, o3, o4, o5, o6, o7, o8, o9, o10, o11, m1], hver, hncs, ?_⟩
        intro m' hm' hs
        rcases List.mem_append.1 hm' with hin | hin
        · exact hsrc m' hin hs
        · simp only [List.mem_singleton] at hin; subst hin; exact m2 hs
      · cases h
    rw [if_neg c1] at h
    by_cases c2 : (k == "Version") = true
    · rw [if_pos c2] at h
      simp only [Option.bind_eq_some_iff, Prod.exists] at h
      obtain ⟨d, r1, hd, _, r2, _, h⟩ := h
      split at h
      · rename_i hc
        simp only [Bool.and_eq_true, Bool.not_eq_true', Bool.and_eq_false_iff, Bool.or_eq_false_iff] at hc
        obtain ⟨hvok, hg⟩ := hc
        refine ih _ _ _ _ h ⟨by simp [libOkNoExt, o2, o3, o4, o5, o6, o7, o8, o9, o10, o11, verOk, number_img _ _ _ hd, hvok], rfl, ?_, ?_⟩
        · intro hs
          rcases hg with hg | hg
          · exact hg
          · rw [hg.1] at hs; cases hs
        · intro m hm hs
          rcases hg with hg | hg
          · exact hg
          · have := List.any_eq_false.1 hg.2 m hm
            simp [hs] at this
      · cases h
    rw [if_neg c2] at h
    by_cases c3 : (k == "BusBitChars") = true
    · rw [if_pos c3] at h
      simp only [Option.bind_eq_some_iff, Prod.exists] at h
      obtain ⟨sv, r1, _, h⟩ := h
      split at h
      · simp only [Option.bind_eq_some_iff, Prod.exists] at h
        obtain ⟨_, r2, _, h⟩ := h
        exact ih _ _ _ _ h ⟨by simp [libOkNoExt, o1, o2, o3, o4, o5, o6, o7, o8, o9, o10, o11], hver, hncs, hsrc⟩
      · cases h
    rw [if_neg c3] at h
    by_cases c4 : (k == "DividerChar") = true
    · rw [if_pos c4] at h
      simp only [Option.bind_eq_some_iff, Prod.exists] at h
      obtain ⟨sv, r1, _, h⟩ := h
      split at h
      · simp only [Option.bind_eq_some_iff, Prod.exists] at h
        obtain ⟨_, r2, _, h⟩ := h
        exact ih _ _ _ _ h ⟨by simp [libOkNoExt, o1, o2, o3, o4, o5, o6, o7, o8, o9, o10, o11], hver, hncs, hsrc⟩
      · cases h
    rw [if_neg c4] at h
    by_cases c5 : (k == "NamesCaseSensitive") = true
    · rw [if_pos c5] at h
      split at h
      · cases h
      · rename_i hv
        simp only [Option.bind_eq_some_iff, Prod.exists] at h
        obtain ⟨e, r1, he, _, r2, _, h⟩ := h
        exact ih _ _ _ _ h ⟨by simp [libOkNoExt, o1, o3, o4, o5, o6, o7, o8, o9, o10, o11, parseEnum_img _ _ _ _ he], hver,
          by intro _; simpa using hv, hsrc⟩
    rw [if_neg c5] at h
    by_cases c6 : (k == "NoWireExtensionAtPin") = true
    · rw [if_pos c6] at h
      simp only [Option.bind_eq_some_iff, Prod.exists] at h
      obtain ⟨e, r1, he, _, r2, _, h⟩ := h
      exact ih _ _ _ _ h ⟨by simp [libOkNoExt, o1, o2, o4, o5, o6, o7, o8, o9, o10, o11, parseEnum_img _ _ _ _ he], hver, hncs, hsrc⟩
    rw [if_neg c6] at h
    by_cases c7 : (k == "Units") = true
    · rw [if_pos c7] at h
      simp only [Option.bind_eq_some_iff, Prod.exists] at h
      obtain ⟨u, r1, hu, h⟩ := h
      split at h
      · exact ih _ _ _ _ h ⟨by simp [libOkNoExt, o1, o2, o3, o5, o6, o7, o8, o9, o10, o11, unitsBody_img _ _ _ _ _ hu (by rfl)], hver, hncs, hsrc⟩
      · cases h
    rw [if_neg c7] at h
    by_cases c8 : (k == "Site") = true
    · rw [if_pos c8] at h
      simp only [Option.bind_eq_some_iff, Prod.exists] at h
      obtain ⟨sv, r1, hs, h⟩ := h
      split at h
      · exact ih _ _ _ _ h ⟨by simp [libOkNoExt, o1, o2, o3, o4, o5, o6, o7, o8, o9, o10, o11, site_img _ _ _ hs], hver, hncs, hsrc⟩
      · cases h
    rw [if_neg c8] at h
    by_cases c9 : (k == "End") = true
    · rw [if_pos c9] at h
      simp only [Option.map_eq_some_iff] at h
      obtain ⟨_, _, he⟩ := h
      subst he
      exact ⟨ver, hok', hver, hncs, hsrc⟩
    rw [if_neg c9] at h
    by_cases c10 : (k == "FixedMask") = true
    · rw [if_pos c10] at h
      simp only [Option.bind_eq_some_iff, Prod.exists] at h
      obtain ⟨_, r2, _, h⟩ := h
      exact ih _ _ _ _ h ⟨by simp [libOkNoExt, o1, o2, o3, o4, o5, o6, o7, o8, o9, o10, o11], hver, hncs, hsrc⟩
    rw [if_neg c10] at h
    by_cases c11 : (k == "UseMinSpacing") = true
    · rw [if_pos c11] at h
      simp only [Option.bind_eq_some_iff, Prod.exists] at h
      obtain ⟨_, r0, _, e, r1, he, _, r2, _, h⟩ := h
      exact ih _ _ _ _ h ⟨by simp [libOkNoExt, o1, o2, o3, o4, o5, o7, o8, o9, o10, o11, parseEnum_img _ _ _ _ he], hver, hncs, hsrc⟩
    rw [if_neg c11] at h
    by_cases c12 : (k == "Via") = true
    · rw [if_pos c12] at h
      simp only [Option.bind_eq_some_iff, Prod.exists] at h
      obtain ⟨v, r1, hv, h⟩ := h
      split at h
      · exact ih _ _ _ _ h ⟨by simp [libOkNoExt, o1, o2, o3, o4, o5, o6, o7, o8, o9, o10, o11, viaDef_img _ _ _ hv], hver, hncs, hsrc⟩
      · cases h
    rw [if_neg c12] at h
    by_cases c13 : (k == "ClearanceMeasure") = true
    · rw [if_pos c13] at h
      simp only [Option.bind_eq_some_iff, Prod.exists] at h
      obtain ⟨e, r1, he, _, r2, _, h⟩ := h
      exact ih _ _ _ _ h ⟨by simp [libOkNoExt, o1, o2, o3, o4, o5, o6, o8, o9, o10, o11, parseEnum_img _ _ _ _ he], hver, hncs, hsrc⟩
    rw [if_neg c13] at h
    by_cases c14 : (k == "ManufacturingGrid") = true
    · rw [if_pos c14] at h
      simp only [Option.bind_eq_some_iff, Prod.exists] at h
      obtain ⟨d, r1, hd, _, r2, _, h⟩ := h
      exact ih _ _ _ _ h ⟨by simp [libOkNoExt, o1, o2, o3, o4, o6, o7, o8, o9, o10, o11, number_img _ _ _ hd], hver, hncs, hsrc⟩
    rw [if_neg c14] at h
    by_cases c15 : (k == "BeginExtension") = true
    · rw [if_pos c15] at h
      simp only [Option.bind_eq_some_iff, Prod.exists] at h
      obtain ⟨n, r1, _, data, r2, _, h⟩ := h
      split at h
      · exact ih _ _ _ _ h ⟨by simp [libOkNoExt, o1, o2, o3, o4, o5, o6, o7, o8, o9, o10, o11], hver, hncs, hsrc⟩
      · cases h
    rw [if_neg c15] at h
    by_cases c16 : (k == "PropertyDefinitions") = true
    · rw [if_pos c16] at h
      simp only [Option.bind_eq_some_iff, Prod.exists] at h
      obtain ⟨ds, r1, hds, h⟩ := h
      split at h
      · exact ih _ _ _ _ h ⟨by simp [libOkNoExt, o1, o2, o3, o4, o5, o6, o7, o8, o9, o10, o11, propDefs_img _ _ _ _ _ hds (by rfl)], hver, hncs, hsrc⟩
      · cases h
    rw [if_neg c16] at h
    cases h

/-- the writer accepts every library whose 5.4-only statements agree with its version -/
theorem wLib_some (l : Lib) (hn : l.namesCaseSensitive.isSome = true → v5p4.lt (l.version.getD ⟨58, 1⟩) = false)
    (hs : ∀ m ∈ l.macros, m.source.isSome = true → v5p4.lt (l.version.getD ⟨58, 1⟩) = false) : ∃ toks, wLib l = some toks := by
  have hm : ∀ (ms : List Macro), (∀ m ∈ ms, m.source.isSome = true → v5p4.lt (l.version.getD ⟨58, 1⟩) = false) →
      ∃ out, mapMOpt (wMacro (l.version.getD ⟨58, 1⟩)) ms = some out := by
    intro ms
    induction ms with
    | nil => intro _; exact ⟨[], rfl⟩
    | cons m r ih =>
      intro h
      obtain ⟨out, ho⟩ := ih (fun m' hm' => h m' (by simp [hm']))
      have hg : (m.source.isSome && v5p4.lt (l.version.getD ⟨58, 1⟩)) = false := by
        cases hsm : m.source.isSome with
        | false => rfl
        | true => simp [h m (by simp) hsm]
      exact ⟨wMacroToks m :: out, by simp [mapMOpt, wMacro_eq _ m hg, ho]⟩
  obtain ⟨out, ho⟩ := hm l.macros hs
  have hg : (l.namesCaseSensitive.isSome && v5p4.lt (l.version.getD ⟨58, 1⟩)) = false := by
    cases hsn : l.namesCaseSensitive.isSome with
    | false => rfl
    | true => simp [hn hsn]
  unfold wLib
  simp only [hg, Bool.false_eq_true, if_false, ho]
  exact ⟨_, rfl⟩

end L21.Lef
