import L21.Proofs.Dep
/-
C17 completeness: the orderer reports a cycle only when the graph really has one.
-/
namespace L21.Dep

variable (adj : Nat → List Nat)

/-- some node reaches itself through at least one edge -/
def HasCycle : Prop := ∃ y d, d ∈ adj y ∧ Reach adj d y

/-- the pending list is a path: each element is a direct dependency of the one after it -/
inductive Chain : List Nat → Prop where
  | nil : Chain []
  | single (x : Nat) : Chain [x]
  | cons {a b : Nat} {rest : List Nat} : a ∈ adj b → Chain (b :: rest) → Chain (a :: b :: rest)

/-- the items about to be pushed are direct dependencies of the innermost pending item -/
def Linked (P xs : List Nat) : Prop :=
  match P with
  | [] => True
  | h :: _ => ∀ x ∈ xs, x ∈ adj h

theorem Chain.reach_head {adj} : ∀ {P : List Nat}, Chain adj P → ∀ h rest, P = h :: rest → ∀ z ∈ P, Reach adj z h := by
  intro P hc
  induction hc with
  | nil => intro h rest e; simp at e
  | single x =>
    intro h rest e z hz
    simp at e; simp at hz; subst hz; rw [e.1]; exact Reach.refl _
  | @cons a b rest hab _ ih =>
    intro h rest' e z hz
    simp at e; obtain ⟨e1, _⟩ := e; subst e1
    rw [List.mem_cons] at hz
    rcases hz with rfl | hz
    · exact Reach.refl _
    · have := ih b rest rfl z hz
      exact this.trans (Reach.step hab (Reach.refl _))

theorem chain_cons {adj} {x : Nat} {P : List Nat} (hc : Chain adj P) (hl : Linked adj P [x]) : Chain adj (x :: P) := by
  cases P with
  | nil => exact Chain.single x
  | cons h rest => exact Chain.cons (hl x (by simp)) hc

def CycPush (f : Nat) : Prop :=
  ∀ x stack P, push adj f x stack P = .cycle → Chain adj P → Linked adj P [x] → HasCycle adj
def CycAll (f : Nat) : Prop :=
  ∀ xs stack P, pushAll adj f xs stack P = .cycle → Chain adj P → Linked adj P xs → HasCycle adj

theorem cycAll_of_push (f : Nat) (hp : CycPush adj f) : CycAll adj f := by
  intro xs
  induction xs with
  | nil => intro stack P h; simp [pushAll] at h
  | cons y ys ih =>
    intro stack P h hc hl
    have hly : Linked adj P [y] := by
      cases P with
      | nil => trivial
      | cons a rest => intro x hx; simp at hx; subst hx; exact hl x (by simp)
    have hlys : Linked adj P ys := by
      cases P with
      | nil => trivial
      | cons a rest => intro x hx; exact hl x (List.mem_cons_of_mem _ hx)
    rw [pushAll] at h
    cases hpy : push adj f y stack P with
    | ok st1 => rw [hpy] at h; exact ih st1 P h hc hlys
    | cycle => exact hp y stack P hpy hc hly
    | fuel => rw [hpy] at h; simp at h

theorem cyc (f : Nat) : CycPush adj f ∧ CycAll adj f := by
  induction f with
  | zero =>
    have hp : CycPush adj 0 := by intro x stack P h; simp [push] at h
    exact ⟨hp, cycAll_of_push adj 0 hp⟩
  | succ f ih =>
    have hp : CycPush adj (f + 1) := by
      intro x stack P h hc hl
      rw [push] at h
      by_cases h1 : x ∈ stack
      · simp [h1] at h
      · by_cases h2 : x ∈ P
        · -- the reported cycle: x is pending and a direct dependency of the innermost pending item
          cases P with
          | nil => simp at h2
          | cons hd rest =>
            have hx : x ∈ adj hd := hl x (by simp)
            have r := hc.reach_head hd rest rfl x h2
            exact ⟨hd, x, hx, r⟩
        · simp only [h1, h2, if_false] at h
          cases hpa : pushAll adj f (adj x) stack (x :: P) with
          | ok st => rw [hpa] at h; simp at h
          | cycle =>
            exact ih.2 (adj x) stack (x :: P) hpa (chain_cons hc hl) (by intro d hd; exact hd)
          | fuel => rw [hpa] at h; simp at h
    exact ⟨hp, cycAll_of_push adj (f + 1) hp⟩

end L21.Dep
