import L21.Model.Tetris
/-
Helper lemmas for C08: segment chains, cut_or_block, set_net, generic fold / mapM lemmas,
and the layout of a (flipped) period.
-/
namespace L21.Tetris

/-! ### chains: the segments of a track tile [a, b] in order, without gap or overlap -/
def Chain : Int → List Seg → Int → Prop
  | a, [], b => a = b
  | a, s :: rest, b => s.start = a ∧ s.start ≤ s.stop ∧ Chain s.stop rest b

theorem Chain.le : ∀ {segs : List Seg} {a b : Int}, Chain a segs b → a ≤ b := by
  intro segs
  induction segs with
  | nil => intro a b h; simp [Chain] at h; omega
  | cons s r ih =>
    intro a b h
    obtain ⟨h1, h2, h3⟩ := h
    have := ih h3
    omega

def isGap (s : Seg) : Bool := s.tp == .cut || s.tp == .block

/-- geometry and kind of a segment, ignoring the net of a wire -/
def Seg.shape (s : Seg) : Int × Int × Nat :=
  (s.start, s.stop, match s.tp with | .wire _ => 0 | .rail true => 1 | .rail false => 2 | .cut => 3 | .block => 4)

theorem cutOrBlockGo_chain (start stop : Int) (tp : SegT) (hss : start ≤ stop) :
    ∀ (segs : List Seg) (a b : Int) (out : List Seg), Chain a segs b → a ≤ start →
      cutOrBlockGo start stop tp segs = some out → Chain a out b := by
  intro segs
  induction segs with
  | nil => intro a b out _ _ h; simp [cutOrBlockGo] at h
  | cons s r ih =>
    intro a b out hc ha h
    obtain ⟨h1, h2, h3⟩ := hc
    simp only [cutOrBlockGo] at h
    split at h
    · -- this is the segment that is split
      rename_i hgt
      have key : s.stop ≥ stop → Chain a ({ s with stop := start } :: ⟨tp, start, stop⟩ ::
          ((if s.stop ≠ stop then [⟨s.tp, stop, s.stop⟩] else []) ++ r)) b := by
        intro hge
        refine ⟨h1, by simp; omega, ?_⟩
        refine ⟨rfl, hss, ?_⟩
        by_cases he : s.stop = stop
        · simp [he]; rw [← he]; exact h3
        · simp [he]; exact ⟨rfl, by show stop ≤ s.stop; omega, h3⟩
      cases htp : s.tp with
      | cut => simp [htp] at h
      | block => simp [htp] at h
      | wire n =>
        simp only [htp] at h
        split at h
        · simp at h
        · rename_i hlt
          simp only [Option.some.injEq] at h; subst h
          have := key (by omega)
          simpa [htp] using this
      | rail k =>
        simp only [htp] at h
        split at h
        · simp at h
        · rename_i hlt
          simp only [Option.some.injEq] at h; subst h
          have := key (by omega)
          simpa [htp] using this
    · rename_i hle
      cases hr : cutOrBlockGo start stop tp r with
      | none => simp [hr] at h
      | some o =>
        simp [hr] at h; subst h
        exact ⟨h1, h2, ih s.stop b o h3 (by omega) hr⟩

theorem cutOrBlock_chain (segs : List Seg) (a b start stop : Int) (tp : SegT) (out : List Seg)
    (hss : start ≤ stop) (hc : Chain a segs b) (h : cutOrBlock segs start stop tp = some out) : Chain a out b := by
  unfold cutOrBlock at h
  cases segs with
  | nil => simp at h
  | cons s r =>
    cases hl : (s :: r).getLast? with
    | none => simp [hl] at h
    | some last =>
      simp only [hl, List.head?_cons] at h
      split at h
      · simp at h
      · split at h
        · simp at h
        · rename_i hge
          exact cutOrBlockGo_chain start stop tp hss _ a b out hc (by have := hc.1; omega) h

/-- the requested span becomes a segment; segments that already were cuts or blockages stay;
    nothing else becomes a cut or blockage -/
theorem cutOrBlockGo_gaps (start stop : Int) (tp : SegT) :
    ∀ (segs out : List Seg), cutOrBlockGo start stop tp segs = some out →
      (⟨tp, start, stop⟩ : Seg) ∈ out ∧ (∀ s ∈ segs, isGap s = true → s ∈ out) ∧
      (∀ s ∈ out, isGap s = true → s ∈ segs ∨ s = ⟨tp, start, stop⟩) := by
  intro segs
  induction segs with
  | nil => intro out h; simp [cutOrBlockGo] at h
  | cons s r ih =>
    intro out h
    simp only [cutOrBlockGo] at h
    split at h
    · have notgap : isGap s = false → ∀ (o : List Seg),
          o = ({ s with stop := start } :: ⟨tp, start, stop⟩ :: ((if s.stop ≠ stop then [⟨s.tp, stop, s.stop⟩] else []) ++ r)) →
          (⟨tp, start, stop⟩ : Seg) ∈ o ∧ (∀ x ∈ s :: r, isGap x = true → x ∈ o) ∧
          (∀ x ∈ o, isGap x = true → x ∈ s :: r ∨ x = ⟨tp, start, stop⟩) := by
        intro hng o ho
        subst ho
        refine ⟨by simp, ?_, ?_⟩
        · intro x hx hg
          rcases List.mem_cons.1 hx with rfl | hx
          · rw [hng] at hg; cases hg
          · simp [hx]
        · intro x hx hg
          simp only [List.mem_cons, List.mem_append] at hx
          rcases hx with rfl | rfl | hx | hx
          · simp [isGap] at hg hng; simp [hng] at hg
          · right; rfl
          · split at hx
            · simp at hx; subst hx; simp [isGap] at hg hng; simp [hng] at hg
            · simp at hx
          · left; simp [hx]
      cases hst : s.tp with
      | cut => simp [hst] at h
      | block => simp [hst] at h
      | wire n =>
        simp only [hst] at h
        split at h
        · simp at h
        · simp only [Option.some.injEq] at h
          have := notgap (by simp [isGap, hst]) out (by rw [← h, hst])
          exact this
      | rail k =>
        simp only [hst] at h
        split at h
        · simp at h
        · simp only [Option.some.injEq] at h
          have := notgap (by simp [isGap, hst]) out (by rw [← h, hst])
          exact this
    · cases hr : cutOrBlockGo start stop tp r with
      | none => simp [hr] at h
      | some o =>
        simp [hr] at h; subst h
        obtain ⟨i1, i2, i3⟩ := ih o hr
        refine ⟨by simp [i1], ?_, ?_⟩
        · intro x hx hg
          rcases List.mem_cons.1 hx with rfl | hx
          · simp
          · simp [i2 x hx hg]
        · intro x hx hg
          rcases List.mem_cons.1 hx with rfl | hx
          · left; simp
          · rcases i3 x hx hg with h' | h'
            · left; simp [h']
            · right; exact h'

theorem cutOrBlock_gaps (segs out : List Seg) (start stop : Int) (tp : SegT)
    (h : cutOrBlock segs start stop tp = some out) :
    (⟨tp, start, stop⟩ : Seg) ∈ out ∧ (∀ s ∈ segs, isGap s = true → s ∈ out) ∧
    (∀ s ∈ out, isGap s = true → s ∈ segs ∨ s = ⟨tp, start, stop⟩) := by
  unfold cutOrBlock at h
  cases hl : segs.getLast? with
  | none => simp [hl] at h
  | some last =>
    cases hh : segs.head? with
    | none => simp [hl, hh] at h
    | some first =>
      simp only [hl, hh] at h
      split at h
      · simp at h
      · split at h
        · simp at h
        · exact cutOrBlockGo_gaps start stop tp segs out h

/-- `set_net` changes nothing but the net of one wire segment that contains the position -/
theorem setNet_shape (pos : Int) (net : Bytes) : ∀ (segs out : List Seg), setNet pos net segs = some out →
    out.map Seg.shape = segs.map Seg.shape := by
  intro segs
  induction segs with
  | nil => intro out h; simp [setNet] at h
  | cons s r ih =>
    intro out h
    simp only [setNet] at h
    split at h
    · simp at h
    · split at h
      · cases hst : s.tp with
        | wire n => simp [hst] at h; subst h; simp [Seg.shape, hst]
        | block => simp [hst] at h; subst h; rfl
        | cut => simp [hst] at h
        | rail k => simp [hst] at h
      · cases hr : setNet pos net r with
        | none => simp [hr] at h
        | some o => simp [hr] at h; subst h; simp [ih o hr]

theorem chain_of_shape : ∀ (l1 l2 : List Seg) (a b : Int), l1.map Seg.shape = l2.map Seg.shape →
    Chain a l2 b → Chain a l1 b := by
  intro l1
  induction l1 with
  | nil => intro l2 a b h hc; cases l2 with
    | nil => exact hc
    | cons _ _ => simp at h
  | cons s r ih =>
    intro l2 a b h hc
    cases l2 with
    | nil => simp at h
    | cons s2 r2 =>
      simp only [List.map_cons, List.cons.injEq] at h
      obtain ⟨hs, hr⟩ := h
      have e1 : s.start = s2.start := by have := congrArg (·.1) hs; simpa [Seg.shape] using this
      have e2 : s.stop = s2.stop := by have := congrArg (·.2.1) hs; simpa [Seg.shape] using this
      obtain ⟨h1, h2, h3⟩ := hc
      exact ⟨by omega, by omega, by rw [e2]; exact ih r2 _ _ hr h3⟩

/-- the piece that received the net is a wire containing the position; every other segment is unchanged -/
theorem setNet_effect (pos : Int) (net : Bytes) : ∀ (segs out : List Seg), setNet pos net segs = some out →
    out = segs ∨ ∃ pre s post, segs = pre ++ s :: post ∧ (∃ n, s.tp = .wire n) ∧ s.start ≤ pos ∧ pos ≤ s.stop ∧
      out = pre ++ { s with tp := .wire (some net) } :: post := by
  intro segs
  induction segs with
  | nil => intro out h; simp [setNet] at h
  | cons s r ih =>
    intro out h
    simp only [setNet] at h
    split at h
    · simp at h
    · split at h
      · rename_i hin
        cases hst : s.tp with
        | wire n =>
          simp [hst] at h; subst h
          exact Or.inr ⟨[], s, r, rfl, ⟨n, hst⟩, hin.1, hin.2, rfl⟩
        | block => simp [hst] at h; subst h; exact Or.inl rfl
        | cut => simp [hst] at h
        | rail k => simp [hst] at h
      · cases hr : setNet pos net r with
        | none => simp [hr] at h
        | some o =>
          simp [hr] at h; subst h
          rcases ih o hr with e | ⟨pre, x, post, e1, e2, e3, e4, e5⟩
          · left; rw [e]
          · right; exact ⟨s :: pre, x, post, by simp [e1], e2, e3, e4, by simp [e5]⟩

/-! ### generic lemmas on `mapM`, `foldlM`, `modifyNth` over `Option` -/
theorem mapM_some_mem {α β : Type} (f : α → Option β) : ∀ (l : List α) (r : List β), l.mapM f = some r →
    ∀ y ∈ r, ∃ x ∈ l, f x = some y := by
  intro l
  induction l with
  | nil => intro r h y hy; simp at h; subst h; simp at hy
  | cons a t ih =>
    intro r h y hy
    simp only [List.mapM_cons] at h
    cases hf : f a with
    | none => simp [hf] at h
    | some b =>
      cases ht : t.mapM f with
      | none => simp [hf, ht] at h
      | some bs =>
        simp [hf, ht] at h; subst h
        rcases List.mem_cons.1 hy with rfl | hy
        · exact ⟨a, by simp, hf⟩
        · obtain ⟨x, hx, e⟩ := ih bs ht y hy
          exact ⟨x, by simp [hx], e⟩

theorem mapM_some_length {α β : Type} (f : α → Option β) : ∀ (l : List α) (r : List β), l.mapM f = some r →
    r.length = l.length := by
  intro l
  induction l with
  | nil => intro r h; simp at h; subst h; rfl
  | cons a t ih =>
    intro r h
    simp only [List.mapM_cons] at h
    cases hf : f a with
    | none => simp [hf] at h
    | some b =>
      cases ht : t.mapM f with
      | none => simp [hf, ht] at h
      | some bs => simp [hf, ht] at h; subst h; simp [ih bs ht]

theorem foldlM_inv {α β : Type} (f : β → α → Option β) (I : β → Prop)
    (step : ∀ acc x acc', f acc x = some acc' → I acc → I acc') :
    ∀ (l : List α) (init r : β), l.foldlM f init = some r → I init → I r := by
  intro l
  induction l with
  | nil => intro init r h hi; simp at h; subst h; exact hi
  | cons a t ih =>
    intro init r h hi
    simp only [List.foldlM_cons] at h
    cases hf : f init a with
    | none => simp [hf] at h
    | some b => simp [hf] at h; exact ih b r h (step init a b hf hi)

theorem foldlM_inv_mem {α β : Type} (f : β → α → Option β) (I : β → Prop) :
    ∀ (l : List α) (init r : β), (∀ acc x acc', x ∈ l → f acc x = some acc' → I acc → I acc') →
      l.foldlM f init = some r → I init → I r := by
  intro l
  induction l with
  | nil => intro init r _ h hi; simp at h; subst h; exact hi
  | cons a t ih =>
    intro init r step h hi
    simp only [List.foldlM_cons] at h
    cases hf : f init a with
    | none => simp [hf] at h
    | some b =>
      simp [hf] at h
      exact ih b r (fun acc x acc' hx => step acc x acc' (by simp [hx])) h (step init a b (by simp) hf hi)

theorem modifyNth_mem (f : Track → Option Track) : ∀ (l l' : List Track) (i : Nat), modifyNth l i f = some l' →
    ∀ t' ∈ l', t' ∈ l ∨ ∃ t ∈ l, f t = some t' := by
  intro l
  induction l with
  | nil => intro l' i h; simp [modifyNth] at h
  | cons a r ih =>
    intro l' i h t' ht'
    cases i with
    | zero =>
      simp only [modifyNth] at h
      cases hf : f a with
      | none => simp [hf] at h
      | some b =>
        simp [hf] at h; subst h
        rcases List.mem_cons.1 ht' with rfl | h'
        · right; exact ⟨a, by simp, hf⟩
        · left; simp [h']
    | succ j =>
      simp only [modifyNth] at h
      cases hr : modifyNth r j f with
      | none => simp [hr] at h
      | some o =>
        simp [hr] at h; subst h
        rcases List.mem_cons.1 ht' with rfl | h'
        · left; simp
        · rcases ih o j hr t' h' with h'' | ⟨t, ht, e⟩
          · left; simp [h'']
          · right; exact ⟨t, by simp [ht], e⟩

end L21.Tetris

namespace L21.Tetris

/-! ### where the tracks of a period are -/
def shiftT (d : Int) (t : TT × Int × Int) : TT × Int × Int := (t.1, t.2.1 + d, t.2.2)
def mirrorT (c total : Int) (t : TT × Int × Int) : TT × Int × Int := (t.1, 2 * c + total - t.2.1 - t.2.2, t.2.2)

theorem widthSum_cons (e : Entry) (es : List Entry) : widthSum (e :: es) = e.w + widthSum es := by
  simp [widthSum]
theorem widthSum_append (a b : List Entry) : widthSum (a ++ b) = widthSum a + widthSum b := by
  simp [widthSum, List.sum_append]
theorem widthSum_reverse (a : List Entry) : widthSum a.reverse = widthSum a := by
  induction a with
  | nil => rfl
  | cons e r ih => simp [widthSum_append, widthSum_cons, ih, widthSum]; omega

theorem tracksFrom_append : ∀ (a b : List Entry) (c : Int),
    tracksFrom c (a ++ b) = tracksFrom c a ++ tracksFrom (c + widthSum a) b := by
  intro a
  induction a with
  | nil => intro b c; simp [tracksFrom, widthSum]
  | cons e r ih =>
    intro b c
    simp only [List.cons_append, tracksFrom, ih, widthSum_cons, List.append_assoc]
    congr 2
    congr 1
    omega

theorem tracksFrom_shift : ∀ (es : List Entry) (c d : Int),
    tracksFrom (c + d) es = (tracksFrom c es).map (shiftT d) := by
  intro es
  induction es with
  | nil => intros; rfl
  | cons e r ih =>
    intro c d
    simp only [tracksFrom, List.map_append]
    rw [show c + d + e.w = (c + e.w) + d by omega, ih]
    congr 1
    split <;> simp [shiftT]

theorem tracksFrom_reverse : ∀ (es : List Entry) (c : Int),
    tracksFrom c es.reverse = ((tracksFrom c es).map (mirrorT c (widthSum es))).reverse := by
  intro es
  induction es with
  | nil => intro c; rfl
  | cons e r ih =>
    intro c
    simp only [List.reverse_cons, tracksFrom_append, widthSum_reverse, tracksFrom, List.map_append,
      List.reverse_append, List.append_nil]
    rw [ih c]
    congr 1
    · -- the tail: mirror in the longer period after shifting by e.w
      rw [show c + e.w = c + e.w from rfl, tracksFrom_shift r c e.w, List.map_map]
      congr 1
      apply List.map_congr_left
      intro t _
      simp [mirrorT, shiftT, widthSum_cons]
      omega
    · split
      · simp
      · simp [mirrorT, widthSum_cons]; omega

theorem filter_isSig_map (f : TT × Int × Int → TT × Int × Int) (hf : ∀ t, (f t).1 = t.1) (l : List (TT × Int × Int)) :
    (l.map f).filter isSig = (l.filter isSig).map f := by
  rw [List.filter_map]
  congr 1
  apply List.filter_congr
  intro t _
  simp [isSig, hf]

theorem filter_isRail_map (f : TT × Int × Int → TT × Int × Int) (hf : ∀ t, (f t).1 = t.1) (l : List (TT × Int × Int)) :
    (l.map f).filter isRail = (l.filter isRail).map f := by
  rw [List.filter_map]
  congr 1
  apply List.filter_congr
  intro t _
  simp [isRail, hf]

/-- signals of period `p`, in the order they are instantiated, from the un-flipped period data -/
theorem periodSignals_of_period (m : Metal) (p : Nat) :
    (m.periodTracks p).filter isSig =
      if m.flip && p % 2 == 1 then
        ((m.periodSignals.map (mirrorT m.offset m.total)).reverse).map (shiftT (m.pitch * p))
      else m.periodSignals.map (shiftT (m.pitch * p)) := by
  unfold Metal.periodTracks Metal.periodEntries Metal.periodSignals
  split
  · rw [tracksFrom_shift, tracksFrom_reverse, filter_isSig_map _ (by intro t; rfl), List.filter_reverse,
      filter_isSig_map _ (by intro t; rfl)]
    rfl
  · rw [tracksFrom_shift, filter_isSig_map _ (by intro t; rfl)]

end L21.Tetris

namespace L21.Tetris
/-- cutting or blocking never creates a wire with a net out of net-less segments -/
theorem cutOrBlockGo_keeps_nonet (start stop : Int) (tp : SegT) (htp : tp = .cut ∨ tp = .block) :
    ∀ (segs out : List Seg), cutOrBlockGo start stop tp segs = some out →
      (∀ s ∈ segs, ∀ n, s.tp ≠ .wire (some n)) → ∀ s ∈ out, ∀ n, s.tp ≠ .wire (some n) := by
  intro segs
  induction segs with
  | nil => intro out h; simp [cutOrBlockGo] at h
  | cons s r ih =>
    intro out h hq
    simp only [cutOrBlockGo] at h
    have hs := hq s (by simp)
    have hr := fun x hx => hq x (List.mem_cons_of_mem s hx)
    split at h
    · have fin : ∀ o, o = ({ s with stop := start } :: ⟨tp, start, stop⟩ :: ((if s.stop ≠ stop then [⟨s.tp, stop, s.stop⟩] else []) ++ r)) →
          ∀ x ∈ o, ∀ n, x.tp ≠ .wire (some n) := by
        intro o ho x hx n
        subst ho
        simp only [List.mem_cons, List.mem_append] at hx
        rcases hx with rfl | rfl | hx | hx
        · exact hs n
        · rcases htp with rfl | rfl <;> simp
        · split at hx
          · simp at hx; subst hx; exact hs n
          · simp at hx
        · exact hr x hx n
      cases hst : s.tp with
      | cut => simp [hst] at h
      | block => simp [hst] at h
      | wire k =>
        simp only [hst] at h
        split at h
        · simp at h
        · simp only [Option.some.injEq] at h
          exact fin out (by rw [← h, hst])
      | rail k =>
        simp only [hst] at h
        split at h
        · simp at h
        · simp only [Option.some.injEq] at h
          exact fin out (by rw [← h, hst])
    · cases hgo : cutOrBlockGo start stop tp r with
      | none => simp [hgo] at h
      | some o =>
        simp [hgo] at h; subst h
        intro x hx n
        rcases List.mem_cons.1 hx with rfl | hx
        · exact hs n
        · exact ih o hgo hr x hx n

theorem cutOrBlock_keeps_nonet (segs out : List Seg) (start stop : Int) (tp : SegT) (htp : tp = .cut ∨ tp = .block)
    (h : cutOrBlock segs start stop tp = some out) (hq : ∀ s ∈ segs, ∀ n, s.tp ≠ .wire (some n)) :
    ∀ s ∈ out, ∀ n, s.tp ≠ .wire (some n) := by
  unfold cutOrBlock at h
  cases hl : segs.getLast? with
  | none => simp [hl] at h
  | some last =>
    cases hh : segs.head? with
    | none => simp [hl, hh] at h
    | some first =>
      simp only [hl, hh] at h
      split at h
      · simp at h
      · split at h
        · simp at h
        · exact cutOrBlockGo_keeps_nonet start stop tp htp segs out h hq
end L21.Tetris
