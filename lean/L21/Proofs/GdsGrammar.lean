import L21.Proofs.GdsTree
import L21.Spec.GdsSpec
/-
The record-type sequence the writer emits is a sentence of the manual's BNF (`Spec.gdsGrammar`).
-/
namespace L21.Gds
open L21 L21.Spec

def rts (rs : List Rec) : List Nat := rs.map (·.rt)

theorem rts_append (a b : List Rec) : rts (a ++ b) = rts a ++ rts b := by simp [rts]

theorem skipProps_props (rest : List Nat) : ∀ (ps : List Property) (f : Nat), ps.length ≤ f →
    skipProps f (rts (propRecs ps) ++ 0x11 :: rest) = some (0x11 :: rest) := by
  intro ps
  induction ps with
  | nil =>
    intro f _
    cases f <;> simp [propRecs, rts, skipProps]
  | cons p r ih =>
    intro f hf
    obtain ⟨g, rfl⟩ : ∃ g, f = g + 1 := ⟨f - 1, by simp at hf; omega⟩
    have := ih g (by simp at hf; omega)
    simp only [propRecs, List.flatMap_cons, rts, List.map_append, List.map_cons, List.map_nil, List.cons_append, List.nil_append,
      rPropAttr, rPropValue] at this ⊢
    simp only [skipProps]
    exact this

theorem rts_propRecs_length (ps : List Property) : (rts (propRecs ps)).length = 2 * ps.length := by
  simp [rts, propRecs_length]

/-- one element of the writer's output is an `<element>` of the manual -/
theorem element_elemRecs (e : Elem) (rest : List Nat) : element (rts (elemRecs e) ++ rest) = some rest := by
  have tailok : ∀ (ps : List Property) (pre : List Nat),
      (do let r ← skipProps (rts (propRecs ps) ++ 0x11 :: rest).length (rts (propRecs ps) ++ 0x11 :: rest); expect 0x11 r) = some rest := by
    intro ps pre
    rw [skipProps_props rest ps _ (by simp only [List.length_append, rts_propRecs_length]; omega)]
    simp [expect]
  cases e with
  | boundary layer dt xy c =>
    obtain ⟨ef, pl, ps⟩ := c
    cases ef <;> cases pl <;>
      simp only [elemRecs, commonHead, optRec, rts, List.map_append, List.map_cons, List.map_nil, List.cons_append, List.nil_append,
        List.append_assoc, rBoundary, rElemFlags, rPlex, rLayer, rDataType, rXy, rEndElement] <;>
      simp only [element, skipOpt, expect, if_true, Option.bind_eq_bind, Option.bind_some, Nat.reduceEqDiff, if_false] <;>
      exact tailok ps []
  | node layer dt xy c =>
    obtain ⟨ef, pl, ps⟩ := c
    cases ef <;> cases pl <;>
      simp only [elemRecs, commonHead, optRec, rts, List.map_append, List.map_cons, List.map_nil, List.cons_append, List.nil_append,
        List.append_assoc, rNode, rElemFlags, rPlex, rLayer, rNodetype, rXy, rEndElement] <;>
      simp only [element, skipOpt, expect, if_true, Option.bind_eq_bind, Option.bind_some, Nat.reduceEqDiff, if_false] <;>
      exact tailok ps []
  | box layer dt xy c =>
    obtain ⟨ef, pl, ps⟩ := c
    cases ef <;> cases pl <;>
      simp only [elemRecs, commonHead, optRec, rts, List.map_append, List.map_cons, List.map_nil, List.cons_append, List.nil_append,
        List.append_assoc, rBox, rElemFlags, rPlex, rLayer, rBoxType, rXy, rEndElement] <;>
      simp only [element, skipOpt, expect, if_true, Option.bind_eq_bind, Option.bind_some, Nat.reduceEqDiff, if_false] <;>
      exact tailok ps []
  | path layer dt xy width pt be ee c =>
    obtain ⟨ef, pl, ps⟩ := c
    cases ef <;> cases pl <;> cases width <;> cases pt <;> cases be <;> cases ee <;>
      simp only [elemRecs, commonHead, optRec, rts, List.map_append, List.map_cons, List.map_nil, List.cons_append, List.nil_append,
        List.append_nil, List.append_assoc, rPath, rElemFlags, rPlex, rLayer, rDataType, rXy, rEndElement, rPathType, rWidth, rBeginExtn, rEndExtn] <;>
      simp only [element, skipOpt, expect, if_true, Option.bind_eq_bind, Option.bind_some, Nat.reduceEqDiff, if_false] <;>
      exact tailok ps []
  | sref name xy st c =>
    obtain ⟨ef, pl, ps⟩ := c
    cases st with
    | none =>
      cases ef <;> cases pl <;>
        simp only [elemRecs, commonHead, optRec, optStrans, rts, List.map_append, List.map_cons, List.map_nil, List.cons_append, List.nil_append,
          List.append_nil, List.append_assoc, rStructRef, rElemFlags, rPlex, rStructRefName, rXy, rEndElement] <;>
        simp only [element, skipOpt, skipStrans, expect, if_true, Option.bind_eq_bind, Option.bind_some, Nat.reduceEqDiff, if_false] <;>
        exact tailok ps []
    | some s =>
      obtain ⟨r, am, aa, mag, angle⟩ := s
      cases ef <;> cases pl <;> cases mag <;> cases angle <;>
        simp only [elemRecs, commonHead, optRec, optStrans, stransRecs, rts, List.map_append, List.map_cons, List.map_nil, List.cons_append, List.nil_append,
          List.append_nil, List.append_assoc, rStructRef, rElemFlags, rPlex, rStructRefName, rXy, rEndElement, rStrans, rMag, rAngle] <;>
        simp only [element, skipOpt, skipStrans, expect, if_true, Option.bind_eq_bind, Option.bind_some, Nat.reduceEqDiff, if_false] <;>
        exact tailok ps []
  | aref name xy cols rows st c =>
    obtain ⟨ef, pl, ps⟩ := c
    cases st with
    | none =>
      cases ef <;> cases pl <;>
        simp only [elemRecs, commonHead, optRec, optStrans, rts, List.map_append, List.map_cons, List.map_nil, List.cons_append, List.nil_append,
          List.append_nil, List.append_assoc, rArrayRef, rElemFlags, rPlex, rStructRefName, rColRow, rXy, rEndElement] <;>
        simp only [element, skipOpt, skipStrans, expect, if_true, Option.bind_eq_bind, Option.bind_some, Nat.reduceEqDiff, if_false] <;>
        exact tailok ps []
    | some s =>
      obtain ⟨r, am, aa, mag, angle⟩ := s
      cases ef <;> cases pl <;> cases mag <;> cases angle <;>
        simp only [elemRecs, commonHead, optRec, optStrans, stransRecs, rts, List.map_append, List.map_cons, List.map_nil, List.cons_append, List.nil_append,
          List.append_nil, List.append_assoc, rArrayRef, rElemFlags, rPlex, rStructRefName, rColRow, rXy, rEndElement, rStrans, rMag, rAngle] <;>
        simp only [element, skipOpt, skipStrans, expect, if_true, Option.bind_eq_bind, Option.bind_some, Nat.reduceEqDiff, if_false] <;>
        exact tailok ps []
  | text str layer tt xy pres pt width st c =>
    obtain ⟨ef, pl, ps⟩ := c
    cases st with
    | none =>
      cases ef <;> cases pl <;> cases pres <;> cases pt <;> cases width <;>
        simp only [elemRecs, commonHead, optRec, optStrans, rts, List.map_append, List.map_cons, List.map_nil, List.cons_append, List.nil_append,
          List.append_nil, List.append_assoc, rText, rElemFlags, rPlex, rLayer, rTextType, rPresentation, rPathType, rWidth, rXy, rString, rEndElement] <;>
        simp only [element, skipOpt, skipStrans, expect, if_true, Option.bind_eq_bind, Option.bind_some, Nat.reduceEqDiff, if_false] <;>
        exact tailok ps []
    | some s =>
      obtain ⟨r, am, aa, mag, angle⟩ := s
      cases ef <;> cases pl <;> cases pres <;> cases pt <;> cases width <;> cases mag <;> cases angle <;>
        simp only [elemRecs, commonHead, optRec, optStrans, stransRecs, rts, List.map_append, List.map_cons, List.map_nil, List.cons_append, List.nil_append,
          List.append_nil, List.append_assoc, rText, rElemFlags, rPlex, rLayer, rTextType, rPresentation, rPathType, rWidth, rXy, rString, rEndElement,
          rStrans, rMag, rAngle] <;>
        simp only [element, skipOpt, skipStrans, expect, if_true, Option.bind_eq_bind, Option.bind_some, Nat.reduceEqDiff, if_false] <;>
        exact tailok ps []

/-- `{<element>}* ENDSTR` -/
theorem elements_elemRecs (rest : List Nat) : ∀ (es : List Elem) (f : Nat), es.length + 1 ≤ f →
    elements f (rts (es.flatMap elemRecs) ++ 0x07 :: rest) = some rest := by
  intro es
  induction es with
  | nil =>
    intro f hf
    obtain ⟨g, rfl⟩ : ∃ g, f = g + 1 := ⟨f - 1, by simp at hf; omega⟩
    simp [rts, elements]
  | cons e r ih =>
    intro f hf
    obtain ⟨g, rfl⟩ : ∃ g, f = g + 1 := ⟨f - 1, by simp at hf; omega⟩
    simp only [List.flatMap_cons, rts_append, List.append_assoc]
    have step : elements (g + 1) (rts (elemRecs e) ++ (rts (r.flatMap elemRecs) ++ 0x07 :: rest)) =
        (match element (rts (elemRecs e) ++ (rts (r.flatMap elemRecs) ++ 0x07 :: rest)) with
         | some rest' => elements g rest'
         | none => none) := by
      rw [elemRecs_cons]
      cases e <;> simp [rts, headerRec, elements, rBoundary, rPath, rStructRef, rArrayRef, rText, rNode, rBox] <;> rfl
    rw [step, element_elemRecs]
    exact ih g (by simp at hf; omega)

theorem structures_structRecs : ∀ (ss : List Struct) (f : Nat), ss.length + 1 ≤ f →
    structures f (rts (ss.flatMap structRecs) ++ [0x04]) = true := by
  intro ss
  induction ss with
  | nil =>
    intro f hf
    obtain ⟨g, rfl⟩ : ∃ g, f = g + 1 := ⟨f - 1, by simp at hf; omega⟩
    simp [rts, structures]
  | cons s r ih =>
    intro f hf
    obtain ⟨g, rfl⟩ : ∃ g, f = g + 1 := ⟨f - 1, by simp at hf; omega⟩
    simp only [List.flatMap_cons, structRecs, rts_append, List.append_assoc]
    simp only [rts, List.map_cons, List.map_nil, List.cons_append, List.nil_append, rBgnStruct, rStructName, rEndStruct, structures]
    have := elements_elemRecs (rts (r.flatMap structRecs) ++ [0x04]) s.elems
      ((List.map (fun (x : Rec) => x.rt) (s.elems.flatMap elemRecs) ++ 7 :: (List.map (fun (x : Rec) => x.rt) (r.flatMap structRecs) ++ [4])).length.succ)
      (by have := flatMap_elemRecs_length s.elems; simp only [List.length_append, List.length_map, List.length_cons, Nat.succ_eq_add_one]; omega)
    simp only [rts] at this
    rw [this]
    have := ih g (by simp at hf; omega)
    simpa [rts] using this

/-- The sequence of record types of every library the writer emits is a sentence of the manual's BNF:
    HEADER BGNLIB LIBNAME UNITS {BGNSTR STRNAME {<element>}* ENDSTR}* ENDLIB, each `<element>` with its
    records in the manual's order. -/
theorem grammar_libRecs (l : Library) : gdsGrammar (rts (libRecs l)) = true := by
  obtain ⟨name, version, dates, units, structs⟩ := l
  have hlen : structs.length ≤ (structs.flatMap structRecs).length := by
    induction structs with
    | nil => simp
    | cons s r ih => simp only [List.flatMap_cons, List.length_append, structRecs, List.length_cons]; omega
  simp only [libRecs, rts, List.map_append, List.map_cons, List.map_nil, List.cons_append, List.nil_append, rHeader, rBgnLib, rLibName,
    rUnits, rEndLib, gdsGrammar]
  have := structures_structRecs structs ((List.map (fun (x : Rec) => x.rt) (structs.flatMap structRecs) ++ [4]).length.succ)
    (by simp only [List.length_append, List.length_map, List.length_cons, List.length_nil, Nat.succ_eq_add_one]; omega)
  simpa [rts] using this

end L21.Gds
