import L21.Proofs.GdsBytes
/-
The image of the GDSII reader model: every record `tokenize` returns is one the writer accepts
(`Good`), and every record of the library tree the parser builds was copied from such a record or is
one of a handful of synthesised ones — so every library the reader returns can be written again.
-/
namespace L21.Gds
open L21.GdsFloat

/-! ### byte level: what can be read can be written -/
def BytesOk (bs : Bytes) : Prop := ∀ b ∈ bs, b < 256

theorem beNat_lt : ∀ (bs : Bytes), BytesOk bs → beNat bs < 256 ^ bs.length := by
  intro bs h
  have gen : ∀ (l : Bytes) (acc : Nat), BytesOk l → l.foldl (fun a b => a * 256 + b) acc < (acc + 1) * 256 ^ l.length := by
    intro l
    induction l with
    | nil => intro acc _; simp
    | cons b r ih =>
      intro acc hl
      have hb : b < 256 := hl b (by simp)
      have := ih (acc * 256 + b) (fun x hx => hl x (by simp [hx]))
      simp only [List.foldl_cons, List.length_cons]
      calc _ < (acc * 256 + b + 1) * 256 ^ r.length := this
        _ ≤ ((acc + 1) * 256) * 256 ^ r.length := Nat.mul_le_mul_right _ (by omega)
        _ = (acc + 1) * 256 ^ (r.length + 1) := by rw [Nat.pow_succ]; simp [Nat.mul_assoc, Nat.mul_comm]
  have := gen bs 0 h
  simpa [beNat] using this

theorem BytesOk_take (bs : Bytes) (n : Nat) (h : BytesOk bs) : BytesOk (bs.take n) := fun b hb => h b (List.mem_of_mem_take hb)
theorem BytesOk_drop (bs : Bytes) (n : Nat) (h : BytesOk bs) : BytesOk (bs.drop n) := fun b hb => h b (List.mem_of_mem_drop hb)

theorem beInt2_range (bs : Bytes) (h : BytesOk bs) (hl : bs.length ≤ 2) : -32768 ≤ beInt 2 bs ∧ beInt 2 bs < 32768 := by
  have h1 := beNat_lt bs h
  have h2 : 256 ^ bs.length ≤ 256 ^ 2 := Nat.pow_le_pow_right (by decide) hl
  have e : (256 : Nat) ^ 2 = 65536 := by decide
  rw [e] at h2
  have hb : beInt 2 bs = if beNat bs < 32768 then (beNat bs : Int) else (beNat bs : Int) - 65536 := by unfold beInt; rfl
  rw [hb]
  split <;> omega

theorem beInt4_range (bs : Bytes) (h : BytesOk bs) (hl : bs.length ≤ 4) : -2147483648 ≤ beInt 4 bs ∧ beInt 4 bs < 2147483648 := by
  have h1 := beNat_lt bs h
  have h2 : 256 ^ bs.length ≤ 256 ^ 4 := Nat.pow_le_pow_right (by decide) hl
  have e : (256 : Nat) ^ 4 = 4294967296 := by decide
  rw [e] at h2
  have hb : beInt 4 bs = if beNat bs < 2147483648 then (beNat bs : Int) else (beNat bs : Int) - 4294967296 := by unfold beInt; rfl
  rw [hb]
  split <;> omega

theorem splitInts_length (w : Nat) : ∀ (n : Nat) (bs : Bytes), (splitInts w n bs).length = n := by
  intro n; induction n with
  | zero => intro bs; rfl
  | succ n ih => intro bs; simp [splitInts, ih]

theorem splitInts2_range : ∀ (n : Nat) (bs : Bytes), BytesOk bs → ∀ v ∈ splitInts 2 n bs, -32768 ≤ v ∧ v < 32768 := by
  intro n; induction n with
  | zero => intro bs _ v hv; simp [splitInts] at hv
  | succ n ih =>
    intro bs h v hv
    simp only [splitInts, List.mem_cons] at hv
    rcases hv with rfl | hv
    · exact beInt2_range _ (BytesOk_take bs 2 h) (by simp; omega)
    · exact ih _ (BytesOk_drop bs 2 h) v hv

theorem splitInts4_range : ∀ (n : Nat) (bs : Bytes), BytesOk bs → ∀ v ∈ splitInts 4 n bs, -2147483648 ≤ v ∧ v < 2147483648 := by
  intro n; induction n with
  | zero => intro bs _ v hv; simp [splitInts] at hv
  | succ n ih =>
    intro bs h v hv
    simp only [splitInts, List.mem_cons] at hv
    rcases hv with rfl | hv
    · exact beInt4_range _ (BytesOk_take bs 4 h) (by simp; omega)
    · exact ih _ (BytesOk_drop bs 4 h) v hv

theorem splitReals_length : ∀ (n : Nat) (bs : Bytes), (splitReals n bs).length = n := by
  intro n; induction n with
  | zero => intro bs; rfl
  | succ n ih => intro bs; simp [splitReals, ih]

theorem encReals_some : ∀ (l : List Nat), l.all (fun x => (encodeBits x).isSome) = true → ∃ bs, encReals l = some bs := by
  intro l
  induction l with
  | nil => intro _; exact ⟨[], rfl⟩
  | cons x r ih =>
    intro h
    simp only [List.all_cons, Bool.and_eq_true] at h
    obtain ⟨bs, hb⟩ := ih h.2
    cases hx : encodeBits x with
    | none => simp [hx] at h
    | some g => exact ⟨natBytes8 g ++ bs, by simp [encReals, hx, hb]⟩


def plOkNR (pk : PK) : Payload → Bool
  | .reals _ => true
  | pl => plOkB pk pl
def recOkNR (r : Rec) : Bool :=
  match lookupWrite r.rt with
  | some (_, _, pk) => plOkNR pk r.pl
  | none => true
/-- a record that the writer accepts and whose integer / flag / string fields are in range -/
def Good (r : Rec) : Prop := recOkNR r = true ∧ ∃ out, encRecord r = .ok out

def lsOk (ls : LenSpec) (lenreq : Option Nat) (pk : PK) : Bool :=
  match ls, lenreq with
  | .fixed n, some m => n == m
  | .strlen, none => pk == .str
  | .xy, none => pk == .i32vec
  | _, _ => false

theorem readStr_props (body s : Bytes) (h : readStr body = .ok s) (heven : body.length % 2 = 0) :
    validUtf8 s = true ∧ ¬ (s.length % 2 = 0 ∧ s.getLast? = some 0) ∧ s.length + s.length % 2 ≤ body.length := by
  unfold readStr at h
  by_cases hl : body.getLast? = some 0
  · simp only [hl, if_true] at h
    by_cases hv : validUtf8 body.dropLast = true
    · simp only [hv, if_true, Out.ok.injEq] at h
      subst h
      have hne : body ≠ [] := by intro e; simp [e] at hl
      have hpos : 0 < body.length := List.length_pos_iff.2 hne
      have hlen : body.dropLast.length = body.length - 1 := by simp
      refine ⟨hv, ?_, ?_⟩
      · rintro ⟨h1, _⟩; omega
      · omega
    · simp [hv] at h
  · simp only [hl, if_false] at h
    by_cases hv : validUtf8 body = true
    · simp only [hv, if_true, Out.ok.injEq] at h
      subst h
      exact ⟨hv, fun ⟨_, h2⟩ => hl h2, by omega⟩
    · simp [hv] at h


theorem decode_good (rt dt' : Nat) (ls : LenSpec) (pk : PK) (lenreq : Option Nat) (body : Bytes) (pl : Payload)
    (hw : lookupWrite rt = some (dt', ls, pk)) (hls : lsOk ls lenreq pk = true)
    (hlen : ∀ k, lenreq = some k → k = body.length)
    (hb : BytesOk body) (heven : body.length % 2 = 0) (hmax : body.length + 4 ≤ 65535)
    (hd : decodePayload pk body = .ok pl) : Good ⟨rt, pl⟩ := by
  have hlenb : payloadLen ls pl ≤ body.length ∨ (∃ n, ls = .fixed n ∧ n = body.length) := by
    cases ls with
    | fixed n =>
      cases lenreq with
      | none => simp [lsOk] at hls
      | some m => simp only [lsOk, beq_iff_eq] at hls; subst hls; exact Or.inr ⟨_, rfl, hlen _ rfl⟩
    | strlen =>
      cases lenreq with
      | some m => simp [lsOk] at hls
      | none =>
        simp only [lsOk, beq_iff_eq] at hls; subst hls
        simp only [decodePayload] at hd
        split at hd
        · rename_i s hs
          cases hd
          exact Or.inl (by simpa [payloadLen] using (readStr_props body s hs heven).2.2)
        · cases hd
    | xy =>
      cases lenreq with
      | some m => simp [lsOk] at hls
      | none =>
        simp only [lsOk, beq_iff_eq] at hls; subst hls
        simp only [decodePayload, Out.ok.injEq] at hd
        subst hd
        left
        simp only [payloadLen, splitInts_length]; omega
  have hlen' : ¬ (65535 < payloadLen ls pl + 4) := by
    rcases hlenb with h | ⟨n, rfl, rfl⟩
    · omega
    · simp only [payloadLen]; omega
  unfold Good recOkNR encRecord
  simp only [hw]
  cases pk with
  | none =>
    simp only [decodePayload, Out.ok.injEq] at hd; subst hd
    simp [plOkNR, plOkB, payloadFits, payloadBytes, hlen']
  | bits =>
    simp only [decodePayload, Out.ok.injEq] at hd; subst hd
    have h0 : body.getD 0 0 < 256 := by
      cases body with
      | nil => simp
      | cons a r => simpa using hb a (by simp)
    have h1 : body.getD 1 0 < 256 := by
      cases body with
      | nil => simp
      | cons a r =>
        cases r with
        | nil => simp
        | cons c r' => simpa using hb c (by simp)
    generalize body.getD 0 0 = a at *
    generalize body.getD 1 0 = c at *
    simp [plOkNR, plOkB, payloadFits, payloadBytes, hlen', h0, h1]
  | i16 n =>
    simp only [decodePayload, Out.ok.injEq] at hd; subst hd
    have hr := splitInts2_range n body hb
    simp only [plOkNR, plOkB, payloadFits, payloadBytes, splitInts_length, beq_self_eq_true, Bool.not_true, Bool.false_eq_true, if_false, hlen']
    refine ⟨?_, _, rfl⟩
    simp only [List.all_eq_true, Bool.and_eq_true, decide_eq_true_eq]
    exact hr
  | i32 n =>
    simp only [decodePayload, Out.ok.injEq] at hd; subst hd
    have hr := splitInts4_range n body hb
    simp only [plOkNR, plOkB, payloadFits, payloadBytes, splitInts_length, beq_self_eq_true, Bool.not_true, Bool.false_eq_true, if_false, hlen']
    refine ⟨?_, _, rfl⟩
    simp only [List.all_eq_true, Bool.and_eq_true, decide_eq_true_eq]
    exact hr
  | i32vec =>
    simp only [decodePayload, Out.ok.injEq] at hd; subst hd
    have hr := splitInts4_range (body.length / 4) body hb
    simp only [plOkNR, plOkB, payloadFits, payloadBytes, Bool.not_true, Bool.false_eq_true, if_false, hlen']
    refine ⟨?_, _, rfl⟩
    simp only [List.all_eq_true, Bool.and_eq_true, decide_eq_true_eq]
    exact hr
  | f64 n =>
    simp only [decodePayload] at hd
    split at hd
    · rename_i hall
      cases hd
      obtain ⟨bs, hbs⟩ := encReals_some _ hall
      simp [plOkNR, payloadFits, payloadBytes, splitReals_length, hlen', hbs]
    · cases hd
  | str =>
    simp only [decodePayload] at hd
    split at hd
    · rename_i s hs
      cases hd
      obtain ⟨h1, h2, _⟩ := readStr_props body s hs heven
      simp [plOkNR, plOkB, payloadFits, payloadBytes, hlen', h1, h2]
    · cases hd

def readRowGood (row : Nat × Nat × Option Nat × PK) : Bool :=
  match lookupWrite row.1 with
  | some (_, ls, pk) => pk == row.2.2.2 && lsOk ls row.2.2.1 pk
  | none => false

/-- every row of the regenerated read table has a row of the regenerated write table with the same
    payload layout and a compatible length rule: what can be read can be written -/
theorem read_rows_writable : Gen.gdsReadTable.all readRowGood = true := by decide

theorem readRecord_good (bs : Bytes) (r : Rec) (rest : Bytes) (hb : BytesOk bs) (h : readRecord bs = .ok (r, rest)) :
    Good r ∧ BytesOk rest := by
  match bs, hb, h with
  | [], _, h => simp [readRecord] at h
  | [_], _, h => simp [readRecord] at h
  | [_, _], _, h => simp [readRecord] at h
  | [_, _, _], _, h => simp [readRecord] at h
  | l0 :: l1 :: rt :: dt :: rest3, hb, h =>
    have h0 : l0 < 256 := hb l0 (by simp)
    have h1 : l1 < 256 := hb l1 (by simp)
    have hb3 : BytesOk rest3 := fun b hx => hb b (by simp [hx])
    simp only [readRecord] at h
    split at h
    · cases h
    split at h
    · cases h
    rename_i hlen4 hev
    split at h
    · cases h
    split at h
    · cases h
    split at h
    · cases h
    split at h
    · cases h
    rename_i row hrow
    split at h
    · cases h
    rename_i hlen
    split at h
    · rename_i pl hd
      cases h
      have hmem := List.mem_of_find?_eq_some hrow
      have hmatch := List.find?_some hrow
      have hgood := List.all_eq_true.1 read_rows_writable row hmem
      obtain ⟨rrt, rdt, rlen, rpk⟩ := row
      simp only [readRowMatches, Bool.and_eq_true, beq_iff_eq] at hmatch
      obtain ⟨e1, e2, e3⟩ := hmatch
      simp only at e1 e2 e3 hd
      subst e1
      simp only [readRowGood] at hgood
      cases hw : lookupWrite rrt with
      | none => simp [hw] at hgood
      | some w =>
        obtain ⟨dt', ls, pk⟩ := w
        simp only [hw, Bool.and_eq_true, beq_iff_eq] at hgood
        obtain ⟨e4, hls⟩ := hgood
        subst e4
        have hbl : (rest3.take (l0 * 256 + l1 - 4)).length = l0 * 256 + l1 - 4 := by
          simp only [List.length_take]; omega
        refine ⟨decode_good rrt dt' ls pk rlen _ pl hw hls ?_ (BytesOk_take _ _ hb3) ?_ ?_ hd, BytesOk_drop _ _ hb3⟩
        · intro k hk
          subst hk
          simp only [beq_iff_eq] at e3
          rw [hbl]; exact e3
        · rw [hbl]; omega
        · rw [hbl]; omega
    · cases h

theorem tokenize_good : ∀ (f : Nat) (bs : Bytes) (recs : List Rec), BytesOk bs → tokenize f bs = .ok recs → ∀ r ∈ recs, Good r := by
  intro f
  induction f with
  | zero => intro bs recs _ h; simp [tokenize] at h
  | succ f ih =>
    intro bs recs hb h
    rw [tokenize] at h
    split at h
    · cases h
    · rename_i r rest hr
      obtain ⟨hg, hrest⟩ := readRecord_good bs r rest hb hr
      split at h
      · cases h; intro x hx; simp at hx; subst hx; exact hg
      · split at h
        · rename_i rs hrs
          cases h
          intro x hx
          rcases List.mem_cons.1 hx with rfl | hx
          · exact hg
          · exact ih _ _ hrest hrs x hx
        · cases h

/-! ### tree level: provenance of the records of the parsed library -/
section tree
variable (P : Rec → Prop)

/-- every field of the element builder that is set was read from a record satisfying `P` -/
def BInv (k : EK) (b : B) : Prop :=
  (∀ v, b.layer = some v → P ⟨13, .ints [v]⟩) ∧
  (∀ v, b.xtype = some v → P ⟨xtypeRec k, .ints [v]⟩) ∧
  (∀ l, b.xy = some l → P ⟨16, .ints l⟩) ∧
  (∀ v, b.width = some v → P ⟨15, .ints [v]⟩) ∧
  (∀ v, b.pathType = some v → P ⟨33, .ints [v]⟩) ∧
  (∀ v, b.beginExtn = some v → P ⟨48, .ints [v]⟩) ∧
  (∀ v, b.endExtn = some v → P ⟨49, .ints [v]⟩) ∧
  (∀ n, b.name = some n → P ⟨18, .str n⟩) ∧
  (∀ s, b.string = some s → P ⟨25, .str s⟩) ∧
  (∀ a c, b.presentation = some (a, c) → P ⟨23, .bits a c⟩) ∧
  (∀ s, b.strans = some s → (∀ m, s.mag = some m → P ⟨27, .reals [m]⟩) ∧ (∀ a, s.angle = some a → P ⟨28, .reals [a]⟩)) ∧
  (∀ cs rs, b.cols = some cs → b.rows = some rs → P ⟨19, .ints [cs, rs]⟩) ∧
  (∀ a c, b.elflags = some (a, c) → P ⟨38, .bits a c⟩) ∧
  (∀ v, b.plex = some v → P ⟨47, .ints [v]⟩) ∧
  (∀ p ∈ b.props, P ⟨43, .ints [p.attr]⟩ ∧ P ⟨44, .str p.value⟩)

theorem parseStransTail_inv : ∀ (rs : List Rec) (s : Strans), (∀ r ∈ rs, P r) →
    ((∀ m, s.mag = some m → P ⟨27, .reals [m]⟩) ∧ (∀ a, s.angle = some a → P ⟨28, .reals [a]⟩)) →
    ((∀ m, (parseStransTail s rs).1.mag = some m → P ⟨27, .reals [m]⟩) ∧ (∀ a, (parseStransTail s rs).1.angle = some a → P ⟨28, .reals [a]⟩)) ∧
    (∀ r ∈ (parseStransTail s rs).2, P r) := by
  intro rs
  induction rs with
  | nil => intro s h hs; simp [parseStransTail]; exact hs
  | cons r rest ih =>
    intro s h hs
    unfold parseStransTail
    split
    · rename_i m rest' heq
      cases heq
      exact ih _ (fun r hr => h r (by simp [hr])) ⟨fun m' hm => by cases hm; exact h _ (by simp), hs.2⟩
    · rename_i a rest' heq
      cases heq
      exact ih _ (fun r hr => h r (by simp [hr])) ⟨hs.1, fun a' ha => by cases ha; exact h _ (by simp)⟩
    · exact ⟨hs, h⟩

def AllP (l : List Rec) : Prop := ∀ r ∈ l, P r
theorem AllP_nil : AllP P [] := by intro r hr; cases hr
theorem AllP_cons (r : Rec) (l : List Rec) : AllP P (r :: l) ↔ P r ∧ AllP P l := by
  simp [AllP]
theorem AllP_append (l1 l2 : List Rec) : AllP P (l1 ++ l2) ↔ AllP P l1 ∧ AllP P l2 := by
  simp only [AllP, List.mem_append]
  constructor
  · intro h; exact ⟨fun r hr => h r (Or.inl hr), fun r hr => h r (Or.inr hr)⟩
  · rintro ⟨h1, h2⟩ r (hr | hr); exact h1 r hr; exact h2 r hr
theorem AllP_optRec {α : Type} (rt : Nat) (mk : α → Payload) (o : Option α) (h : ∀ a, o = some a → P ⟨rt, mk a⟩) : AllP P (optRec rt mk o) := by
  cases o with
  | none => exact AllP_nil P
  | some a => intro r hr; simp [optRec] at hr; subst hr; exact h a rfl

/-- the records the writer synthesises rather than copies from the input -/
def Synth : Prop :=
  (∀ rt ∈ [4, 7, 8, 9, 10, 11, 12, 17, 21, 45], P ⟨rt, .none⟩) ∧ (∀ a b, a < 256 → b < 256 → P ⟨26, .bits a b⟩)

theorem AllP_propRecs (ps : List Property) (h : ∀ p ∈ ps, P ⟨43, .ints [p.attr]⟩ ∧ P ⟨44, .str p.value⟩) : AllP P (propRecs ps) := by
  intro r hr
  simp only [propRecs, List.mem_flatMap, List.mem_cons, List.not_mem_nil, or_false] at hr
  obtain ⟨p, hp, rfl | rfl⟩ := hr
  · exact (h p hp).1
  · exact (h p hp).2

theorem AllP_optStrans (hsyn : Synth P) (st : Option Strans)
    (h : ∀ s, st = some s → (∀ m, s.mag = some m → P ⟨27, .reals [m]⟩) ∧ (∀ a, s.angle = some a → P ⟨28, .reals [a]⟩)) :
    AllP P (optStrans st) := by
  cases st with
  | none => exact AllP_nil P
  | some s =>
    obtain ⟨h1, h2⟩ := h s rfl
    simp only [optStrans, stransRecs, AllP_append, AllP_cons]
    refine ⟨⟨⟨hsyn.2 _ _ (by split <;> omega) (by split <;> split <;> omega), AllP_nil P⟩, AllP_optRec P _ _ _ h1⟩, AllP_optRec P _ _ _ h2⟩

theorem build_inv (hsyn : Synth P) (k : EK) (b : B) (e : Elem) (hb : BInv P k b) (h : build k b = .ok e) : AllP P (elemRecs e) := by
  obtain ⟨i1, i2, i3, i4, i5, i6, i7, i8, i9, i10, i11, i12, i13, i14, i15⟩ := hb
  have hc : AllP P (commonHead ⟨b.elflags, b.plex, b.props⟩) := by
    simp only [commonHead, AllP_append]
    exact ⟨AllP_optRec P _ _ _ (fun a ha => i13 a.1 a.2 ha), AllP_optRec P _ _ _ i14⟩
  have hp := AllP_propRecs P b.props i15
  have hst := AllP_optStrans P hsyn b.strans i11
  have hn : ∀ rt ∈ [4, 7, 8, 9, 10, 11, 12, 17, 21, 45], P ⟨rt, .none⟩ := hsyn.1
  cases k <;> simp only [build] at h <;> split at h <;> (try (cases h; done)) <;> cases h <;>
    simp only [elemRecs, AllP_append, AllP_cons] <;> simp only [xtypeRec] at i2
  all_goals and_intros
  all_goals first
    | exact AllP_nil P | exact hc | exact hp | exact hst | exact hn _ (by decide)
    | exact i1 _ ‹_› | exact i2 _ ‹_› | exact i3 _ ‹_› | exact i8 _ ‹_› | exact i9 _ ‹_› | exact i12 _ _ ‹_› ‹_›
    | exact AllP_optRec P _ _ _ i4 | exact AllP_optRec P _ _ _ i5 | exact AllP_optRec P _ _ _ i6 | exact AllP_optRec P _ _ _ i7
    | exact AllP_optRec P _ _ _ (fun a ha => i10 a.1 a.2 ha)

/-- `BInv` survives setting one builder field from a record satisfying `P` -/
macro "binv_upd" hb:ident : tactic => `(tactic| (
  obtain ⟨i1, i2, i3, i4, i5, i6, i7, i8, i9, i10, i11, i12, i13, i14, i15⟩ := $hb:ident
  refine ⟨?_, ?_, ?_, ?_, ?_, ?_, ?_, ?_, ?_, ?_, ?_, ?_, ?_, ?_, ?_⟩ <;> first
    | exact i1 | exact i2 | exact i3 | exact i4 | exact i5 | exact i6 | exact i7 | exact i8 | exact i9 | exact i10
    | exact i11 | exact i12 | exact i13 | exact i14 | exact i15
    | (intro v hv; cases hv; assumption)
    | (intro v hv; cases hv; simp_all; done)
    | (intro a c hv; cases hv; assumption)
    | (intro cs rs h1 h2; cases h1; cases h2; assumption)
    | (intro s hs; cases hs; assumption)))

theorem strans_start (xs : List Rec) (d0 d1 : Nat) (hxs : AllP P xs) :
    ((∀ m, (parseStransTail (mkStrans d0 d1) xs).1.mag = some m → P ⟨27, .reals [m]⟩) ∧
     (∀ a, (parseStransTail (mkStrans d0 d1) xs).1.angle = some a → P ⟨28, .reals [a]⟩)) ∧
    AllP P (parseStransTail (mkStrans d0 d1) xs).2 :=
  parseStransTail_inv P xs (mkStrans d0 d1) hxs ⟨fun m hm => by simp [mkStrans] at hm, fun a ha => by simp [mkStrans] at ha⟩

theorem parseElem_inv (hsyn : Synth P) (k : EK) : ∀ (f : Nat) (b : B) (rs : List Rec) (e : Elem) (rest : List Rec),
    parseElem k f b rs = .ok (e, rest) → AllP P rs → BInv P k b → AllP P (elemRecs e) ∧ AllP P rest := by
  intro f
  induction f with
  | zero => intro b rs e rest h; simp [parseElem] at h
  | succ f ih =>
    intro b rs e rest h hrs hb
    cases rs with
    | nil => simp [parseElem] at h
    | cons x xs =>
      have hx : P x := hrs x (by simp)
      have hxs : AllP P xs := fun r hr => hrs r (by simp [hr])
      unfold parseElem at h
      split at h <;> dsimp only at h
      all_goals (try (cases h; done))
      all_goals (try (split at h))
      all_goals (try (cases h; done))
      all_goals (try (exact ih _ _ _ _ h hxs (by binv_upd hb)))
      · rename_i hbuild
        cases h
        exact ⟨build_inv P hsyn k b _ hb hbuild, hxs⟩
      · refine ih _ _ _ _ h (fun r hr => hxs r (by simp [hr])) ?_
        obtain ⟨i1, i2, i3, i4, i5, i6, i7, i8, i9, i10, i11, i12, i13, i14, i15⟩ := hb
        refine ⟨i1, i2, i3, i4, i5, i6, i7, i8, i9, i10, i11, i12, i13, i14, ?_⟩
        intro p hp
        rcases List.mem_append.1 hp with h1 | h1
        · exact i15 p h1
        · simp only [List.mem_singleton] at h1; subst h1; exact ⟨hx, hxs _ (by simp)⟩
      · split at h
        · refine ih _ _ _ _ h (strans_start P xs _ _ hxs).2 ?_
          obtain ⟨i1, i2, i3, i4, i5, i6, i7, i8, i9, i10, i11, i12, i13, i14, i15⟩ := hb
          exact ⟨i1, i2, i3, i4, i5, i6, i7, i8, i9, i10, fun s hs => by cases hs; exact (strans_start P xs _ _ hxs).1, i12, i13, i14, i15⟩
        · cases h

theorem BInv_empty (k : EK) : BInv P k {} := by
  refine ⟨?_, ?_, ?_, ?_, ?_, ?_, ?_, ?_, ?_, ?_, ?_, ?_, ?_, ?_, ?_⟩ <;> intros <;> simp_all

theorem AllP_flatMap_append (es : List Elem) (e : Elem) (h1 : AllP P (es.flatMap elemRecs)) (h2 : AllP P (elemRecs e)) :
    AllP P ((es ++ [e]).flatMap elemRecs) := by
  simp only [List.flatMap_append, List.flatMap_cons, List.flatMap_nil, List.append_nil, AllP_append]
  exact ⟨h1, h2⟩

theorem parseElems_inv (hsyn : Synth P) : ∀ (f : Nat) (acc : List Elem) (rs : List Rec) (es : List Elem) (rest : List Rec),
    parseElems f acc rs = .ok (es, rest) → AllP P rs → AllP P (acc.flatMap elemRecs) → AllP P (es.flatMap elemRecs) ∧ AllP P rest := by
  intro f
  induction f with
  | zero => intro acc rs es rest h; simp [parseElems] at h
  | succ f ih =>
    intro acc rs es rest h hrs hacc
    cases rs with
    | nil => simp [parseElems] at h
    | cons x xs =>
      have hxs : AllP P xs := fun r hr => hrs r (by simp [hr])
      unfold parseElems at h
      split at h
      · cases h; exact ⟨hacc, hxs⟩
      · split at h
        · cases h
        · rename_i k hk
          split at h
          · cases h
          · rename_i e rest' he
            obtain ⟨h1, h2⟩ := parseElem_inv P hsyn k _ _ _ _ _ he hxs (BInv_empty P k)
            split at h
            · exact ih _ _ _ _ h h2 (AllP_flatMap_append P acc e hacc h1)
            · cases h

/-- invariant of the library builder -/
def LBInv (lb : LB) : Prop :=
  (∀ n, lb.name = some n → P ⟨2, .str n⟩) ∧ (∀ u, lb.units = some u → P ⟨3, .reals [u.1, u.2]⟩) ∧
  AllP P (lb.structs.flatMap structRecs)

theorem parseLibBody_inv (hsyn : Synth P) (v : Int) (d : List Int) (hv : P ⟨0, .ints [v]⟩) (hd : P ⟨1, .ints d⟩) :
    ∀ (f : Nat) (lb : LB) (rs : List Rec) (l : Library),
    parseLibBody v d f lb rs = .ok l → AllP P rs → LBInv P lb → AllP P (libRecs l) := by
  intro f
  induction f with
  | zero => intro lb rs l h; simp [parseLibBody] at h
  | succ f ih =>
    intro lb rs l h hrs hlb
    cases rs with
    | nil => simp [parseLibBody] at h
    | cons x xs =>
      have hx : P x := hrs x (by simp)
      have hxs : AllP P xs := fun r hr => hrs r (by simp [hr])
      obtain ⟨l1, l2, l3⟩ := hlb
      unfold parseLibBody at h
      split at h <;> (try dsimp only at h)
      · split at h
        · rename_i n u hn hu
          cases h
          simp only [libRecs, AllP_append, AllP_cons]
          exact ⟨⟨⟨hv, hd, l1 n hn, l2 u hu, AllP_nil P⟩, l3⟩, hsyn.1 4 (by decide), AllP_nil P⟩
        · cases h
      · exact ih _ _ _ h hxs ⟨fun n hn => by cases hn; exact hx, l2, l3⟩
      · exact ih _ _ _ h hxs ⟨l1, fun u hu => by cases hu; exact hx, l3⟩
      · split at h
        · rename_i sname rest1
          split at h
          · cases h
          · rename_i elems rest2 hes
            have hr1 : AllP P rest1 := fun r hr => hxs r (by simp [hr])
            obtain ⟨h1, h2⟩ := parseElems_inv P hsyn _ _ _ _ _ hes hr1 (by simp [AllP])
            split at h
            · refine ih _ _ _ h h2 ⟨l1, l2, ?_⟩
              simp only [List.flatMap_append, List.flatMap_cons, List.flatMap_nil, List.append_nil, AllP_append, structRecs, AllP_cons]
              exact ⟨l3, ⟨⟨hx, hxs _ (List.mem_cons_self), AllP_nil P⟩, h1⟩, hsyn.1 7 (by decide), AllP_nil P⟩
            · cases h
        · cases h
      · cases h

theorem parseLib_inv (hsyn : Synth P) (recs : List Rec) (l : Library) (h : parseLib recs = .ok l) (hall : AllP P recs) :
    AllP P (libRecs l) := by
  unfold parseLib at h
  split at h
  · rename_i v dates rest
    exact parseLibBody_inv P hsyn v dates (hall _ (by simp)) (hall _ (by simp)) _ _ _ _ h
      (fun r hr => hall r (by simp [hr])) (by
        refine ⟨?_, ?_, ?_⟩
        · intro n hn; cases hn
        · intro u hu; cases hu
        · simp [AllP])
  · cases h

end tree

/-! ### shape of the coordinate lists -/
theorem build_xy (k : EK) (b : B) (e : Elem) (hxy : ∀ l, b.xy = some l → xyOk k l = true) (h : build k b = .ok e) : elemOk e = true := by
  cases k <;> simp only [build] at h <;> split at h <;> (try (cases h; done)) <;> cases h <;> simp only [elemOk] <;> exact hxy _ ‹_›

theorem parseElem_xy (k : EK) : ∀ (f : Nat) (b : B) (rs : List Rec) (e : Elem) (rest : List Rec),
    parseElem k f b rs = .ok (e, rest) → (∀ l, b.xy = some l → xyOk k l = true) → elemOk e = true := by
  intro f
  induction f with
  | zero => intro b rs e rest h; simp [parseElem] at h
  | succ f ih =>
    intro b rs e rest h hxy
    cases rs with
    | nil => simp [parseElem] at h
    | cons x xs =>
      unfold parseElem at h
      split at h <;> dsimp only at h
      all_goals (try (cases h; done))
      all_goals (try (split at h))
      all_goals (try (cases h; done))
      all_goals (try (exact ih _ _ _ _ h hxy))
      · rename_i hbuild; cases h; exact build_xy k b _ hxy hbuild
      · rename_i hc; exact ih _ _ _ _ h (fun l hl => by cases hl; exact hc)
      · split at h
        · exact ih _ _ _ _ h hxy
        · cases h

theorem parseElems_ok : ∀ (f : Nat) (acc : List Elem) (rs : List Rec) (es : List Elem) (rest : List Rec),
    parseElems f acc rs = .ok (es, rest) → acc.all elemOk = true → es.all elemOk = true := by
  intro f
  induction f with
  | zero => intro acc rs es rest h; simp [parseElems] at h
  | succ f ih =>
    intro acc rs es rest h hacc
    cases rs with
    | nil => simp [parseElems] at h
    | cons x xs =>
      unfold parseElems at h
      split at h
      · cases h; exact hacc
      · split at h
        · cases h
        · rename_i k hk
          split at h
          · cases h
          · rename_i e rest' he
            have := parseElem_xy k _ _ _ _ _ he (by intro l hl; cases hl)
            split at h
            · exact ih _ _ _ _ h (by simp [hacc, this])
            · cases h

theorem parseLibBody_ok (v : Int) (d : List Int) : ∀ (f : Nat) (lb : LB) (rs : List Rec) (l : Library),
    parseLibBody v d f lb rs = .ok l → lb.structs.all structOk = true → libOk l = true := by
  intro f
  induction f with
  | zero => intro lb rs l h; simp [parseLibBody] at h
  | succ f ih =>
    intro lb rs l h hlb
    cases rs with
    | nil => simp [parseLibBody] at h
    | cons x xs =>
      unfold parseLibBody at h
      split at h <;> (try dsimp only at h)
      · split at h
        · cases h; exact hlb
        · cases h
      · exact ih _ _ _ h hlb
      · exact ih _ _ _ h hlb
      · split at h
        · split at h
          · cases h
          · rename_i elems rest2 hes
            have := parseElems_ok _ _ _ _ _ hes (by rfl)
            split at h
            · exact ih _ _ _ h (by simp [hlb, structOk, this])
            · cases h
        · cases h
      · cases h

theorem parseLib_ok (recs : List Rec) (l : Library) (h : parseLib recs = .ok l) : libOk l = true := by
  unfold parseLib at h
  split at h
  · exact parseLibBody_ok _ _ _ _ _ _ h (by rfl)
  · cases h

/-! ### every library the reader returns can be written -/
theorem good_synth : Synth Good := by
  refine ⟨?_, ?_⟩
  · intro rt hrt
    simp only [List.mem_cons, List.mem_singleton, List.not_mem_nil, or_false] at hrt
    rcases hrt with rfl | rfl | rfl | rfl | rfl | rfl | rfl | rfl | rfl | rfl <;> exact ⟨by decide, _, rfl⟩
  · intro a b ha hb
    refine ⟨?_, ?_⟩
    · simp [recOkNR, show lookupWrite 26 = some (1, .fixed 2, .bits) by decide, plOkNR, plOkB, ha, hb]
    · exact ⟨[0, 6, 26, 1, a, b], by simp [encRecord, show lookupWrite 26 = some (1, .fixed 2, .bits) by decide, payloadFits, payloadLen, payloadBytes]⟩

theorem encRecords_ok : ∀ (rs : List Rec), (∀ r ∈ rs, ∃ out, encRecord r = .ok out) → ∃ bs, encRecords rs = .ok bs := by
  intro rs
  induction rs with
  | nil => intro _; exact ⟨[], rfl⟩
  | cons r rest ih =>
    intro h
    obtain ⟨a, ha⟩ := h r (by simp)
    obtain ⟨b, hb⟩ := ih (fun x hx => h x (by simp [hx]))
    exact ⟨a ++ b, by simp [encRecords, ha, hb]⟩

/-- the real-number part of `recOkB`: finite doubles inside the GDSII range (or zero) -/
def realsOkB (r : Rec) : Bool :=
  match r.pl with
  | .reals l => l.all fun x => decide (x < 2 ^ 64) && inRangeB x
  | _ => true

theorem recOkB_of_parts (r : Rec) (h1 : recOkNR r = true) (h2 : realsOkB r = true) : recOkB r = true := by
  unfold recOkNR at h1
  unfold recOkB
  cases hl : lookupWrite r.rt with
  | none => rfl
  | some w =>
    obtain ⟨dt, ls, pk⟩ := w
    simp only [hl] at h1 ⊢
    cases hp : r.pl with
    | reals l => simpa [realsOkB, hp, plOkB] using h2
    | none => simpa [hp, plOkNR] using h1
    | bits a b => simpa [hp, plOkNR] using h1
    | ints l => simpa [hp, plOkNR] using h1
    | str s => simpa [hp, plOkNR] using h1

theorem dec_image (bs : Bytes) (l : Library) (hb : BytesOk bs) (h : dec bs = .ok l) :
    libOk l = true ∧ (∀ r ∈ libRecs l, Good r) := by
  unfold dec at h
  split at h
  · cases h
  · rename_i recs ht
    exact ⟨parseLib_ok recs l h, parseLib_inv Good good_synth recs l h (tokenize_good _ bs recs hb ht)⟩

end L21.Gds
