import L21.Proofs.DepComplete
/-
C17: the cycle behind an error is reachable from the listed items (so "error ⇔ a cycle is
reachable from what was listed").
-/
namespace L21.Dep

variable (adj : Nat → List Nat) (S : Nat → Prop)

/-- a cycle that some root (listed item) reaches -/
def ReachableCycle : Prop := ∃ i, S i ∧ ∃ y d, Reach adj i y ∧ d ∈ adj y ∧ Reach adj d y

def FromRoots (z : Nat) : Prop := ∃ i, S i ∧ Reach adj i z

def RCycPush (f : Nat) : Prop :=
  ∀ x stack P, push adj f x stack P = .cycle → Chain adj P → Linked adj P [x] → FromRoots adj S x → ReachableCycle adj S
def RCycAll (f : Nat) : Prop :=
  ∀ xs stack P, pushAll adj f xs stack P = .cycle → Chain adj P → Linked adj P xs → (∀ x ∈ xs, FromRoots adj S x) → ReachableCycle adj S

theorem rcycAll_of_push (f : Nat) (hp : RCycPush adj S f) : RCycAll adj S f := by
  intro xs
  induction xs with
  | nil => intro stack P h; simp [pushAll] at h
  | cons y ys ih =>
    intro stack P h hc hl hr
    have hly : Linked adj P [y] := by
      cases P with
      | nil => trivial
      | cons a rest => intro x hx; simp at hx; subst hx; exact hl x (by simp)
    have hlys : Linked adj P ys := by
      cases P with
      | nil => trivial
      | cons a rest => intro x hx; exact hl x (List.mem_cons_of_mem _ hx)
    rw [pushAll] at h
    cases hpy : push adj f y stack P with
    | ok st1 => rw [hpy] at h; exact ih st1 P h hc hlys (fun x hx => hr x (List.mem_cons_of_mem _ hx))
    | cycle => exact hp y stack P hpy hc hly (hr y (by simp))
    | fuel => rw [hpy] at h; simp at h

theorem rcyc (f : Nat) : RCycPush adj S f ∧ RCycAll adj S f := by
  induction f with
  | zero =>
    have hp : RCycPush adj S 0 := by intro x stack P h; simp [push] at h
    exact ⟨hp, rcycAll_of_push adj S 0 hp⟩
  | succ f ih =>
    have hp : RCycPush adj S (f + 1) := by
      intro x stack P h hc hl hroot
      rw [push] at h
      by_cases h1 : x ∈ stack
      · simp [h1] at h
      · by_cases h2 : x ∈ P
        · cases P with
          | nil => simp at h2
          | cons hd rest =>
            have hx : x ∈ adj hd := hl x (by simp)
            have r := hc.reach_head hd rest rfl x h2
            obtain ⟨i, hi, ri⟩ := hroot
            exact ⟨i, hi, hd, x, ri.trans r, hx, r⟩
        · simp only [h1, h2, if_false] at h
          cases hpa : pushAll adj f (adj x) stack (x :: P) with
          | ok st => rw [hpa] at h; simp at h
          | cycle =>
            refine ih.2 (adj x) stack (x :: P) hpa (chain_cons hc hl) (by intro d hd; exact hd) ?_
            intro d hd
            obtain ⟨i, hi, ri⟩ := hroot
            exact ⟨i, hi, ri.trans (Reach.step hd (Reach.refl _))⟩
          | fuel => rw [hpa] at h; simp at h
    exact ⟨hp, rcycAll_of_push adj S (f + 1) hp⟩

/-- an error is reported only if a cycle is reachable from the listed items -/
theorem order_cycle_reachable (fuel : Nat) (items : List Nat) (h : order adj fuel items = .cycle) :
    ∃ i ∈ items, ∃ x, Reach adj i x ∧ ∃ d ∈ adj x, Reach adj d x := by
  obtain ⟨i, hi, y, d, r1, hd, r2⟩ := (rcyc adj (· ∈ items) fuel).2 items [] [] h Chain.nil trivial
    (fun x hx => ⟨x, hx, Reach.refl x⟩)
  exact ⟨i, hi, y, r1, d, hd, r2⟩

end L21.Dep
