import L21.Proofs.GeomCol
/-
C13 — the four-point polygon `Rect::to_poly` builds: winding number and boundary of a normalised
axis-parallel rectangle.
-/
namespace L21.Geom

def rectPoly (p0 p1 : Pt) : List Pt := [p0, ⟨p1.x, p0.y⟩, p1, ⟨p0.x, p1.y⟩]

theorem mul_pos_iff_of_pos (c u : Int) (hc : 0 < c) : (0 < c * u ↔ 0 < u) := by
  constructor
  · intro h; by_contra hu
    have : c * u ≤ 0 := Int.mul_nonpos_of_nonneg_of_nonpos (by omega) (by omega)
    omega
  · intro h; exact Int.mul_pos hc h
theorem mul_neg_iff_of_pos (c u : Int) (hc : 0 < c) : (c * u < 0 ↔ u < 0) := by
  constructor
  · intro h; by_contra hu
    have : 0 ≤ c * u := Int.mul_nonneg (by omega) (by omega)
    omega
  · intro h; exact Int.mul_neg_of_pos_of_neg hc h

/-- normalised rectangle (x0 ≤ x1, y0 ≤ y1): winding number of its 4-gon -/
theorem wn_rectPoly (x0 y0 x1 y1 : Int) (p : Pt) (hx : x0 ≤ x1) (hy : y0 ≤ y1) :
    wn (rectPoly ⟨x0, y0⟩ ⟨x1, y1⟩) p = if y0 ≤ p.y ∧ p.y < y1 ∧ x0 ≤ p.x ∧ p.x < x1 then 1 else 0 := by
  have e : edges (rectPoly ⟨x0, y0⟩ ⟨x1, y1⟩) =
      [(⟨x0, y0⟩, ⟨x1, y0⟩), (⟨x1, y0⟩, ⟨x1, y1⟩), (⟨x1, y1⟩, ⟨x0, y1⟩), (⟨x0, y1⟩, ⟨x0, y0⟩)] := rfl
  rw [wn_eq, e]
  simp only [wnE, List.map_cons, List.map_nil, List.sum_cons, List.sum_nil]
  have h1 : edgeW ⟨x0, y0⟩ ⟨x1, y0⟩ p = 0 := edgeW_zero _ _ _ (by simp) (by simp)
  have h3 : edgeW ⟨x1, y1⟩ ⟨x0, y1⟩ p = 0 := edgeW_zero _ _ _ (by simp) (by simp)
  rw [h1, h3]
  by_cases hin : y0 ≤ p.y ∧ p.y < y1
  · have hpos : 0 < y1 - y0 := by omega
    have c2 : cross ⟨x1, y0⟩ ⟨x1, y1⟩ p = (y1 - y0) * (x1 - p.x) := by unfold cross; ring
    have c4 : cross ⟨x0, y1⟩ ⟨x0, y0⟩ p = (y1 - y0) * (p.x - x0) := by unfold cross; ring
    have h2 : edgeW ⟨x1, y0⟩ ⟨x1, y1⟩ p = if p.x < x1 then 1 else 0 := by
      rw [edgeW_up _ _ _ (by simpa using hin), c2]
      have := mul_pos_iff_of_pos (y1 - y0) (x1 - p.x) hpos
      by_cases hq : p.x < x1
      · simp [hq, this.2 (by omega)]
      · have : ¬ 0 < (y1 - y0) * (x1 - p.x) := fun h => hq (by have := this.1 h; omega)
        simp [hq, this]
    have h4 : edgeW ⟨x0, y1⟩ ⟨x0, y0⟩ p = if p.x < x0 then -1 else 0 := by
      unfold edgeW
      have n1 : ¬ ((⟨x0, y1⟩ : Pt).y ≤ p.y ∧ p.y < (⟨x0, y0⟩ : Pt).y) := by simp; omega
      have n2 : (⟨x0, y0⟩ : Pt).y ≤ p.y ∧ p.y < (⟨x0, y1⟩ : Pt).y := by simpa using hin
      rw [if_neg n1, if_pos n2, c4]
      have := mul_neg_iff_of_pos (y1 - y0) (p.x - x0) hpos
      by_cases hq : p.x < x0
      · simp [hq, this.2 (by omega)]
      · have : ¬ (y1 - y0) * (p.x - x0) < 0 := fun h => hq (by have := this.1 h; omega)
        simp [hq, this]
    rw [h2, h4]
    by_cases a : p.x < x1 <;> by_cases b : p.x < x0 <;> simp [a, b, hin] <;> omega
  · have h2 : edgeW ⟨x1, y0⟩ ⟨x1, y1⟩ p = 0 := edgeW_zero _ _ _ (by simpa using hin) (by simp; omega)
    have h4 : edgeW ⟨x0, y1⟩ ⟨x0, y0⟩ p = 0 := edgeW_zero _ _ _ (by simp; omega) (by simpa using hin)
    rw [h2, h4]
    have : ¬ (y0 ≤ p.y ∧ p.y < y1 ∧ x0 ≤ p.x ∧ p.x < x1) := fun h => hin ⟨h.1, h.2.1⟩
    simp [this]


theorem onSeg_horiz (a b y : Int) (p : Pt) : onSeg ⟨a, y⟩ ⟨b, y⟩ p = true ↔ p.y = y ∧ min a b ≤ p.x ∧ p.x ≤ max a b := by
  rw [onSeg_iff]
  simp only [cross, min_self, max_self]
  constructor
  · rintro ⟨_, h1, h2, h3, h4⟩; exact ⟨by omega, h1, h2⟩
  · rintro ⟨h0, h1, h2⟩; subst h0; exact ⟨by ring, h1, h2, by omega, by omega⟩
theorem onSeg_vert (x a b : Int) (p : Pt) : onSeg ⟨x, a⟩ ⟨x, b⟩ p = true ↔ p.x = x ∧ min a b ≤ p.y ∧ p.y ≤ max a b := by
  rw [onSeg_iff]
  simp only [cross, min_self, max_self]
  constructor
  · rintro ⟨_, h1, h2, h3, h4⟩; exact ⟨by omega, h3, h4⟩
  · rintro ⟨h0, h1, h2⟩; subst h0; exact ⟨by ring, by omega, by omega, h1, h2⟩

/-- the 4-gon of a normalised rectangle covers exactly the closed box -/
theorem InClosed_rectPoly_norm (x0 y0 x1 y1 : Int) (p : Pt) (hx : x0 ≤ x1) (hy : y0 ≤ y1) :
    InClosed (rectPoly ⟨x0, y0⟩ ⟨x1, y1⟩) p ↔ (x0 ≤ p.x ∧ p.x ≤ x1 ∧ y0 ≤ p.y ∧ p.y ≤ y1) := by
  have e : edges (rectPoly ⟨x0, y0⟩ ⟨x1, y1⟩) =
      [(⟨x0, y0⟩, ⟨x1, y0⟩), (⟨x1, y0⟩, ⟨x1, y1⟩), (⟨x1, y1⟩, ⟨x0, y1⟩), (⟨x0, y1⟩, ⟨x0, y0⟩)] := rfl
  have hb : onBoundary (rectPoly ⟨x0, y0⟩ ⟨x1, y1⟩) p = true ↔
      (p.y = y0 ∧ x0 ≤ p.x ∧ p.x ≤ x1) ∨ (p.x = x1 ∧ y0 ≤ p.y ∧ p.y ≤ y1) ∨ (p.y = y1 ∧ x0 ≤ p.x ∧ p.x ≤ x1) ∨ (p.x = x0 ∧ y0 ≤ p.y ∧ p.y ≤ y1) := by
    rw [onBoundary_eq, e]
    simp only [bdE, List.any_cons, List.any_nil, Bool.or_false, Bool.or_eq_true, onSeg_horiz, onSeg_vert]
    constructor
    · rintro (h | h | h | h)
      · left; omega
      · right; left; omega
      · right; right; left; omega
      · right; right; right; omega
    · rintro (h | h | h | h)
      · left; omega
      · right; left; omega
      · right; right; left; omega
      · right; right; right; omega
  unfold InClosed
  rw [hb, wn_rectPoly x0 y0 x1 y1 p hx hy]
  constructor
  · rintro (h | h)
    · omega
    · by_cases c : y0 ≤ p.y ∧ p.y < y1 ∧ x0 ≤ p.x ∧ p.x < x1
      · omega
      · simp [c] at h
  · intro h
    by_cases c : y0 ≤ p.y ∧ p.y < y1 ∧ x0 ≤ p.x ∧ p.x < x1
    · right; simp [c]
    · left; omega

theorem rectContains_iff (p0 p1 p : Pt) : rectContains p0 p1 p = true ↔
    (min p0.x p1.x ≤ p.x ∧ p.x ≤ max p0.x p1.x ∧ min p0.y p1.y ≤ p.y ∧ p.y ≤ max p0.y p1.y) := by
  simp [rectContains, and_assoc]

end L21.Geom
