import L21.Props.C13
/-
C13 — invariance of the containment answer under the ways one polygon can be written down:
any starting vertex, either orientation, vertices repeated in a row.
-/
namespace L21.Geom

theorem edgesFrom_zip (f : Pt) : ∀ (l : List Pt) (x : Pt), edgesFrom f (x :: l) = List.zip (x :: l) (l ++ [f]) := by
  intro l
  induction l with
  | nil => intro x; rfl
  | cons y l' ih => intro x; simp only [edgesFrom, ih y]; rfl

theorem edges_cons (a : Pt) (l : List Pt) : edges (a :: l) = List.zip (a :: l) (l ++ [a]) := edgesFrom_zip a l a

/-- the quantities `InClosed` is made of, for an arbitrary list of edges -/
def wnE (es : List (Pt × Pt)) (p : Pt) : Int := (es.map (fun e => edgeW e.1 e.2 p)).sum
def bdE (es : List (Pt × Pt)) (p : Pt) : Bool := es.any (fun e => onSeg e.1 e.2 p)

theorem wn_eq (P : List Pt) (p : Pt) : wn P p = wnE (edges P) p := rfl
theorem onBoundary_eq (P : List Pt) (p : Pt) : onBoundary P p = bdE (edges P) p := rfl

theorem wnE_append (e1 e2 : List (Pt × Pt)) (p : Pt) : wnE (e1 ++ e2) p = wnE e1 p + wnE e2 p := by
  simp [wnE, List.sum_append]
theorem bdE_append (e1 e2 : List (Pt × Pt)) (p : Pt) : bdE (e1 ++ e2) p = (bdE e1 p || bdE e2 p) := by
  simp [bdE]

/-- one step of moving the start vertex: `a :: l` and `l ++ [a]` have the same edges, rotated -/
theorem edges_rotate1 (a : Pt) (l : List Pt) : ∃ T e, edges (a :: l) = e ++ T ∧ edges (l ++ [a]) = T ++ e := by
  cases l with
  | nil => exact ⟨[], edges [a], by simp, by simp⟩
  | cons b l' =>
    refine ⟨List.zip (b :: l') (l' ++ [a]), [(a, b)], ?_, ?_⟩
    · rw [edges_cons]; rfl
    · have : (b :: l') ++ [a] = b :: (l' ++ [a]) := rfl
      rw [this, edges_cons]
      have h2 : b :: (l' ++ [a]) = (b :: l') ++ [a] := rfl
      rw [h2, List.zip_append (by simp)]
      rfl

theorem InClosed_rotate1 (a : Pt) (l : List Pt) (p : Pt) : InClosed (l ++ [a]) p ↔ InClosed (a :: l) p := by
  obtain ⟨T, e, h1, h2⟩ := edges_rotate1 a l
  unfold InClosed
  rw [wn_eq, wn_eq, onBoundary_eq, onBoundary_eq, h1, h2, wnE_append, wnE_append, bdE_append, bdE_append, Bool.or_comm, Int.add_comm]

/-- **starting vertex**: the answer does not depend on where the vertex list starts -/
theorem InClosed_rotate (l1 l2 : List Pt) (p : Pt) : InClosed (l2 ++ l1) p ↔ InClosed (l1 ++ l2) p := by
  induction l1 generalizing l2 with
  | nil => simp
  | cons a l1' ih =>
    have h1 : l2 ++ a :: l1' = (l2 ++ [a]) ++ l1' := by simp
    rw [h1, ih (l2 ++ [a])]
    have h2 : l1' ++ (l2 ++ [a]) = (l1' ++ l2) ++ [a] := by simp
    rw [h2, InClosed_rotate1]
    rfl


/-! orientation -/
theorem cross_swap (a b p : Pt) : cross b a p = - cross a b p := by unfold cross; ring
theorem edgeW_swap (a b p : Pt) : edgeW b a p = - edgeW a b p := by
  unfold edgeW
  rw [cross_swap]
  by_cases h1 : a.y ≤ p.y ∧ p.y < b.y
  · have h2 : ¬ (b.y ≤ p.y ∧ p.y < a.y) := by omega
    simp only [h1, h2, and_self, if_true, if_false]
    by_cases hc : 0 < cross a b p
    · have : - cross a b p < 0 := by omega
      simp [hc, this]
    · have : ¬ (- cross a b p < 0) := by omega
      simp [hc, this]
  · by_cases h2 : b.y ≤ p.y ∧ p.y < a.y
    · simp only [h1, h2, and_self, if_true, if_false]
      by_cases hc : cross a b p < 0
      · have : 0 < - cross a b p := by omega
        simp [hc, this]
      · have : ¬ (0 < - cross a b p) := by omega
        simp [hc, this]
    · simp [h1, h2]
theorem onSeg_swap (a b p : Pt) : onSeg b a p = onSeg a b p := by
  unfold onSeg
  rw [cross_swap]
  simp only [Int.min_comm b.x a.x, Int.max_comm b.x a.x, Int.min_comm b.y a.y, Int.max_comm b.y a.y, Int.neg_eq_zero]

def swapE (e : Pt × Pt) : Pt × Pt := (e.2, e.1)
theorem wnE_swap (es : List (Pt × Pt)) (p : Pt) : wnE (es.map swapE) p = - wnE es p := by
  induction es with
  | nil => simp [wnE]
  | cons e r ih =>
    simp only [wnE, List.map_cons, List.sum_cons, swapE] at ih ⊢
    rw [ih, edgeW_swap]; omega
theorem bdE_swap (es : List (Pt × Pt)) (p : Pt) : bdE (es.map swapE) p = bdE es p := by
  induction es with
  | nil => rfl
  | cons e r ih => simp only [bdE, List.map_cons, List.any_cons, swapE] at ih ⊢; rw [ih, onSeg_swap]
theorem wnE_reverse (es : List (Pt × Pt)) (p : Pt) : wnE es.reverse p = wnE es p := by
  induction es with
  | nil => rfl
  | cons e r ih => simp only [List.reverse_cons, wnE_append, ih]; simp [wnE]; omega
theorem bdE_reverse (es : List (Pt × Pt)) (p : Pt) : bdE es.reverse p = bdE es p := by
  simp [bdE]

theorem zip_reverse_eq {α β : Type} : ∀ (x : List α) (y : List β), x.length = y.length →
    List.zip x.reverse y.reverse = (List.zip x y).reverse := by
  intro x
  induction x with
  | nil => intro y h; cases y <;> simp_all
  | cons a r ih =>
    intro y h
    cases y with
    | nil => simp at h
    | cons b s =>
      simp only [List.length_cons, Nat.add_right_cancel_iff] at h
      simp only [List.reverse_cons, List.zip_cons_cons]
      rw [List.zip_append (by simp [h]), ih s h]
      rfl
theorem zip_swapE : ∀ (x y : List Pt), List.zip y x = (List.zip x y).map swapE := by
  intro x
  induction x with
  | nil => intro y; cases y <;> rfl
  | cons a r ih => intro y; cases y with
    | nil => rfl
    | cons b s => simp only [List.zip_cons_cons, List.map_cons, swapE, ih s]

theorem edges_reverse (a : Pt) (l : List Pt) : edges (a :: l.reverse) = ((edges (a :: l)).map swapE).reverse := by
  rw [edges_cons, edges_cons]
  have h1 : a :: l.reverse = (l ++ [a]).reverse := by simp
  have h2 : l.reverse ++ [a] = (a :: l).reverse := by simp
  rw [h1, h2, zip_reverse_eq _ _ (by simp), zip_swapE (a :: l) (l ++ [a])]

/-- **orientation**: traversing the vertices in the opposite sense does not change the answer -/
theorem InClosed_reverse (P : List Pt) (p : Pt) : InClosed P.reverse p ↔ InClosed P p := by
  cases P with
  | nil => rfl
  | cons a l =>
    have h : (a :: l).reverse = l.reverse ++ [a] := by simp
    rw [h, InClosed_rotate1]
    unfold InClosed
    rw [wn_eq, wn_eq, onBoundary_eq, onBoundary_eq, edges_reverse, wnE_reverse, bdE_reverse, wnE_swap, bdE_swap]
    simp

/-! repeated vertices -/
theorem edgeW_self (v p : Pt) : edgeW v v p = 0 := by
  unfold edgeW
  have : ¬ (v.y ≤ p.y ∧ p.y < v.y) := by omega
  simp [this]

theorem InClosed_dup_head (v : Pt) (l : List Pt) (p : Pt) : InClosed (v :: v :: l) p ↔ InClosed (v :: l) p := by
  have he : edges (v :: v :: l) = (v, v) :: edges (v :: l) := rfl
  unfold InClosed
  rw [wn_eq, wn_eq, onBoundary_eq, onBoundary_eq, he]
  have hw : wnE ((v, v) :: edges (v :: l)) p = wnE (edges (v :: l)) p := by simp [wnE, edgeW_self]
  rw [hw]
  have hb : bdE ((v, v) :: edges (v :: l)) p = bdE (edges (v :: l)) p := by
    simp only [bdE, List.any_cons]
    cases hs : onSeg v v p with
    | false => simp
    | true =>
      -- p = v, and v is the first endpoint of the first edge
      have hpv : p = v := by
        simp only [onSeg, Bool.and_eq_true, decide_eq_true_eq, min_self, max_self] at hs
        obtain ⟨⟨⟨⟨_, h1⟩, h2⟩, h3⟩, h4⟩ := hs
        cases p; cases v; simp only [Pt.mk.injEq] at *; omega
      subst hpv
      obtain ⟨e, he, h1⟩ := edgesFrom_first_mem p (p :: l) p (by simp)
      have : onSeg e.1 e.2 p = true := by rw [h1]; exact onSeg_self_left _ _
      simp only [Bool.true_or]
      exact (List.any_eq_true.2 ⟨e, he, this⟩).symm
  rw [hb]

/-- **repeated vertices**: writing a vertex twice in a row, anywhere in the list, changes nothing -/
theorem InClosed_dup (l1 l2 : List Pt) (v p : Pt) : InClosed (l1 ++ v :: v :: l2) p ↔ InClosed (l1 ++ v :: l2) p := by
  rw [InClosed_rotate (v :: v :: l2) l1, InClosed_rotate (v :: l2) l1]
  exact InClosed_dup_head v (l2 ++ l1) p


end L21.Geom
